"""Vector (reduction-carrying) kernels: softmax / log_softmax / nll / cross-entropy / batch-norm.

Not a registered property check.  `run_part(ctx, props_file)` is called by checks/c02.py, c09.py, c14.py with
props_file in {"Props/C02_vector.v", "Props/C09_vector.v", "Props/C14_vector.v", "Props/C13_vector.v", "Props/C06_vector.v"} and performs

  (a) translator   lib/py2coq/gen_veckernels.py : cpu_ops.py + nn/functional.py -> coq/Gen/GenVecKernels.v   (fail-closed)
  (b) self-check   IR evaluated with plain Python on every fibre of random N-D arrays vs the real kernels; the wrapper
                   wiring vs an instrumented run of the real wrappers        -> ctx.tie(kind="translator-selfcheck")
  (c) proofs       make Props/<..>_vector.vo (theorems about the generated definitions)
  (d) oracle       judgement directly on the implementation through real Tensors (checks/kv_oracle.py):
                     C02: every input's .grad vs float64 central differences AND PyTorch autograd
                     C09: float32/float64 logits up to 1e4 vs a 60-digit mpmath reference
                     C06: forward values of softmax/log_softmax (every dim), NLLLoss/CrossEntropyLoss (mean|sum|none), F.batch_norm and
                          nn.BatchNorm1d/2d in every mode vs torch, float32 and float64
                     C14: both sides of cross-entropy = nll(log_softmax), log_softmax = log(softmax), values and gradients
                   a failing input becomes ctx.witness(...) (-> VIOLATION with a replay file).
`replay_part(ctx, data)` re-runs a stored witness.
"""
import json, os, time
from lib import common

PROPS = ("Props/C02_vector.v", "Props/C09_vector.v", "Props/C14_vector.v", "Props/C13_vector.v", "Props/C06_vector.v")
EXTRA_TARGETS = {   # only what the part needs: e.g. a broken batch-norm or nll-backward proof must not take the C09 part down
    "Props/C02_vector.v": ["Analysis/Vector.vo", "Gen/GenVecKernels.vo", "Proofs/VecKernelProofs.vo", "Proofs/VecKernelProofsLossFwd.vo",
                           "Proofs/VecKernelProofsLossBwd.vo", "Proofs/VecKernelProofsBNFwd.vo", "Proofs/VecKernelProofsBN.vo"],
    "Props/C09_vector.v": ["Analysis/Vector.vo", "Gen/GenVecKernels.vo", "Proofs/VecKernelProofs.vo", "Proofs/VecKernelProofsLossFwd.vo",
                           "Proofs/VecKernelProofsStability.vo"],
    "Props/C14_vector.v": ["Analysis/Vector.vo", "Gen/GenVecKernels.vo", "Proofs/VecKernelProofs.vo", "Proofs/VecKernelProofsLossFwd.vo",
                           "Proofs/VecKernelProofsLossBwd.vo"],
    "Props/C13_vector.v": ["Analysis/Vector.vo", "Gen/GenVecKernels.vo", "Proofs/VecKernelProofsBNStats.vo"],
    "Props/C06_vector.v": ["Analysis/Vector.vo", "Gen/GenVecKernels.vo", "Proofs/VecKernelProofs.vo", "Proofs/VecKernelProofsLossFwd.vo",
                           "Proofs/VecKernelProofsForward.vo", "Proofs/VecKernelProofsBNFwd.vo", "Proofs/VecKernelProofsBNStats.vo"],
}

NEEDS = {   # kernels / wrappers a part's theorems mention: only their translation failures break that part's tie
    "Props/C02_vector.v": None,       # everything
    "Props/C09_vector.v": {"softmax_forward", "log_softmax_forward", "nll_loss_forward", "cross_entropy_loss_forward",
                           "softmax_forward/intermediates", "log_softmax_forward/intermediates", "cross_entropy_loss_forward/intermediates"},
    "Props/C14_vector.v": {"log_forward", "softmax_forward", "softmax_backward", "log_softmax_forward", "log_softmax_backward",
                           "nll_loss_forward", "nll_loss_backward", "cross_entropy_loss_forward", "cross_entropy_loss_backward",
                           "wrapper:softmax", "wrapper:log_softmax", "wrapper:nll_loss", "wrapper:cross_entropy"},
    "Props/C13_vector.v": {"batch_norm_forward"},
    "Props/C06_vector.v": {"softmax_forward", "log_softmax_forward", "nll_loss_forward", "cross_entropy_loss_forward", "batch_norm_forward",
                           "wrapper-forward:softmax", "wrapper-forward:log_softmax", "wrapper-forward:nll_loss",
                           "wrapper-forward:cross_entropy", "wrapper-forward:batch_norm",
                           "losses:Loss.__call__", "losses:NLLLoss", "losses:CrossEntropyLoss"},
}

_done = {}     # per process: translator + self-check are run once even if several parts are requested


def _translate_and_selfcheck(ctx, props_file):
    if "ir" in _done:
        return _done["ir"], _done["w"]
    from lib.py2coq import gen_veckernels as G
    from lib.py2coq import veckernels_selfcheck as S
    ir = w = None
    try:
        ir, w, txt = G.generate(common.REPO)
        changed = common.write_if_changed(os.path.join(common.COQ, G.OUT_REL), txt)
        ctx.log("veckernels: translated %d kernels, %d wrappers%s" % (len(ir["kernels"]), len([k for k in w if not k.startswith("__")]), " (Gen file changed)" if changed else ""))
        fails = G.all_failures(ir, w)
        need = NEEDS[props_file]
        mine = {k: v for k, v in fails.items() if need is None or k in need}
        if fails:
            ctx.notes.append("veckernels translator refused: %s" % fails)
        if mine:
            ctx.tie("veckernels/translator", "translator-selfcheck", len(mine), 0,
                    [{"kernel": k, "error": "translator refused the current source: %s" % v} for k, v in mine.items()],
                    note="fail-closed translator raised for a kernel / wrapper this part depends on; it is omitted from "
                         "Gen/GenVecKernels.v, so the theorems about it do not compile")
    except Exception as ex:        # Untranslatable or a changed source shape: the tie is broken
        ctx.tie("veckernels/translator", "translator-selfcheck", 1, 0,
                [{"error": "translator refused the current source: %s" % ex}],
                note="fail-closed translator raised; Gen/GenVecKernels.v is stale, theorems are not about this source")
        _done["ir"], _done["w"] = None, None
        return None, None
    from lib import impl
    t0 = time.time()
    try:
        cases, nontrivial, mism, samples = S.selfcheck_kernels(ir, impl.cpu_ops, ctx.rng, ctx.quick)
    except Exception as ex:          # a kernel whose calling convention changed: the tie is broken, the oracle still runs
        import traceback
        cases, nontrivial, samples = 1, 0, []
        mism = [{"error": "self-check could not run the kernels as translated: %r" % ex, "traceback": traceback.format_exc()[-600:]}]
    ctx.tie("veckernels/kernels-vs-IR", "translator-selfcheck", cases, nontrivial, mism,
            note="IR evaluated by an independent pure-Python evaluator on every fibre (np.moveaxis) of random arrays of rank 1-4, "
                 "reduction axis in every position incl. negative; rows for nll/cross-entropy; channels for batch-norm in all "
                 "32 (training, gamma, beta, running_mean, running_var) modes; tolerance 1e-12 relative (summation order); %.1fs" % (time.time() - t0))
    for s in samples:
        ctx.sample(s)
    try:
        wc, wm = S.selfcheck_wiring(w, impl, ctx.rng)
    except Exception as ex:
        wc, wm = 1, [{"error": "wiring self-check raised %r" % ex}]
    ctx.tie("veckernels/wrapper-wiring", "translator-selfcheck", wc, wc, wm,
            note="nn/functional wrappers run on real Tensors with a recording backward kernel: identity of the arrays handed over "
                 "(input vs output vs saved statistics) and which kernel result each input's .grad receives")
    try:
        lc, lm = S.selfcheck_losses(ir, w, impl, ctx.rng)
    except Exception as ex:
        lc, lm = 1, [{"error": "loss-reduction self-check raised %r" % ex}]
    ctx.tie("veckernels/loss-reductions", "translator-selfcheck", lc, lc, lm,
            note="nn.NLLLoss / nn.CrossEntropyLoss x {sum, mean, none} on real Tensors vs per-row IR value + the reduction "
                 "translated from Loss.__call__ (nn/losses.py)")
    _done["ir"], _done["w"] = ir, w
    return ir, w


# ------------------------------------------------------------------------------------------------------
# C14 oracle: both sides of the documented identities through real Tensors
def _c14_ce(x, y, red, g, repeat=1):
    """cross-entropy (fused) vs NLLLoss(log_softmax): returns None or (expected, observed, note)"""
    from lib import impl
    import numpy as np
    sg, NF, nn = impl.synapgrad, impl.NF, impl.nn
    x, y = np.array(x, dtype=np.float64), np.array(y)
    try:
        a = sg.Tensor(x.copy(), requires_grad=True); la = nn.CrossEntropyLoss(reduction=red)(a, sg.Tensor(y.copy()))
        b = sg.Tensor(x.copy(), requires_grad=True); lb = nn.NLLLoss(reduction=red)(NF.log_softmax(b, 1), sg.Tensor(y.copy()))
        g = np.array(g, dtype=np.float64).reshape(np.shape(la.data))
        for _k in range(repeat):      # the same graphs back-propagated `repeat` times: both sides accumulate repeat x the gradient
            la.backward(sg.Tensor(g.copy())); lb.backward(sg.Tensor(g.copy()))
        va, vb, ga, gb = np.array(la.data), np.array(lb.data), a.grad.data, b.grad.data
    except Exception as ex:
        return "both sides accepted", repr(ex), "one side raises"
    tol = lambda r: 1e-9 * max(1.0, float(np.max(np.abs(r))) if np.size(r) else 1.0)
    if va.shape != vb.shape or np.max(np.abs(va - vb), initial=0) > tol(vb) or np.max(np.abs(ga - gb), initial=0) > tol(gb):
        return ({"value": vb.tolist(), "grad": gb.tolist()}, {"value": va.tolist(), "grad": ga.tolist()},
                "the fused loss and the documented composition NLLLoss(log_softmax) disagree")
    return None


def _c14_ls(z, dim, g, repeat=1):
    """log_softmax vs log(softmax): the library's log adds epsilon, so 0 <= log(softmax) - log_softmax <= epsilon/p"""
    from lib import impl
    import numpy as np
    sg, NF = impl.synapgrad, impl.NF
    eps = float(impl.cpu_ops.epsilon)
    z, g = np.array(z, dtype=np.float64), np.array(g, dtype=np.float64)
    try:
        a = sg.Tensor(z.copy(), requires_grad=True); la = NF.log_softmax(a, dim)
        b = sg.Tensor(z.copy(), requires_grad=True); sb = NF.softmax(b, dim); lb = sb.log()
        for _k in range(repeat):
            la.backward(sg.Tensor(g.copy())); lb.backward(sg.Tensor(g.copy()))
    except Exception as ex:
        return "both sides accepted", repr(ex), "one side raises"
    p = np.array(sb.data)
    dv = np.array(lb.data) - np.array(la.data)
    gscale = max(1.0, float(np.max(np.abs(a.grad.data))), float(np.max(np.abs(g))))
    dg = np.abs(b.grad.data - a.grad.data)
    if np.any(dv < -1e-12) or np.any(dv > eps / p + 1e-12) or np.any(dg > (1e-9 + 4 * float(np.max(eps / p))) * gscale):
        return ({"value": np.array(la.data).tolist(), "grad": a.grad.data.tolist()},
                {"value": np.array(lb.data).tolist(), "grad": b.grad.data.tolist()},
                "log(softmax(x)) must lie within [0, epsilon/p] above log_softmax(x), gradients equal up to epsilon/p")
    return None


def oracle_c14(ctx):
    import numpy as np
    rs = np.random.RandomState(ctx.rng.randrange(2 ** 31))
    n_cases = witnesses = 0
    reps = 40 if ctx.quick else 400

    def report(site, klass, inp, verdict):
        nonlocal witnesses
        witnesses += 1
        if witnesses <= 3:
            inp = dict(inp); inp["oracle"] = "c14"
            ctx.witness(site, klass, inp, verdict[0], verdict[1], verdict[2])

    for k in range(reps):
        N, C = int(rs.randint(1, 6)), int(rs.randint(1, 6))
        x = rs.standard_normal((N, C)) * float(rs.choice([0.5, 2.0, 6.0]))
        y = rs.randint(0, C, size=(N,))
        for red in ("mean", "sum", "none"):
            n_cases += 1
            g = (rs.standard_normal((N, 1)) + 2.0) if red == "none" else (rs.standard_normal(()) + 2.0)
            for rep in (1, 2 + (k % 2)):
                n_cases += rep > 1
                v = _c14_ce(x, y, red, g, rep)
                if v:
                    report("nn.CrossEntropyLoss vs NLLLoss(log_softmax)", "reduction=%s%s" % (red, " backward-x%d" % rep if rep > 1 else ""),
                           {"identity": "ce", "x": x.tolist(), "y": y.tolist(), "reduction": red, "g": np.array(g).tolist(), "repeat": rep}, v)
        rank = int(rs.randint(1, 4))
        shape = tuple(int(rs.randint(1, 5)) for _ in range(rank))
        z = rs.standard_normal(shape) * float(rs.choice([0.5, 2.0, 5.0]))
        for dim in range(-rank, rank):
            n_cases += 1
            g = rs.standard_normal(shape)
            for rep in (1, 2 + (k % 2)):
                n_cases += rep > 1
                v = _c14_ls(z, dim, g, rep)
                if v:
                    report("log_softmax vs log(softmax)", "dim=%d rank=%d%s" % (dim, rank, " backward-x%d" % rep if rep > 1 else ""),
                           {"identity": "ls", "x": z.tolist(), "dim": dim, "g": g.tolist(), "repeat": rep}, v)
    res = {"cases": n_cases, "witnesses": witnesses}
    ctx.extra["oracle_c14_vector"] = res
    return res


# ------------------------------------------------------------------------------------------------------
# C06 oracle: forward VALUES through real Tensors / modules vs torch, float32 and float64
KNOWN_SHAPE_CLASS = "per-row loss has shape (N,1) instead of (N,)"
KNOWN_SHAPE_SITE = {"NLLLoss": "nn.functional.nll_loss/forward", "CrossEntropyLoss": "nn.functional.cross_entropy/forward"}


def _c06_judge(case):
    """None or (expected, observed, note).  case["kind"] in softmax | log_softmax | loss | bn_functional | bn_layer"""
    from lib import impl
    import numpy as np, torch
    sg, NF, nn = impl.synapgrad, impl.NF, impl.nn
    F = torch.nn.functional
    dt = np.float32 if case["dtype"] == "float32" else np.float64
    tdt = torch.float32 if case["dtype"] == "float32" else torch.float64
    A = lambda a: None if a is None else np.array(a, dtype=dt)
    T = lambda a: None if a is None else sg.Tensor(A(a))
    unc = case.get("uncentred")
    if unc:
        # uncentred batch (|mean| >> std): the reference is the two-pass result in float64 on the dtype-rounded operands
        tdt = torch.float64
    TT = lambda a: None if a is None else torch.tensor(A(a).astype(np.float64) if unc else A(a), dtype=tdt)
    x = A(case["x"])
    kind = case["kind"]
    with torch.no_grad():
        if kind in ("softmax", "log_softmax"):
            ref = (torch.softmax if kind == "softmax" else torch.log_softmax)(TT(x), case["dim"]).numpy()
        elif kind == "loss":
            y = torch.tensor(case["labels"], dtype=torch.long)
            red = case["reduction"] if case["reduction"] in ("mean", "sum") else "none"
            ref = (F.nll_loss if case["cls"] == "NLLLoss" else F.cross_entropy)(TT(x), y, reduction=red).numpy()
        else:
            tr = bool(case["training"])
            stats = case["running_mean"] is not None
            trm, trv = TT(case["running_mean"]), TT(case["running_var"])
            ref = F.batch_norm(TT(x), trm, trv, TT(case["weight"]), TT(case["bias"]),
                               tr or not stats, case["momentum"], case["eps"]).numpy()
            ref_stats = None if not stats else (trm.numpy(), trv.numpy())
    try:
        with np.errstate(all="ignore"):
            if kind in ("softmax", "log_softmax"):
                out = (NF.softmax if kind == "softmax" else NF.log_softmax)(T(x), case["dim"])
            elif kind == "loss":
                yl = sg.Tensor(np.array(case["labels"], dtype=np.int64))
                if case.get("form") == "functional":
                    out = (NF.nll_loss if case["cls"] == "NLLLoss" else NF.cross_entropy)(T(x), yl)
                else:
                    out = (nn.NLLLoss if case["cls"] == "NLLLoss" else nn.CrossEntropyLoss)(reduction=case["reduction"])(T(x), yl)
            elif kind == "bn_functional":
                srm, srv = T(case["running_mean"]), T(case["running_var"])
                out = NF.batch_norm(T(x), T(case["weight"]), T(case["bias"]), srm, srv,
                                    bool(case["training"]), case["momentum"], case["eps"])
                obs_stats = None if srm is None else (np.array(srm.data), np.array(srv.data))
            else:
                cls = nn.BatchNorm1d if x.ndim <= 3 else nn.BatchNorm2d
                affine, track = case["weight"] is not None, case["running_mean"] is not None
                mod = cls(x.shape[1], eps=case["eps"], momentum=case["momentum"], affine=affine, track_running_stats=track, dtype=dt)
                if affine:
                    mod.weight.data = A(case["weight"]); mod.bias.data = A(case["bias"])
                if track:
                    mod.running_mean.data = A(case["running_mean"]); mod.running_var.data = A(case["running_var"])
                mod.train() if case["training"] else mod.eval()
                out = mod(T(x))
                obs_stats = None if not track else (np.array(mod.running_mean.data), np.array(mod.running_var.data))
        obs = np.array(out.data)
    except Exception as ex:
        return ref.tolist(), "raised " + repr(ex)[:200], "the forward call raises on an input PyTorch accepts"
    tol = (1e-4 if case["dtype"] == "float32" else 1e-9) * max(1.0, float(np.max(np.abs(ref))) if ref.size else 1.0)
    if unc:
        tol = (4e-6 * unc if case["dtype"] == "float32" else 1e-7) * max(1.0, float(np.max(np.abs(ref))))   # float32 input spacing ~ 1e-7*|mean| = 1e-7*ratio*std
    if obs.size != ref.size:
        return ref.tolist(), obs.tolist(), "result has %d elements (shape %s), PyTorch's has %d (shape %s)" % (obs.size, obs.shape, ref.size, ref.shape)
    # shapes are compared STRICTLY.  The one deviation of the unchanged tree -- the per-row loss of nll_loss / cross_entropy
    # (reduction none) has shape (N,1) where PyTorch returns (N,) -- gets its own class (KNOWN_SHAPE_CLASS), so that the
    # known-findings file can list exactly it; the VALUES are still compared after the reshape, and any other shape is a violation
    known_shape = False
    if obs.shape != ref.shape:
        known_shape = kind == "loss" and case["reduction"] not in ("mean", "sum") and ref.ndim == 1 and obs.shape == (ref.shape[0], 1)
        if not known_shape:
            return ref.tolist(), obs.tolist(), "result shape %s, PyTorch %s" % (obs.shape, ref.shape)
    o64, r64 = obs.astype(np.float64).reshape(-1), ref.astype(np.float64).reshape(-1)
    if not np.all(np.isfinite(o64)) or np.any(np.abs(o64 - r64) > tol):
        return ref.tolist(), obs.tolist(), "forward value differs from PyTorch by more than %.1e (%s)" % (tol, case["dtype"])
    if known_shape:
        return {"shape": list(ref.shape), "value": ref.tolist()}, {"shape": list(obs.shape), "value": obs.tolist()}, KNOWN_SHAPE_CLASS
    if kind.startswith("bn_") and ref_stats is not None and x.size // x.shape[1] > 1:
        for name, o, r in zip(("running_mean", "running_var"), obs_stats, ref_stats):
            o, r = o.astype(np.float64), r.astype(np.float64)
            t = (1e-4 if case["dtype"] == "float32" else 1e-9) * max(1.0, float(np.max(np.abs(r))))
            if unc:
                t = (4e-6 * unc if case["dtype"] == "float32" else 1e-7) * max(1.0, float(np.max(np.abs(r))))
            if o.shape != r.shape or np.any(np.abs(o - r) > t):
                return {name: r.tolist()}, {name: o.tolist()}, "%s after the call differs from PyTorch's buffer (update uses the unbiased variance var*n/(n-1))" % name
    return None


def oracle_c06(ctx):
    import numpy as np
    rs = np.random.RandomState(ctx.rng.randrange(2 ** 31))
    cases = []
    reps = 3 if ctx.quick else 12
    for dtype in ("float32", "float64"):
        for rank in (1, 2, 3, 4):
            for _ in range(2 * reps):
                shape = tuple(int(rs.randint(1, 5)) for _ in range(rank))
                x = (rs.standard_normal(shape) * float(rs.choice([0.5, 3.0, 20.0]))).tolist()
                for dim in range(-rank, rank):
                    for kind in ("softmax", "log_softmax"):
                        cases.append({"kind": kind, "dtype": dtype, "dim": dim, "x": x})
        for _ in range(8 * reps):
            N, C = int(rs.randint(1, 6)), int(rs.randint(1, 6))
            x = (rs.standard_normal((N, C)) * float(rs.choice([1.0, 5.0]))).tolist()
            labels = rs.randint(0, C, size=N).tolist()
            for cls in ("NLLLoss", "CrossEntropyLoss"):
                for red in ("mean", "sum", "none"):
                    cases.append({"kind": "loss", "cls": cls, "reduction": red, "dtype": dtype, "x": x, "labels": labels})
                cases.append({"kind": "loss", "form": "functional", "cls": cls, "reduction": "none", "dtype": dtype, "x": x, "labels": labels})
        for training in (True, False):
            for aff in (True, False):
                for stats in (True, False):
                    for rank in (2, 3, 4):
                        for _ in range(reps):
                            C = int(rs.randint(1, 4))
                            shape = (int(rs.randint(2, 5)), C) + tuple(int(rs.randint(1, 4)) for _ in range(rank - 2))
                            base = {"dtype": dtype, "training": training, "momentum": float(rs.choice([0.1, 0.3])),
                                    "eps": float(rs.choice([1e-5, 1e-3, 0.1])),
                                    "x": (rs.standard_normal(shape) * float(rs.choice([1.0, 4.0])) + float(rs.choice([0.0, 2.0, -3.0]))).tolist(),
                                    "weight": rs.uniform(-2, 2, C).tolist() if aff else None, "bias": rs.uniform(-2, 2, C).tolist() if aff else None,
                                    "running_mean": rs.uniform(-2, 2, C).tolist() if stats else None,
                                    "running_var": rs.uniform(0.3, 3, C).tolist() if stats else None}
                            cases.append(dict(base, kind="bn_functional"))
                            cases.append(dict(base, kind="bn_layer"))
    # uncentred batches: |mean|/std = 1e2, 1e3, 1e4 (a one-pass variance E[x^2]-E[x]^2 loses all precision there)
    for dtype in ("float32", "float64"):
        for ratio in (1e2, 1e3, 1e4):
            for training in (True, False):
                for stats in (True, False):
                    for _ in range(reps):
                        C = int(rs.randint(1, 3))
                        shape = (int(rs.randint(4, 9)), C) + ((int(rs.randint(2, 4)),) if rs.rand() < 0.5 else ())
                        std = float(rs.choice([0.5, 2.0]))
                        base = {"dtype": dtype, "training": training, "momentum": 0.1, "eps": 1e-5, "uncentred": ratio,
                                "x": (rs.standard_normal(shape) * std + ratio * std * float(rs.choice([-1, 1]))).tolist(),
                                "weight": rs.uniform(0.5, 2, C).tolist(), "bias": rs.uniform(-1, 1, C).tolist(),
                                "running_mean": (rs.uniform(-1, 1, C) + ratio * std).tolist() if stats else None,
                                "running_var": rs.uniform(0.3, 3, C).tolist() if stats else None}
                        cases.append(dict(base, kind="bn_functional"))
                        cases.append(dict(base, kind="bn_layer"))
    witnesses = 0
    by = {}
    shape_dev = {}          # site -> (count, smallest case, verdict): the (N,1)-vs-(N,) deviation, reported once per site
    for case in cases:
        by[case["kind"]] = by.get(case["kind"], 0) + 1
        v = _c06_judge(case)
        if v and v[2] == KNOWN_SHAPE_CLASS:
            site = KNOWN_SHAPE_SITE[case["cls"]]
            cnt, best, bv = shape_dev.get(site, (0, None, None))
            if best is None or np.size(case["x"]) < np.size(best["x"]):
                best, bv = case, v
            shape_dev[site] = (cnt + 1, best, bv)
            continue
        if v:
            witnesses += 1
            if witnesses <= 3:
                site = {"softmax": "nn.functional.softmax/forward", "log_softmax": "nn.functional.log_softmax/forward",
                        "bn_functional": "nn.functional.batch_norm/forward", "bn_layer": "nn.BatchNorm/forward"}.get(case["kind"]) \
                    or "nn.%s/forward" % case["cls"]
                klass = "%s %s" % (case["dtype"], "dim=%s" % case["dim"] if "dim" in case else
                                   ("reduction=%s" % case["reduction"] if "reduction" in case else
                                    "training=%s affine=%s running=%s rank=%d%s" % (case["training"], case["weight"] is not None,
                                                                                     case["running_mean"] is not None, np.ndim(case["x"]),
                                                                                     " uncentred |mean|/std=%g" % case["uncentred"] if case.get("uncentred") else "")))
                ctx.witness(site, klass, dict(case, oracle="c06"), v[0], v[1], v[2])
    n_shape = 0
    for site, (cnt, case, v) in sorted(shape_dev.items()):
        # suppressed (KNOWN-FINDING line, exit 0) iff known_findings.json has an OPEN entry with exactly this site and class
        if ctx.witness(site, KNOWN_SHAPE_CLASS, dict(case, oracle="c06"), v[0], v[1],
                       "values agree with PyTorch after reshape((-1,)); %d such cases in this run (NLLLoss / CrossEntropyLoss with "
                       "reduction none and the bare functional)" % cnt):
            n_shape += 1
    res = {"cases": len(cases), "by_kind": by, "witnesses": witnesses + n_shape,
           "per_row_shape_deviation": {site: cnt for site, (cnt, _c, _v) in shape_dev.items()}}
    ctx.extra["oracle_c06_vector"] = res
    return res


def _axioms_of_log(path):
    """`Print Assumptions` prints long axiom types on the following lines (`name` alone, then `  : type`);
    common.parse_assumptions only sees `name : type` on one line, so re-read the build log here."""
    import re
    res, cur, mode = {}, None, False
    try:
        lines = open(path).read().splitlines()
    except OSError:
        return res
    for l in lines:
        m = re.search(r"ASSUMPTIONS ([A-Za-z0-9_']+)", l)
        if m:
            cur = m.group(1); res[cur] = []; mode = False; continue
        if cur is None:
            continue
        if l.startswith("Closed under the global context"):
            mode = False
        elif l.startswith("Axioms:"):
            mode = True
        elif mode:
            m = re.match(r"^([A-Za-z][A-Za-z0-9_.']*)\s*(:|$)", l)
            if m and m.group(1) not in res[cur]:
                res[cur].append(m.group(1))
            elif l and not l[0].isspace() and not m:
                mode = False
    return res


def _c13_judge(case):
    """running statistics after one forward call vs PyTorch's buffers; None or (expected, observed, note)"""
    from lib import impl
    import numpy as np, torch
    sg, NF = impl.synapgrad, impl.NF
    x = np.array(case["x"], dtype=np.float64)
    rm0, rv0 = np.array(case["running_mean"], dtype=np.float64), np.array(case["running_var"], dtype=np.float64)
    w = None if case["weight"] is None else np.array(case["weight"], dtype=np.float64)
    b = None if case["bias"] is None else np.array(case["bias"], dtype=np.float64)
    T = lambda a: None if a is None else sg.Tensor(a.copy())
    rm, rv = T(rm0), T(rv0)
    try:
        out = NF.batch_norm(T(x), T(w), T(b), rm, rv, case["training"], case["momentum"], case["eps"])
    except Exception as ex:
        return "forward accepted", repr(ex), "forward raised"
    tt = lambda a: None if a is None else torch.tensor(a.copy())
    trm, trv = tt(rm0), tt(rv0)
    tout = torch.nn.functional.batch_norm(tt(x), trm, trv, tt(w), tt(b), case["training"], case["momentum"], case["eps"])
    obs = {"running_mean": np.array(rm.data).tolist(), "running_var": np.array(rv.data).tolist()}
    exp = {"running_mean": trm.numpy().tolist(), "running_var": trv.numpy().tolist()}
    ok = all(np.allclose(np.array(obs[k]), np.array(exp[k]), rtol=1e-9, atol=1e-11) for k in obs) and \
        np.allclose(np.array(out.data), tout.numpy(), rtol=1e-8, atol=1e-10)
    return None if ok else (exp, obs, "running statistics / output after one forward call differ from PyTorch")


def oracle_c13_stats(ctx):
    import numpy as np
    rs = np.random.RandomState(ctx.rng.randrange(2 ** 31))
    n_cases = witnesses = 0
    for k in range(60 if ctx.quick else 600):
        rank = int(rs.randint(2, 5))
        shape = (int(rs.randint(2, 5)), int(rs.randint(1, 4))) + tuple(int(rs.randint(1, 4)) for _ in range(rank - 2))
        C = shape[1]
        aff = rs.randint(0, 2)
        off = 2e5 * float(rs.choice([-1, 1])) if k % 4 == 0 else rs.uniform(-3, 3)      # every 4th batch is uncentred: |mean|/std = 1e5
        case = {"oracle": "c13", "x": (rs.standard_normal(shape) * 2 + off).tolist(),
                "running_mean": rs.uniform(-2, 2, C).tolist(), "running_var": rs.uniform(0.3, 3, C).tolist(),
                "weight": rs.uniform(-2, 2, C).tolist() if aff else None, "bias": rs.uniform(-2, 2, C).tolist() if aff else None,
                "training": bool(rs.randint(0, 2)), "momentum": float(rs.choice([0.1, 0.3, 0.9])), "eps": float(rs.choice([1e-5, 1e-3, 0.1]))}
        n_cases += 1
        v = _c13_judge(case)
        if v:
            witnesses += 1
            if witnesses <= 3:
                ctx.witness("nn.functional.batch_norm/running-statistics", "training=%s rank=%d" % (case["training"], rank), case, v[0], v[1], v[2])
    res = {"cases": n_cases, "witnesses": witnesses}
    ctx.extra["oracle_c13_vector"] = res
    return res


def run_part(ctx, props_file):
    """(a) translator, (b) self-check, (c) build of props_file, (d) oracle for that part.  Returns a small summary dict."""
    assert props_file in PROPS, props_file
    ir, w = _translate_and_selfcheck(ctx, props_file)
    ok, fails = ctx.build_props(props_rel=props_file, extra_targets=EXTRA_TARGETS[props_file], timeout=900)
    if ok:
        ctx.assumption_axioms.update(_axioms_of_log(os.path.join(ctx.workdir, "build.log")))
    from checks import kv_oracle
    t0 = time.time()
    if props_file.endswith("C02_vector.v"):
        res = kv_oracle.oracle_c02(ctx)
    elif props_file.endswith("C09_vector.v"):
        res = kv_oracle.oracle_c09(ctx)
    elif props_file.endswith("C13_vector.v"):
        res = oracle_c13_stats(ctx)
    elif props_file.endswith("C06_vector.v"):
        res = oracle_c06(ctx)
    else:
        res = oracle_c14(ctx)
    ctx.log("veckernels oracle for %s: %s (%.1fs)" % (props_file, {k: v for k, v in res.items() if k in ("cases", "witnesses", "rejected")}, time.time() - t0))
    if ctx.broken and not ctx.witnesses:
        ctx.notes.append("veckernels: a proof / tie is broken and the oracle sweep found no failing input on the implementation")
    ctx.trusted.append("vector kernels: the one-fibre reading of axis=/keepdims=/reshape(keepdims_shape)/[range(n), y] (validated by the "
                       "self-check on every run, not proved); Coq real-number axioms (ClassicalDedekindReals.sig_not_dec, sig_forall_dec, "
                       "functional_extensionality_dep, Classical_Prop.classic); float rounding and NumPy exp/log accuracy are outside the model")
    return {"built": ok, "oracle": res}


def replay_part(ctx, data):
    """Re-run a stored witness of this part on the implementation; 1 = still fails."""
    if data.get("kind") != "failing-input":
        print(json.dumps(data.get("broken"), indent=1)); return 1
    inp = data.get("input", {})
    if inp.get("oracle") == "c06":
        v = _c06_judge({k: v for k, v in inp.items() if k != "oracle"})
        print("still fails:" if v else "passes now:", json.dumps(v, default=str)[:600])
        return 1 if v else 0
    if inp.get("oracle") == "c13":
        v = _c13_judge(inp)
        print("still fails:" if v else "passes now:", json.dumps(v, default=str)[:600])
        return 1 if v else 0
    if inp.get("oracle") == "c14":
        rep = int(inp.get("repeat", 1))
        v = _c14_ce(inp["x"], inp["y"], inp["reduction"], inp["g"], rep) if inp.get("identity") == "ce" else _c14_ls(inp["x"], inp["dim"], inp["g"], rep)
        print("still fails:" if v else "passes now:", json.dumps(v, default=str)[:600])
        return 1 if v else 0
    from checks import kv_oracle
    return kv_oracle.replay_case(data)
