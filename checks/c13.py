"""C13 — Dropout and BatchNorm honour train/eval mode over any call history.

Obligations : coq/Props/C13.v (State/BNDropout.v over Q: BatchNorm.forward's factor/branch logic, batch_norm_forward's
              choice of statistics and running update, the write-back; Dropout with the drawn numbers as oracle input)
Ties        : K  random call histories (train()/eval()/forward, <= 8 events) on real nn.BatchNorm1d/2d objects, every
                 option combination, 2-D/3-D/4-D dyadic float64 batches: running_mean, running_var, num_batches_tracked,
                 mode, the statistics used for normalisation and the outcome (value / ZeroDivisionError) after every event,
                 compared with the model inside Coq -- exactly where float64 arithmetic is exact (power-of-two sample
                 counts, dyadic momentum; running_var only for n = 2 because n/(n-1) is not dyadic otherwise), with
                 relative tolerance 1e-12 elsewhere; the layer output through a 40-digit rational square root at 1e-9.
              K  nn.Dropout: forward / backward with the numbers np.random.rand will draw (re-seeded), p in
                 {0, 1/4, 1/2, 3/4, 1, ...}, exact when 1/(1-p) is dyadic, 2^-50 relative otherwise; eval identity.
Oracle      : torch.nn.BatchNorm1d/2d on the same history (1e-6), a Fraction spec of the documented update rule, and
              the direct Dropout statements (mask recovered from the output, out == x*m/(1-p), grad == g*m/(1-p)).
              Mask distribution: thorough tier only, a binomial sanity band of 6 sigma (sampled, not a proof).
"""
import json, math, re
from fractions import Fraction
from lib import common
from lib.common import cb, cn, clist, cq

EPS_DYADIC = Fraction(1, 1024)


def _impl():
    from lib import impl
    return impl


def fr(x):
    return Fraction(float(x))


NONFINITE = Fraction(10 ** 30)          # stands for inf / nan in the data handed to Coq (never equal to a model value)


def frl(a):
    return [Fraction(float(v)) if math.isfinite(float(v)) else NONFINITE for v in a.reshape(-1)]


def is_pow2(n):
    return n >= 1 and (n & (n - 1)) == 0


def isqrt_fraction(q, digits=40):
    """rational s > 0 with s*s ~ q to `digits` digits"""
    q = Fraction(q)
    scale = 10 ** digits
    n = (q.numerator * scale * scale) // q.denominator
    return Fraction(math.isqrt(n), scale)


# ------------------------------------------------------------------ module trees around the layer under test
# shape -> (path of the layer, paths of all nodes in the order used for event generation, Coq tree)
TREES = {
    "flat":       dict(lp=[],     nodes=[[]],                              coq="Node true []"),
    "seq":        dict(lp=[0],    nodes=[[], [0]],                         coq="Node true [Node true []]"),
    "holder":     dict(lp=[0],    nodes=[[], [0], [1]],                    coq="Node true [Node true []; Node true []]"),
    "holder_rev": dict(lp=[1],    nodes=[[], [0], [1]],                    coq="Node true [Node true []; Node true []]"),
    "seq_holder": dict(lp=[0, 0], nodes=[[], [0], [0, 0], [0, 1]],         coq="Node true [Node true [Node true []; Node true []]]"),
    "holder_seq": dict(lp=[0, 0], nodes=[[], [0], [0, 0], [1], [1, 0]],    coq="Node true [Node true [Node true []]; Node true [Node true []]]"),
}
TREE_NAMES = list(TREES)


def build_tree(nnmod, shape, layer):
    """Real module tree (works for synapgrad.nn and torch.nn): returns (root, {path tuple: module}).
    Holder is a custom Module keeping the layer (and an unused sibling Dropout) as attributes; forwards go through `inner`."""
    class Holder(nnmod.Module):
        def __init__(self, inner, side, inner_first=True):
            super().__init__()
            if inner_first:
                self.inner = inner; self.side = side
            else:
                self.side = side; self.inner = inner

        def forward(self, x):
            return self.inner(x)
    if shape == "flat":
        return layer, {(): layer}
    if shape == "seq":
        root = nnmod.Sequential(layer)
        return root, {(): root, (0,): layer}
    if shape == "holder":
        side = nnmod.Dropout(0.5)
        root = Holder(layer, side)
        return root, {(): root, (0,): layer, (1,): side}
    if shape == "holder_rev":
        side = nnmod.Dropout(0.5)
        root = Holder(layer, side, inner_first=False)
        return root, {(): root, (0,): side, (1,): layer}
    if shape == "seq_holder":
        side = nnmod.Dropout(0.5)
        mid = Holder(layer, side)
        root = nnmod.Sequential(mid)
        return root, {(): root, (0,): mid, (0, 0): layer, (0, 1): side}
    if shape == "holder_seq":
        side = nnmod.Dropout(0.5)
        mid, smid = nnmod.Sequential(layer), nnmod.Sequential(side)
        root = Holder(mid, smid)
        return root, {(): root, (0,): mid, (0, 0): layer, (1,): smid, (1, 0): side}
    raise KeyError(shape)


def is_prefix(p, q):
    return list(q[:len(p)]) == list(p)


GRAD_CTX = ["none", "no_grad", "retain_grads", "no_grad+retain_grads"]


def grad_context(lib, name):
    """the global grad-mode context a forward runs in (lib = the synapgrad module or torch)"""
    import contextlib
    st = contextlib.ExitStack()
    if "no_grad" in name:
        st.enter_context(lib.no_grad())
    if "retain_grads" in name and hasattr(lib, "retain_grads"):
        st.enter_context(lib.retain_grads())
    return st


def random_ctx(rng):
    return "none" if rng.random() < 0.6 else rng.choice(GRAD_CTX[1:])


def random_switches(rng, shape, n):
    """n train()/eval() calls on random nodes; now and then the pattern root.eval(); child.train(); root.eval()"""
    nodes = TREES[shape]["nodes"]
    out = []
    while len(out) < n:
        if rng.random() < 0.25 and len(nodes) > 1:
            b = rng.random() < 0.5
            out += [([], b), (rng.choice(nodes[1:]), not b), ([], b)]
        else:
            out.append((rng.choice(nodes), rng.random() < 0.5))
    return out[:max(n, 0)] if n < 3 else out


def path_coq(p):
    return "[" + "; ".join("%d%%nat" % i for i in p) + "]"


# ------------------------------------------------------------------ BatchNorm cases
class BNCase:
    def __init__(self, rng, momentum, affine, track, rank, eps, max_events=8, exact=None):
        self.momentum, self.affine, self.track, self.rank, self.eps = momentum, affine, track, rank, eps
        self.C = rng.randint(1, 3)
        self.tree = rng.choice(TREE_NAMES)
        want_exact = rng.random() < 0.6 if exact is None else exact
        self.spatial = {2: (), 3: (rng.choice([1, 2, 4] if want_exact else [1, 2, 3]),),
                        4: (rng.choice([1, 2]), rng.choice([1, 2] if want_exact else [1, 3]))}[rank]
        self.gamma = [Fraction(rng.randint(-8, 8), 4) for _ in range(self.C)] if affine else None
        self.beta = [Fraction(rng.randint(-8, 8), 4) for _ in range(self.C)] if affine else None
        self.events = []
        nev = rng.randint(2, max_events)
        for _ in range(nev):
            c = rng.random()
            if c < 0.4:
                for pth, b in random_switches(rng, self.tree, 1 if rng.random() < 0.8 else 3):
                    self.events.append(("Set", list(pth), b))
            else:
                if want_exact:
                    N = rng.choice([2, 2, 4, 8]) if rng.random() < 0.93 else 1
                else:
                    N = rng.choice([1, 2, 3, 3, 5, 6])
                shape = (N, self.C) + self.spatial
                size = 1
                for d in shape:
                    size *= d
                vals = [Fraction(rng.randint(-16, 16), 4) for _ in range(size)]
                self.events.append(("Forward", shape, vals, random_ctx(rng)))

    @classmethod
    def from_descr(cls, d):
        c = cls.__new__(cls)
        c.momentum, c.affine, c.track = d["momentum"], d["affine"], d["track_running_stats"]
        c.eps = Fraction(d["eps"])
        c.C = d["num_features"]
        c.gamma = [Fraction(g) for g in d["weight"]] if c.affine else None
        c.beta = [Fraction(b) for b in d["bias"]] if c.affine else None
        c.events = []
        c.tree = d["tree"]
        c.rank, c.spatial = (4 if d["layer"] == "BatchNorm2d" else 2), ()
        for e in d["events"]:
            if "set" in e:
                c.events.append(("Set", list(e["set"]["node"]), e["set"]["training"]))
            else:
                shape = tuple(e["forward"]["shape"])
                c.rank, c.spatial = len(shape), shape[2:]
                c.events.append(("Forward", shape, [Fraction(v) for v in e["forward"]["values"]], e["forward"].get("grad_context", "none")))
        return c

    def eps_zero_legal(self):
        """eps = 0 is only meaningful when no variance that is ever used can be 0: every forward has n >= 2 samples and a
        non-constant sample list per feature (then the batch variances, hence also the running variances, are > 0)"""
        for e in self.events:
            if e[0] == "Forward":
                if self.nsamp(e) < 2 or any(len(set(col)) < 2 for col in self.per_feature(e)):
                    return False
        return True

    def nsamp(self, ev):
        n = ev[1][0]
        for d in self.spatial:
            n *= d
        return n

    def per_feature(self, ev):
        """samples of each feature in the order of x[:, c, ...].reshape(-1)"""
        shape, vals = ev[1], ev[2]
        N, C = shape[0], shape[1]
        inner = 1
        for d in shape[2:]:
            inner *= d
        out = []
        for c in range(C):
            col = []
            for n in range(N):
                base = (n * C + c) * inner
                col += vals[base:base + inner]
            out.append(col)
        return out

    def descr(self):
        return {"layer": "BatchNorm2d" if self.rank == 4 else "BatchNorm1d", "num_features": self.C,
                "momentum": self.momentum, "affine": self.affine, "track_running_stats": self.track,
                "eps": str(self.eps), "weight": [str(g) for g in self.gamma] if self.affine else None,
                "bias": [str(b) for b in self.beta] if self.affine else None,
                "tree": self.tree, "layer_path": TREES[self.tree]["lp"],
                "events": [{"set": {"node": e[1], "training": e[2]}} if e[0] == "Set" else
                           {"forward": {"shape": list(e[1]), "values": [str(v) for v in e[2]], "grad_context": e[3]}} for e in self.events]}


def momentum_q(m):
    return None if m is None else Fraction(float(m))


def run_bn_impl(case):
    """-> list of per-event observations (dict)"""
    impl = _impl()
    np, sg, nn = impl.np, impl.synapgrad, impl.nn
    impl.reset_modes()
    cls = nn.BatchNorm2d if case.rank == 4 else nn.BatchNorm1d
    layer = cls(case.C, eps=float(case.eps), momentum=case.momentum, affine=case.affine,
                track_running_stats=case.track, dtype=np.float64)
    if case.affine:
        layer.weight.data = np.array([float(g) for g in case.gamma], dtype=np.float64)
        layer.bias.data = np.array([float(b) for b in case.beta], dtype=np.float64)
    root, nodes = build_tree(nn, case.tree, layer)
    captured = []
    orig = impl.cpu_ops.batch_norm_forward

    def wrap(*a, **k):
        r = orig(*a, **k)
        captured.append((np.array(r[3], dtype=np.float64).copy(), np.array(r[4], dtype=np.float64).copy()))
        return r
    impl.cpu_ops.batch_norm_forward = wrap
    obs = []
    try:
        for ev in case.events:
            o = {"out": None}
            if ev[0] == "Set":
                node = nodes[tuple(ev[1])]
                node.train() if ev[2] else node.eval()
            else:
                x = sg.Tensor(np.array([float(v) for v in ev[2]], dtype=np.float64).reshape(ev[1]))
                del captured[:]
                try:
                    with grad_context(sg, ev[3]):     # the global grad mode must not matter
                        y = root(x)                  # forwards go through the root of the tree
                    yd = np.asarray(y.data, dtype=np.float64)
                    ycols = [frl(np.moveaxis(yd, 1, 0)[c]) for c in range(case.C)]
                    o["out"] = {"mean": frl(captured[-1][0]), "var": frl(captured[-1][1]), "y": ycols,
                                "raw": yd.copy(), "dtype": str(y.data.dtype)}
                except ZeroDivisionError:
                    o["out"] = "raise"
                except Exception as ex:        # anything else is not modelled: recorded, will mismatch
                    o["out"] = "raise:" + type(ex).__name__
            o["rm"] = None if layer.running_mean is None else frl(layer.running_mean.data)
            o["rv"] = None if layer.running_var is None else frl(layer.running_var.data)
            o["nbt"] = layer.num_batches_tracked
            o["training"] = bool(layer.training)
            obs.append(o)
    finally:
        impl.cpu_ops.batch_norm_forward = orig
    return obs


def bn_tolerances(case):
    """(tm, tv): 0 where float64 arithmetic is exact by construction, 1e-12 (relative) otherwise."""
    tol = Fraction(1, 10 ** 12)
    fwd = [e for e in case.events if e[0] == "Forward"]
    exact_stats = all(is_pow2(case.nsamp(e)) for e in fwd)
    if case.momentum is None:
        exact_f = len(fwd) <= 2          # factors 1/1, 1/2 only (1/4 and 1/8 would also do; histories rarely get there)
    else:
        mq = Fraction(float(case.momentum))
        exact_f = is_pow2(mq.denominator) and mq.denominator <= 16
    tm = Fraction(0) if (exact_stats and exact_f) else tol
    tv = Fraction(0) if (tm == 0 and all(case.nsamp(e) == 2 for e in fwd)) else tol
    return tm, tv


# ---- Coq text
BN_HEADER = """From Coq Require Import List Bool Arith ZArith QArith Qabs.
Import ListNotations.
From SG Require Import Base.Cmp State.BNDropout State.ModeTree.
Open Scope Q_scope.
Fixpoint list_rel {A B} (r : A -> B -> bool) (l1 : list A) (l2 : list B) : bool :=
  match l1, l2 with
  | [], [] => true
  | x :: t1, y :: t2 => r x y && list_rel r t1 t2
  | _, _ => false
  end.
Definition close (tol a b : Q) : bool := Qle_bool (Qabs (a - b)) (tol * (1 + Qabs b)).
Definition vclose (tol : Q) := list_eqb (close tol).
Definition oclose (tol : Q) := option_eqb (vclose tol).
Definition root_ok (s d : Q) : bool := negb (Qle_bool s 0) && Qle_bool (Qabs (s * s - d)) ((1 # 10000000000) * d).
Record iout := { o_mean : list Q; o_var : list Q; o_y : list (list Q); o_roots : list Q }.
Record iobs := { i_rm : option (list Q); i_rv : option (list Q); i_nbt : nat; i_tr : bool;
                 i_out : option (option iout) }.
Record bcase := { b_o : opts; b_C : nat; b_tree : tree; b_lp : path; b_h : list tev; b_gamma : option (list Q); b_beta : option (list Q);
                  b_tm : Q; b_tv : Q; b_obs : list iobs }.
Definition event_ok (c : bcase) (m : bn * obs) (i : iobs) : bool :=
  oclose (b_tm c) (rmean (fst m)) (i_rm i) && oclose (b_tv c) (rvar (fst m)) (i_rv i) &&
  Nat.eqb (nbt (fst m)) (i_nbt i) && Bool.eqb (training (fst m)) (i_tr i) &&
  match snd m, i_out i with
  | ONone, None => true
  | ORaise, Some None => true
  | OOut o, Some (Some io) =>
      vclose (b_tm c) (used_mean o) (o_mean io) && vclose (b_tv c) (used_var o) (o_var io) &&
      list_eqb root_ok (o_roots io) (denom2 o) &&
      list_eqb (vclose (1 # 1000000000)) (finish (o_roots io) (b_gamma c) (b_beta c) o) (o_y io)
  | _, _ => false
  end.
Definition case_ok (c : bcase) (_ : unit) : bool :=
  list_rel (event_ok c) (ttrace (b_o c) (b_lp c) (b_tree c, sync (b_lp c) (b_tree c) (fresh (b_o c) (b_C c))) (b_h c)) (b_obs c).
"""


def ql(xs):
    return clist([cq(v) for v in xs])


def oql(xs):
    return "None" if xs is None else "(Some %s)" % ql(xs)


def bn_case_coq(case, obs):
    tm, tv = bn_tolerances(case)
    evs = []
    for e in case.events:
        if e[0] == "Forward":
            evs.append("TForward %s" % clist([ql(col) for col in case.per_feature(e)]))
        else:
            evs.append("Switch %s %s" % (path_coq(e[1]), cb(e[2])))
    iobs = []
    for o in obs:
        if o["out"] is None:
            io = "None"
        elif isinstance(o["out"], str):
            io = "(Some None)" if o["out"] == "raise" else "None (* %s *)" % o["out"]
        else:
            roots = [isqrt_fraction(v + Fraction(case.eps)) for v in o["out"]["var"]]
            io = "(Some (Some {| o_mean := %s; o_var := %s; o_y := %s; o_roots := %s |}))" % (
                ql(o["out"]["mean"]), ql(o["out"]["var"]), clist([ql(c) for c in o["out"]["y"]]), ql(roots))
        iobs.append("{| i_rm := %s; i_rv := %s; i_nbt := %d; i_tr := %s; i_out := %s |}" % (
            oql(o["rm"]), oql(o["rv"]), o["nbt"], cb(o["training"]), io))
    mq = momentum_q(case.momentum)
    opts = "{| momentum := %s; affine := %s; track := %s; eps := %s |}" % (
        "None" if mq is None else "Some %s" % cq(mq), cb(case.affine), cb(case.track), cq(Fraction(case.eps)))
    return "({| b_o := %s; b_C := %d; b_tree := %s; b_lp := %s; b_h := %s;\n   b_gamma := %s; b_beta := %s; b_tm := %s; b_tv := %s;\n   b_obs := %s |}, tt)" % (
        opts, case.C, TREES[case.tree]["coq"], path_coq(TREES[case.tree]["lp"]), clist(evs), oql(case.gamma), oql(case.beta),
        cq(tm), cq(tv), clist(iobs))


def parse_natlist(out):
    flat = " ".join(out.split())
    res = []
    for m in re.finditer(r"= \[(.*?)\]\s*:\s*list nat", flat):
        body = m.group(1).replace("%nat", "").strip()
        res.append([int(x) for x in body.split(";") if x.strip()])
    return res


def coq_mismatches(ctx, prefix, header, ctype, rows, fn, chunk=60):
    files = []
    for k in range(0, len(rows), chunk):
        txt = header + "Definition cases : list (%s * unit) := [\n %s].\nEval vm_compute in (mismatches (fun c => c) %s cases).\n" % (
            ctype, ";\n ".join(rows[k:k + chunk]), fn)
        files.append(("%s_%d" % (prefix, k // chunk), txt))
    res = ctx.coq_eval_many(files)
    bad, errs = [], []
    for (name, _), k in zip(files, range(0, len(rows), chunk)):
        ok, out = res[name]
        lists = parse_natlist(out)
        if not ok or len(lists) != 1:
            errs.append({"file": name, "error": out[-600:]})
            continue
        bad += [k + i for i in lists[0]]
    return bad, errs


# ---- oracle for BatchNorm: torch + a Fraction spec of the documented rules
def judge_bn(case, obs):
    """None or a description of the first violated clause (independent of the Coq model)."""
    import torch
    impl = _impl()
    np = impl.np
    cls = torch.nn.BatchNorm2d if case.rank == 4 else torch.nn.BatchNorm1d
    tl = cls(case.C, eps=float(case.eps), momentum=case.momentum, affine=case.affine,
             track_running_stats=case.track, dtype=torch.float64)
    if case.affine:
        with torch.no_grad():
            tl.weight.copy_(torch.tensor([float(g) for g in case.gamma], dtype=torch.float64))
            tl.bias.copy_(torch.tensor([float(b) for b in case.beta], dtype=torch.float64))
    troot, tnodes = build_tree(torch.nn, case.tree, tl)      # the same tree in torch, driven by the same events
    lp = TREES[case.tree]["lp"]
    use_torch = case.eps != 0          # torch refuses eps = 0 in training; those histories are judged by the Fraction spec only
    # Fraction spec state (documented semantics)
    rm = [Fraction(0)] * case.C if case.track else None
    rv = [Fraction(1)] * case.C if case.track else None
    k = 0
    training = True
    prev = None
    rel = Fraction(1, 10 ** 9)

    def close(a, b, tol=rel):
        return abs(a - b) <= tol * (1 + abs(b))
    for idx, (ev, o) in enumerate(zip(case.events, obs)):
        where = "event %d (%s)" % (idx, ev[0] if ev[0] != "Set" else "%s() on node %s" % ("train" if ev[2] else "eval", ev[1]))
        if ev[0] == "Set":
            tn = tnodes[tuple(ev[1])]
            tn.train() if ev[2] else tn.eval()
            if is_prefix(ev[1], lp):          # a call on the layer or on one of its ancestors decides the layer's mode
                training = ev[2]
        else:
            cols = case.per_feature(ev)
            n = case.nsamp(ev)
            bm = [sum(c) / n for c in cols]
            bv = [sum((v - m) ** 2 for v in c) / n for c, m in zip(cols, bm)]
            if training and case.track and n == 1:
                # documented behaviour: undefined (unbiased variance of one sample); torch raises. The model says
                # ZeroDivisionError with the counter already incremented. Not judged beyond "it raised".
                if o["out"] != "raise":
                    return where + ": training forward with one sample per feature did not raise"
                k += 1
                try:
                    troot(torch.tensor([float(v) for v in ev[2]], dtype=torch.float64).reshape(ev[1]))
                except ValueError:
                    pass
                continue
            if isinstance(o["out"], str) or o["out"] is None:
                return where + ": forward raised %s" % o["out"]
            use_batch = training or not case.track
            if training and case.track:
                k += 1
                f = Fraction(1, k) if case.momentum is None else Fraction(float(case.momentum))
                rm = [(1 - f) * old + f * m for old, m in zip(rm, bm)]
                rv = [(1 - f) * old + f * v * Fraction(n, n - 1) for old, v in zip(rv, bv)]
                mu, va = bm, bv
            elif use_batch:
                mu, va = bm, bv
            else:
                mu, va = rm, rv
            # statistics used for normalisation, output
            for c in range(case.C):
                if not close(o["out"]["mean"][c], mu[c]) or not close(o["out"]["var"][c], va[c]):
                    return where + ": feature %d normalised with mean/var (%s, %s), expected (%s, %s) [%s statistics]" % (
                        c, float(o["out"]["mean"][c]), float(o["out"]["var"][c]), float(mu[c]), float(va[c]), "batch" if use_batch else "running")
                s = isqrt_fraction(va[c] + Fraction(case.eps))
                g = case.gamma[c] if case.affine else 1
                b = case.beta[c] if case.affine else 0
                for xi, yi in zip(cols[c], o["out"]["y"][c]):
                    if not close(yi, (xi - mu[c]) / s * g + b):
                        return where + ": output %s for input %s, expected %s" % (float(yi), float(xi), float((xi - mu[c]) / s * g + b))
            # torch
            if use_torch and not (use_batch and n == 1):      # torch refuses batch statistics over one sample
                with grad_context(torch, ev[3]):
                    ty = troot(torch.tensor([float(v) for v in ev[2]], dtype=torch.float64).reshape(ev[1])).detach().numpy()
                if not np.allclose(ty, o["out"]["raw"], rtol=1e-6, atol=1e-6):
                    return where + ": output differs from torch by %g" % float(np.abs(ty - o["out"]["raw"]).max())
            # eval purity / determinism
            if not training and prev is not None and prev[0] == ev[2] and prev[1] == ev[1] and prev[2] == (rm, rv):
                if not np.array_equal(prev[3], o["out"]["raw"]):
                    return where + ": the same input in eval mode with unchanged statistics gave a different output"
            prev = (ev[2], ev[1], (rm, rv), o["out"]["raw"]) if not training else None
        # state after the event
        if o["training"] != training:
            return where + ": layer.training is %s, but the last train()/eval() call on the layer or an ancestor asked for %s" % (o["training"], training)
        if o["training"] != bool(tl.training):
            return where + ": layer.training is %s, torch's layer in the same tree has %s" % (o["training"], tl.training)
        if o["nbt"] != k:
            return where + ": num_batches_tracked = %d, expected %d" % (o["nbt"], k)
        if (o["rm"] is None) != (rm is None) or (o["rv"] is None) != (rv is None):
            return where + ": running statistics present/absent mismatch"
        if rm is not None:
            for c in range(case.C):
                if not close(o["rm"][c], rm[c]) or not close(o["rv"][c], rv[c]):
                    return where + ": running_mean/var[%d] = (%s, %s), expected (%s, %s)" % (c, float(o["rm"][c]), float(o["rv"][c]), float(rm[c]), float(rv[c]))
            if use_torch and tl.running_mean is not None:
                if not np.allclose(tl.running_mean.numpy(), [float(v) for v in o["rm"]], rtol=1e-6, atol=1e-6) or \
                   not np.allclose(tl.running_var.numpy(), [float(v) for v in o["rv"]], rtol=1e-6, atol=1e-6):
                    return where + ": running statistics differ from torch (%s, %s)" % (tl.running_mean.numpy(), tl.running_var.numpy())
                if int(tl.num_batches_tracked) != o["nbt"]:
                    return where + ": num_batches_tracked %d, torch %d" % (o["nbt"], int(tl.num_batches_tracked))
    return None


# ------------------------------------------------------------------ Dropout
class DOCase:
    def __init__(self, rng, p, dtype="float64"):
        self.p = p
        self.dtype = dtype
        self.shape = tuple(rng.choice([1, 2, 3, 4]) for _ in range(rng.randint(1, 3)))
        size = 1
        for d in self.shape:
            size *= d
        nz = [v for v in range(-12, 13) if v != 0]
        self.x = [Fraction(rng.choice(nz), 4) for _ in range(size)]          # non-zero so that the mask is visible
        self.g = [Fraction(rng.choice(nz), 8) for _ in range(size)]          # non-uniform upstream gradient
        self.seed = rng.randrange(1 << 30)
        self.tree = rng.choice(TREE_NAMES)
        self.switches = [(list(pth), b) for pth, b in random_switches(rng, self.tree, rng.choice([0, 1, 2, 3, 4]))]
        if rng.random() < 0.5:                       # bias towards training mode at the forward (the interesting branch)
            self.switches.append(([], True) if rng.random() < 0.5 else (list(TREES[self.tree]["lp"]), True))
        self.ctx = random_ctx(rng)
        self.training = self.expected_mode()

    def expected_mode(self):
        """mode of the layer at the forward: the last train()/eval() call on the layer or an ancestor (initially training)"""
        m = True
        for pth, b in self.switches:
            if is_prefix(pth, TREES[self.tree]["lp"]):
                m = b
        return m

    @classmethod
    def from_descr(cls, d):
        c = cls.__new__(cls)
        c.p, c.dtype, c.shape, c.seed = d["p"], d["dtype"], tuple(d["shape"]), d["numpy_seed"]
        c.tree, c.switches = d["tree"], [(list(pth), b) for pth, b in d["switches"]]
        c.ctx = d.get("grad_context", "none")
        c.training = c.expected_mode()
        c.x = [Fraction(v) for v in d["x"]]
        c.g = [Fraction(v) for v in d["g"]]
        return c

    def descr(self):
        return {"p": self.p, "dtype": self.dtype, "shape": list(self.shape), "x": [str(v) for v in self.x],
                "g": [str(v) for v in self.g], "numpy_seed": self.seed, "tree": self.tree,
                "layer_path": TREES[self.tree]["lp"], "switches": [[pth, b] for pth, b in self.switches], "grad_context": self.ctx,
                "expected_mode_at_forward": "train" if self.training else "eval"}


def run_do_impl(case):
    impl = _impl()
    np, sg, nn = impl.np, impl.synapgrad, impl.nn
    impl.reset_modes()
    dt = getattr(np, case.dtype)
    layer = nn.Dropout(p=case.p)
    root, nodes = build_tree(nn, case.tree, layer)
    for pth, b in case.switches:
        nodes[tuple(pth)].train() if b else nodes[tuple(pth)].eval()
    np.random.seed(case.seed)
    r = np.random.rand(*case.shape)
    np.random.seed(case.seed)
    x = sg.Tensor(np.array([float(v) for v in case.x], dtype=dt).reshape(case.shape), requires_grad=True)
    with grad_context(sg, case.ctx):              # the global grad mode must not change what Dropout does
        y = root(x)                               # forward through the root of the tree
    res = {"layer_training": bool(layer.training), "r": frl(r), "same_object": y is x, "out": frl(np.asarray(y.data)), "dtype": str(y.data.dtype), "raw": np.asarray(y.data).copy()}
    res["graw"] = None
    if y is not x and "no_grad" not in case.ctx:
        y.backward(sg.Tensor(np.array([float(v) for v in case.g], dtype=dt).reshape(case.shape)))
        res["grad"] = frl(np.asarray(x.grad.data))
        res["graw"] = np.asarray(x.grad.data).copy()
    else:
        res["grad"] = None
    return res


def do_tol(case):
    """0 where the float computation is exact (1/(1-p) a power of two, or no scaling at all), else a rounding bound"""
    p = Fraction(float(case.p))
    if not case.training or p >= 1:
        return Fraction(0)
    q = 1 - p
    if q.numerator == 1 and is_pow2(q.denominator):
        return Fraction(0)
    return Fraction(1, 2 ** 22) if case.dtype == "float32" else Fraction(1, 2 ** 50)


DO_HEADER = """From Coq Require Import List Bool Arith ZArith QArith Qabs.
Import ListNotations.
From SG Require Import Base.Cmp State.BNDropout State.ModeTree.
Open Scope Q_scope.
Definition rclose (tol a b : Q) : bool := Qle_bool (Qabs (a - b)) (tol * Qabs b).
Record dcase := { d_p : Q; d_tree : tree; d_lp : path; d_sw : switches; d_same : bool; d_nograd : bool; d_r : list Q; d_x : list Q; d_g : list Q; d_tol : Q;
                  d_out : list Q; d_grad : option (list Q) }.
(* d_same: the forward returned its input object (no graph node: eval mode); d_grad: x.grad after backward otherwise *)
Definition case_ok (c : dcase) (_ : unit) : bool :=
  match flag_at (apply_switches (d_tree c) (d_sw c)) (d_lp c) with
  | None => false
  | Some mode =>
      option_eqb (list_eqb (rclose (d_tol c))) (tree_dropout (d_p c) (d_tree c) (d_lp c) (d_sw c) (d_r c) (d_x c)) (Some (d_out c)) &&
      Bool.eqb (negb mode) (d_same c) &&
      match d_grad c with
      | Some gr => mode && list_eqb (rclose (d_tol c)) (dropout_bwd (d_p c) (d_r c) (d_g c)) gr
      | None => negb mode || d_nograd c       (* under no_grad the output cannot be back-propagated *)
      end
  end.
"""


def do_case_coq(case, res):
    sw = clist(["(%s, %s)" % (path_coq(pth), cb(b)) for pth, b in case.switches])
    return "({| d_p := %s; d_tree := %s; d_lp := %s; d_sw := %s; d_same := %s; d_nograd := %s; d_r := %s; d_x := %s; d_g := %s; d_tol := %s; d_out := %s; d_grad := %s |}, tt)" % (
        cq(Fraction(float(case.p))), TREES[case.tree]["coq"], path_coq(TREES[case.tree]["lp"]), sw, cb(res["same_object"]), cb("no_grad" in case.ctx), ql(res["r"]), ql(case.x), ql(case.g), cq(do_tol(case)),
        ql(res["out"]), oql(res["grad"]))


def judge_do(case, res):
    """direct statements on the implementation (no Coq)"""
    impl = _impl()
    np = impl.np
    dt = getattr(np, case.dtype)
    x = np.array([float(v) for v in case.x], dtype=dt)
    g = np.array([float(v) for v in case.g], dtype=dt)
    out = res["raw"].reshape(-1)
    if res["dtype"] != case.dtype:
        return "output dtype %s for %s input" % (res["dtype"], case.dtype)
    if not np.all(np.isfinite(out)):
        return "non-finite output %s" % out.tolist()
    if res["layer_training"] != case.training:
        return "layer.training is %s at the forward, but the last train()/eval() call on the layer or an ancestor asked for %s" % (
            res["layer_training"], "train" if case.training else "eval")
    if not case.training:
        if not res["same_object"] and not np.array_equal(out, x):
            return "eval mode is not the identity"
        return None
    if res["same_object"]:
        return "training mode returned the input unchanged"
    m = out != 0                                     # x has no zero entry
    p = float(case.p)
    if p >= 1:
        if m.any():
            return "p >= 1 keeps %d elements" % int(m.sum())
        if not np.all(np.isfinite(out)):
            return "p >= 1 produced non-finite values"
        scale = dt(1.0)
    else:
        scale = (np.float64(1.0) / (1 - p)).astype(dt)     # 1/(1-p) computed in float64, then cast to the input dtype
    if p == 0 and not m.all():
        return "p = 0 dropped an element"
    want = np.where(m, x * scale, dt(0))
    if not np.array_equal(out, want):
        i = int(np.argmax(out != want))
        return "out[%d] = %r, x*m/(1-p) = %r (x=%r, kept=%s)" % (i, float(out[i]), float(want[i]), float(x[i]), bool(m[i]))
    if res["graw"] is None:
        if "no_grad" not in case.ctx:
            return "no gradient was produced"
    else:
        graw = res["graw"].reshape(-1)
        gwant = np.where(m, g * scale, dt(0))
        if not np.array_equal(graw, gwant):
            i = int(np.argmax(graw != gwant))
            return "x.grad[%d] = %r, g*m/(1-p) = %r: the backward does not go through the forward mask" % (i, float(graw[i]), float(gwant[i]))
    # Fraction statement with the rounding bound of two float operations
    q = 1 - Fraction(p)
    if p < 1:
        for xi, oi, keep in zip(case.x, res["out"], m):
            ref = xi / q if keep else 0
            ulp = Fraction(1, 2 ** (50 if case.dtype == "float64" else 21))
            if abs(oi - ref) > ulp * abs(ref):
                return "out = %s differs from x/(1-p) = %s beyond rounding" % (float(oi), float(ref))
    return None


def binomial_sanity(ctx):
    """thorough tier: the fraction of zeroed elements is within 6 sigma of p. Sampled; never a proof."""
    impl = _impl()
    np, sg, nn = impl.np, impl.synapgrad, impl.nn
    out = []
    np.random.seed(ctx.seed % (1 << 31))
    for p in (0.1, 0.3, 0.5, 0.9):
        n = 200000
        y = nn.Dropout(p=p)(sg.Tensor(np.ones(n)))
        z = int((np.asarray(y.data) == 0).sum())
        sigma = math.sqrt(n * p * (1 - p))
        out.append({"p": p, "n": n, "zeroed": z, "expected": n * p, "sigmas": abs(z - n * p) / sigma, "within_6_sigma": abs(z - n * p) <= 6 * sigma})
    return out


# ------------------------------------------------------------------ multi-call sessions (one layer object, several forwards, backward in any order)
class DSession:
    """Dropout: switches on tree nodes, 2-3 forwards through the root, backward of each call's output in any order
    (possibly interleaved with later forwards), or one joint backward through y_1 + ... + y_n (a layer shared by branches)."""

    def __init__(self, rng):
        self.p = rng.choice([0.25, 0.5, 0.5, 0.75, 0.1])
        self.tree = rng.choice(TREE_NAMES)
        nf = rng.choice([2, 2, 3])
        base = tuple(rng.choice([1, 2, 3]) for _ in range(rng.randint(1, 2)))
        same = rng.random() < 0.75
        nz = [v for v in range(-12, 13) if v != 0]
        self.calls = []
        for k in range(nf):
            shape = base if (same or k == 0) else tuple(rng.choice([1, 2, 3, 4]) for _ in range(len(base)))
            size = 1
            for d in shape:
                size *= d
            self.calls.append({"shape": list(shape), "x": [Fraction(rng.choice(nz), 4) for _ in range(size)],
                               "g": [Fraction(rng.choice(nz), 8) for _ in range(size)], "seed": rng.randrange(1 << 30),
                               "ctx": "none" if rng.random() < 0.7 else rng.choice(GRAD_CTX[1:])})
        self.joint = same and rng.random() < 0.25 and all("no_grad" not in c["ctx"] for c in self.calls)
        if self.joint:
            for c in self.calls[1:]:
                c["g"] = list(self.calls[0]["g"])
        self.events = []
        pending = []
        for k in range(nf):
            if rng.random() < 0.35:
                for pth, b in random_switches(rng, self.tree, 1):
                    self.events.append(("Set", list(pth), b))
                if rng.random() < 0.6:
                    self.events.append(("Set", [], True))
            self.events.append(("F", k))
            if "no_grad" not in self.calls[k]["ctx"]:          # an output computed under no_grad cannot be back-propagated
                pending.append(k)
            if pending and not self.joint and rng.random() < 0.3:
                self.events.append(("B", pending.pop(rng.randrange(len(pending)))))
        rng.shuffle(pending)
        if self.joint:
            pending.sort()
        for k in pending:
            self.events.append(("B", k))

    @classmethod
    def from_descr(cls, d):
        c = cls.__new__(cls)
        c.p, c.tree, c.joint = d["p"], d["tree"], d["joint_backward_through_sum"]
        c.calls = [{"shape": cl["shape"], "x": [Fraction(v) for v in cl["x"]], "g": [Fraction(v) for v in cl["g"]], "seed": cl["numpy_seed"], "ctx": cl.get("grad_context", "none")} for cl in d["calls"]]
        c.events = [tuple(e) for e in d["events"]]
        return c

    def descr(self):
        return {"p": self.p, "tree": self.tree, "layer_path": TREES[self.tree]["lp"], "joint_backward_through_sum": self.joint,
                "calls": [{"shape": c["shape"], "x": [str(v) for v in c["x"]], "g": [str(v) for v in c["g"]], "numpy_seed": c["seed"], "grad_context": c["ctx"]} for c in self.calls],
                "events": [list(e) for e in self.events]}

    def modes(self):
        """expected mode of the layer at each forward: last train()/eval() call on the layer or an ancestor"""
        m, out = True, {}
        for e in self.events:
            if e[0] == "Set" and is_prefix(e[1], TREES[self.tree]["lp"]):
                m = e[2]
            elif e[0] == "F":
                out[e[1]] = m
        return out


def run_dsession_impl(ses):
    impl = _impl()
    np, sg, nn = impl.np, impl.synapgrad, impl.nn
    impl.reset_modes()
    layer = nn.Dropout(p=ses.p)
    root, nodes = build_tree(nn, ses.tree, layer)
    xs, ys, rs = {}, {}, {}
    obs = []
    done_joint = False
    for e in ses.events:
        if e[0] == "Set":
            nodes[tuple(e[1])].train() if e[2] else nodes[tuple(e[1])].eval()
            obs.append(None)
        elif e[0] == "F":
            c = ses.calls[e[1]]
            np.random.seed(c["seed"])
            rs[e[1]] = frl(np.random.rand(*c["shape"]))
            np.random.seed(c["seed"])
            xs[e[1]] = sg.Tensor(np.array([float(v) for v in c["x"]], dtype=np.float64).reshape(c["shape"]), requires_grad=True)
            with grad_context(sg, c["ctx"]):
                ys[e[1]] = root(xs[e[1]])
            obs.append({"out": frl(np.asarray(ys[e[1]].data)), "raw": np.asarray(ys[e[1]].data).copy(), "same": ys[e[1]] is xs[e[1]]})
        else:
            c = ses.calls[e[1]]
            g = sg.Tensor(np.array([float(v) for v in c["g"]], dtype=np.float64).reshape(c["shape"]))
            if ses.joint:
                if not done_joint:
                    z = ys[0]
                    for k in range(1, len(ses.calls)):
                        z = z + ys[k]
                    z.backward(g)
                    done_joint = True
            else:
                ys[e[1]].backward(g)
            obs.append({"grad": frl(np.asarray(xs[e[1]].grad.data)), "graw": np.asarray(xs[e[1]].grad.data).copy()})
    return {"obs": obs, "r": rs}


def dsession_tol(ses):
    q = 1 - Fraction(float(ses.p))
    return Fraction(0) if (q.numerator == 1 and is_pow2(q.denominator)) else Fraction(1, 2 ** 50)


DS_HEADER = """From Coq Require Import List Bool Arith ZArith QArith Qabs.
Import ListNotations.
From SG Require Import Base.Cmp State.BNDropout State.ModeTree.
Open Scope Q_scope.
Definition rclose (tol a b : Q) : bool := Qle_bool (Qabs (a - b)) (tol * Qabs b).
Record scase := { s_p : Q; s_tree : tree; s_lp : path; s_h : list dev; s_tol : Q; s_obs : list dobs }.
Definition obs_ok (tol : Q) (m i : dobs) : bool :=
  match m, i with
  | DNone, DNone => true
  | DOut a, DOut b => list_eqb (rclose tol) a b
  | DGrad a, DGrad b => list_eqb (rclose tol) a b
  | _, _ => false
  end.
Definition case_ok (c : scase) (_ : unit) : bool :=
  list_eqb (obs_ok (s_tol c)) (dtrace (s_p c) (s_lp c) {| dtree := s_tree c; dnodes := [] |} (s_h c)) (s_obs c).
"""


def dsession_coq(ses, res):
    evs, obs = [], []
    for e, o in zip(ses.events, res["obs"]):
        if e[0] == "Set":
            evs.append("DSwitch %s %s" % (path_coq(e[1]), cb(e[2]))); obs.append("DNone")
        elif e[0] == "F":
            evs.append("DFwd %s %s" % (ql(res["r"][e[1]]), ql(ses.calls[e[1]]["x"]))); obs.append("DOut %s" % ql(o["out"]))
        else:
            evs.append("DBwd %d%%nat %s" % (e[1], ql(ses.calls[e[1]]["g"]))); obs.append("DGrad %s" % ql(o["grad"]))
    return "({| s_p := %s; s_tree := %s; s_lp := %s; s_h := %s; s_tol := %s; s_obs := %s |}, tt)" % (
        cq(Fraction(float(ses.p))), TREES[ses.tree]["coq"], path_coq(TREES[ses.tree]["lp"]), clist(evs), cq(dsession_tol(ses)), clist(obs))


def judge_dsession(ses, res):
    """x_k.grad = g_k * m_k/(1-p) with the mask m_k recovered from call k's OWN output (no Coq)"""
    impl = _impl()
    np = impl.np
    modes = ses.modes()
    scale = np.float64(1.0) / (1 - float(ses.p))
    outs, masks = {}, {}
    for e, o in zip(ses.events, res["obs"]):
        if e[0] == "F":
            k = e[1]
            x = np.array([float(v) for v in ses.calls[k]["x"]])
            out = o["raw"].reshape(-1)
            if modes[k]:
                if o["same"]:
                    return "call %d: training-mode forward returned its input" % k
                masks[k] = out != 0
                if not np.array_equal(out, np.where(masks[k], x * scale, 0.0)):
                    return "call %d: output is not x*m/(1-p)" % k
            else:
                if not o["same"]:
                    return "call %d: eval-mode forward is not the identity" % k
        elif e[0] == "B":
            k = e[1]
            g = np.array([float(v) for v in ses.calls[k]["g"]])
            graw = o["graw"].reshape(-1)
            want = np.where(masks[k], g * scale, 0.0) if modes[k] else g
            if not np.array_equal(graw, want):
                later = [j for j in masks if j != k and len(masks[j]) == len(masks[k]) and np.array_equal(graw, np.where(masks[j], g * scale, 0.0))]
                return "backward of call %d: x_%d.grad = %s, but g*m_%d/(1-p) with the mask of its own output is %s%s" % (
                    k, k, graw.tolist(), k, want.tolist(), (" (it is the mask of call %d)" % later[0]) if later else "")
    return None


class BSession:
    """BatchNorm in training mode: 2-3 forwards of the same layer object (same or different batch sizes), backward in any
    order; judged against torch on the same sequence (outputs, x_k.grad, weight/bias grads)."""

    def __init__(self, rng):
        self.momentum = rng.choice([0.1, 0.5, None])
        self.affine = rng.random() < 0.6
        self.track = rng.random() < 0.7
        self.C = rng.randint(1, 3)
        self.rank = rng.choice([2, 3])
        self.L = rng.choice([1, 2])
        nf = rng.choice([2, 2, 3])
        same = rng.random() < 0.6
        N0 = rng.choice([2, 3, 4])
        self.calls = []
        for k in range(nf):
            N = N0 if same else rng.choice([2, 3, 4, 5])
            shape = (N, self.C) + ((self.L,) if self.rank == 3 else ())
            size = 1
            for d in shape:
                size *= d
            self.calls.append({"shape": list(shape), "x": [Fraction(rng.randint(-16, 16), 4) for _ in range(size)],
                               "g": [Fraction(rng.randint(-8, 8), 4) for _ in range(size)]})
        order = list(range(nf))
        rng.shuffle(order)
        self.order = order
        self.interleave = rng.random() < 0.3         # backward of call 0 right after forward 1 (before forward 2)

    @classmethod
    def from_descr(cls, d):
        c = cls.__new__(cls)
        c.momentum, c.affine, c.track, c.C, c.rank, c.order, c.interleave = d["momentum"], d["affine"], d["track_running_stats"], d["num_features"], d["rank"], d["backward_order"], d["interleave"]
        c.calls = [{"shape": cl["shape"], "x": [Fraction(v) for v in cl["x"]], "g": [Fraction(v) for v in cl["g"]]} for cl in d["calls"]]
        return c

    def descr(self):
        return {"momentum": self.momentum, "affine": self.affine, "track_running_stats": self.track, "num_features": self.C, "rank": self.rank,
                "calls": [{"shape": c["shape"], "x": [str(v) for v in c["x"]], "g": [str(v) for v in c["g"]]} for c in self.calls],
                "backward_order": self.order, "interleave": self.interleave}

    def schedule(self):
        ev = []
        done = set()
        for k in range(len(self.calls)):
            ev.append(("F", k))
            if self.interleave and k == 1 and 0 not in done:
                ev.append(("B", 0)); done.add(0)
        ev += [("B", k) for k in self.order if k not in done]
        return ev


def run_bsession(ses, lib):
    """lib = 'synapgrad' | 'torch' -> {outs, grads, wgrad, bgrad} as float arrays"""
    impl = _impl()
    np = impl.np
    if lib == "torch":
        import torch
        layer = torch.nn.BatchNorm1d(ses.C, momentum=ses.momentum, affine=ses.affine, track_running_stats=ses.track, dtype=torch.float64)
        mk = lambda a, rg: torch.tensor(a, dtype=torch.float64, requires_grad=rg)
        val = lambda t: t.detach().numpy().copy()
    else:
        sg, nn = impl.synapgrad, impl.nn
        impl.reset_modes()
        layer = nn.BatchNorm1d(ses.C, momentum=ses.momentum, affine=ses.affine, track_running_stats=ses.track, dtype=np.float64)
        mk = lambda a, rg: sg.Tensor(a, requires_grad=rg)
        val = lambda t: np.asarray(t.data, dtype=np.float64).copy()
    xs, ys, outs, grads = {}, {}, {}, {}
    for e in ses.schedule():
        c = ses.calls[e[1]]
        if e[0] == "F":
            xs[e[1]] = mk(np.array([float(v) for v in c["x"]]).reshape(c["shape"]), True)
            ys[e[1]] = layer(xs[e[1]])
            outs[e[1]] = val(ys[e[1]])
        else:
            ys[e[1]].backward(mk(np.array([float(v) for v in c["g"]]).reshape(c["shape"]), False))
            grads[e[1]] = val(xs[e[1]].grad)
    wg = val(layer.weight.grad) if ses.affine else None
    bg = val(layer.bias.grad) if ses.affine else None
    return {"outs": outs, "grads": grads, "wgrad": wg, "bgrad": bg}


def judge_bsession(ses):
    impl = _impl()
    np = impl.np
    try:
        a = run_bsession(ses, "synapgrad")
    except Exception as ex:
        return "session raised %s: %s" % (type(ex).__name__, str(ex)[:100])
    b = run_bsession(ses, "torch")

    def close(u, v):
        return np.allclose(u, v, rtol=1e-6, atol=1e-6 * (1 + float(np.abs(v).max())))
    for k in range(len(ses.calls)):
        if not close(a["outs"][k], b["outs"][k]):
            return "call %d: output differs from torch by %g" % (k, float(np.abs(a["outs"][k] - b["outs"][k]).max()))
        if not close(a["grads"][k], b["grads"][k]):
            return "backward of call %d: x_%d.grad differs from torch by %g (statistics saved by call %d disturbed?)" % (
                k, k, float(np.abs(a["grads"][k] - b["grads"][k]).max()), k)
    if ses.affine and (not close(a["wgrad"], b["wgrad"]) or not close(a["bgrad"], b["bgrad"])):
        return "weight/bias gradients accumulated over the calls differ from torch"
    return None


# ------------------------------------------------------------------ uncentred batches (|mean| >> std): accuracy of the batch statistics
def uncentred_specs(ctx):
    rng = ctx.rng
    out = []
    for dtype in ("float32", "float64"):
        for ratio in (100, 1000, 10000):
            for j in range(3 if ctx.quick else 12):
                out.append({"dtype": dtype, "mean_over_std": ratio, "N": rng.choice([8, 16, 64]), "C": rng.randint(1, 3),
                            "L": rng.choice([None, 2]), "std": rng.choice([0.5, 1.0, 2.0]), "sign": rng.choice([-1, 1]),
                            "momentum": rng.choice([0.5, 0.1, 1.0]), "numpy_seed": rng.randrange(1 << 30)})
    return out


def judge_uncentred(spec):
    """One training forward of a fresh BatchNorm1d on x = mean + std*randn with |mean|/std = 1e2..1e4, judged against the
    float64 two-pass statistics of the very same data.  Tolerances (stated relative to that reference; the unchanged code is
    >= 10x inside them): output |err| <= 2e-6*ratio (float32) / 1e-9*ratio (float64); running_var relative 1e-4 / 1e-10;
    running_mean relative 1e-5 / 1e-12."""
    impl = _impl()
    np, sg, nn = impl.np, impl.synapgrad, impl.nn
    impl.reset_modes()
    dt = getattr(np, spec["dtype"])
    rs = np.random.RandomState(spec["numpy_seed"])
    shape = (spec["N"], spec["C"]) + ((spec["L"],) if spec["L"] else ())
    x = (spec["sign"] * spec["mean_over_std"] * spec["std"] + spec["std"] * rs.randn(*shape)).astype(dt)
    bn = nn.BatchNorm1d(spec["C"], momentum=spec["momentum"], dtype=dt)
    y = np.asarray(bn(sg.Tensor(x)).data, dtype=np.float64)
    x64 = x.astype(np.float64)
    axes = tuple(i for i in range(x.ndim) if i != 1)
    keep = tuple(1 if i != 1 else spec["C"] for i in range(x.ndim))
    m, v = x64.mean(axis=axes), x64.var(axis=axes)
    n = x.size / spec["C"]
    ref = (x64 - m.reshape(keep)) / np.sqrt(v.reshape(keep) + 1e-5)
    f = spec["momentum"]
    rm, rv = (1 - f) * 0 + f * m, (1 - f) * 1 + f * v * n / (n - 1)
    f32 = spec["dtype"] == "float32"
    tol_o = (2e-6 if f32 else 1e-9) * spec["mean_over_std"]
    if not np.all(np.isfinite(y)) or np.abs(y - ref).max() > tol_o:
        return "training output differs from the float64 two-pass normalisation by %.3g (tolerance %.3g)" % (float(np.nanmax(np.abs(y - ref))), tol_o)
    got_v = np.asarray(bn.running_var.data, dtype=np.float64)
    if (np.abs(got_v - rv) / np.abs(rv)).max() > (1e-4 if f32 else 1e-10):
        return "running_var = %s, float64 two-pass reference %s (relative error %.3g)" % (got_v.tolist(), rv.tolist(), float((np.abs(got_v - rv) / np.abs(rv)).max()))
    got_m = np.asarray(bn.running_mean.data, dtype=np.float64)
    if (np.abs(got_m - rm) / np.abs(rm)).max() > (1e-5 if f32 else 1e-12):
        return "running_mean = %s, reference %s" % (got_m.tolist(), rm.tolist())
    return None


# ------------------------------------------------------------------ the check
def gen_bn_cases(ctx):
    rng = ctx.rng
    cases = []
    per = 4 if ctx.quick else 30
    for momentum in (0.1, 0.125, 0.5, None, 0.0, 1.0):
        for affine in (False, True):
            for track in (False, True):
                for rank in (2, 3, 4):
                    for j in range(per):
                        eps = EPS_DYADIC if rng.random() < 0.5 else Fraction(1e-5)
                        c = BNCase(rng, momentum, affine, track, rank, eps)
                        if rng.random() < 0.3 and c.eps_zero_legal():
                            c.eps = Fraction(0)
                        cases.append(c)
    # momentum=None with many training forwards (cumulative average over k up to 8)
    for j in range(12 if ctx.quick else 60):
        c = BNCase(rng, None, rng.random() < 0.5, True, rng.choice([2, 3, 4]), EPS_DYADIC, exact=True)
        c.events = [e for e in c.events if e[0] == "Forward"] * 2 or c.events
        c.events = c.events[:8]
        cases.append(c)
    return cases


def gen_do_cases(ctx):
    rng = ctx.rng
    cases = []
    ps = [0, 0.25, 0.5, 0.75, 1, 0.1, 0.3, 0.9, 1.5]
    per = 8 if ctx.quick else 50
    for p in ps:
        for j in range(per):
            cases.append(DOCase(rng, p, "float64"))
    for p in (0, 0.5, 0.75, 1, 0.25):
        for j in range(3 if ctx.quick else 12):
            cases.append(DOCase(rng, p, "float32"))
    return cases


def run(ctx):
    ok_build, fails = ctx.build_props(extra_targets=["State/BNDropout.vo"])
    # the running-statistic update as written in cpu_ops.batch_norm_forward, regenerated from the source (translator tie)
    try:
        from checks import kernels_vector
        kernels_vector.run_part(ctx, "Props/C13_vector.v")
    except ModuleNotFoundError as ex:
        ctx.notes.append("vector-kernel part not available: %s" % ex)

    # ---- tie 1: BatchNorm histories ---------------------------------------------------------
    cases = gen_bn_cases(ctx)
    obs = [run_bn_impl(c) for c in cases]
    mid = len(cases) // 3
    ctx.sample({"batchnorm_case": cases[mid].descr(),
                "after_each_event": [{"running_mean": None if o["rm"] is None else [float(v) for v in o["rm"]],
                                      "running_var": None if o["rv"] is None else [float(v) for v in o["rv"]],
                                      "num_batches_tracked": o["nbt"], "training": o["training"],
                                      "outcome": None if o["out"] is None else (o["out"] if isinstance(o["out"], str) else "value")} for o in obs[mid]]})
    rows = [bn_case_coq(c, o) for c, o in zip(cases, obs)]
    bad, errs = coq_mismatches(ctx, "bn", BN_HEADER, "bcase", rows, "case_ok")
    mism = list(errs)
    for i in bad:
        mism.append({"case": cases[i].descr(), "tolerances": [str(t) for t in bn_tolerances(cases[i])],
                     "implementation": [{"rm": None if o["rm"] is None else [float(v) for v in o["rm"]],
                                         "rv": None if o["rv"] is None else [float(v) for v in o["rv"]], "nbt": o["nbt"],
                                         "training": o["training"], "out": o["out"] if (o["out"] is None or isinstance(o["out"], str)) else
                                         {"mean": [float(v) for v in o["out"]["mean"]], "var": [float(v) for v in o["out"]["var"]]}} for o in obs[i]]})
    n_exact = sum(1 for c in cases if bn_tolerances(c)[0] == 0)
    n_exact_v = sum(1 for c in cases if bn_tolerances(c)[1] == 0)
    n_raise = sum(1 for o in obs if any(e["out"] == "raise" for e in o))
    distinct = len({json.dumps(c.descr(), sort_keys=True) for c in cases if sum(1 for e in c.events if e[0] == "Forward") >= 2})
    ctx.tie("batchnorm/histories", "correspondence", len(cases), distinct, mism,
            note="momentum {0.1, 0.125, 0.5, None} x affine x track_running_stats x input rank {2,3,4}; %d histories compared exactly "
                 "on running_mean / statistics used (%d also on running_var: all n = 2), the others at relative 1e-12 (non-dyadic momentum or 1/k, "
                 "sample counts that are not powers of two, the n/(n-1) factor); outputs through a 40-digit rational root at 1e-9; "
                 "%d histories contain a ZeroDivisionError (n = 1 in training with tracking)" % (n_exact, n_exact_v, n_raise))
    ctx.extra["bn_exact_histories"] = n_exact
    ctx.extra["bn_histories_with_raise"] = n_raise

    # ---- tie 2: Dropout ------------------------------------------------------------------------
    dcases = gen_do_cases(ctx)
    dres = [run_do_impl(c) for c in dcases]
    ctx.sample({"dropout_case": dcases[1].descr(), "out": [float(v) for v in dres[1]["out"]],
                "x.grad": None if dres[1]["grad"] is None else [float(v) for v in dres[1]["grad"]]})
    drows = [do_case_coq(c, r) for c, r in zip(dcases, dres)]
    bad, errs = coq_mismatches(ctx, "dropout", DO_HEADER, "dcase", drows, "case_ok", chunk=150)
    dm = list(errs)
    for i in bad:
        dm.append({"case": dcases[i].descr(), "tolerance": str(do_tol(dcases[i])), "out": [float(v) for v in dres[i]["out"]],
                   "grad": None if dres[i]["grad"] is None else [float(v) for v in dres[i]["grad"]], "drawn": [float(v) for v in dres[i]["r"]]})
    ctx.tie("dropout/forward+backward", "correspondence", len(dcases), sum(1 for c in dcases if c.training and 0 < c.p < 1), dm,
            note="the numbers np.random.rand draws are reproduced by re-seeding and given to the model; exact when 1/(1-p) is dyadic "
                 "(p in {0, 1/2, 3/4}) or p >= 1, relative 2^-50 (float64) / 2^-22 (float32) otherwise; the layer sits in a random module tree and is "
                 "preceded by random train()/eval() calls on any node, the forward goes through the root; eval returns the input object")

    # ---- tie 3: multi-call sessions ---------------------------------------------------------------
    dsess = [DSession(ctx.rng) for _ in range(60 if ctx.quick else 400)]
    dsres = [run_dsession_impl(x) for x in dsess]
    bad, errs = coq_mismatches(ctx, "dsession", DS_HEADER, "scase", [dsession_coq(x, r) for x, r in zip(dsess, dsres)], "case_ok", chunk=100)
    sm = list(errs) + [{"session": dsess[i].descr()} for i in bad]
    ctx.sample({"dropout_session": dsess[0].descr()})
    ctx.tie("dropout/multi-call sessions", "correspondence", len(dsess),
            sum(1 for x in dsess if sum(1 for m in x.modes().values() if m) >= 2), sm,
            note="one Dropout object called 2-3 times (same and different shapes) inside a module tree, mode switches in between, backward of each "
                 "call's output in every order / interleaved with later forwards / jointly through y_1+...+y_n; out_k and x_k.grad compared with the model")
    sverd = [(x, judge_dsession(x, r)) for x, r in zip(dsess, dsres)]
    sfail = [(x, v) for x, v in sverd if v]
    if sfail:
        x, v = min(sfail, key=lambda t: (len(t[0].events), sum(len(c["x"]) for c in t[0].calls)))
        ctx.witness("nn.Dropout.forward", "multi-call", {"session": x.descr()},
                    "x_k.grad = g_k*m_k/(1-p) with the mask m_k recovered from call k's own output, whatever the same layer object was called with afterwards",
                    {"verdict": v}, note="%d of %d sessions fail" % (len(sfail), len(sverd)))
    bsess = [BSession(ctx.rng) for _ in range(40 if ctx.quick else 300)]
    bverd = [(x, judge_bsession(x)) for x in bsess]
    bfail = [(x, v) for x, v in bverd if v]
    ctx.tie("batchnorm/multi-call backward vs torch", "reference", len(bsess), len(bsess), [{"session": x.descr(), "verdict": v} for x, v in bfail],
            note="one BatchNorm1d object, 2-3 training-mode forwards (same / different batch sizes), backward in every order; outputs, x_k.grad and the "
                 "accumulated weight/bias gradients against torch on the same sequence at 1e-6 (the statistics saved by call k must survive call k+1)")
    if bfail:
        x, v = min(bfail, key=lambda t: sum(len(c["x"]) for c in t[0].calls))
        ctx.witness("nn.BatchNorm.forward", "multi-call", {"session": x.descr()},
                    "backward of call k uses the batch statistics of call k", {"verdict": v}, note="%d of %d sessions fail" % (len(bfail), len(bverd)))

    # ---- uncentred batches: accuracy of the batch statistics against the float64 two-pass result ----
    uspecs = uncentred_specs(ctx)
    uverd = [(sp, judge_uncentred(sp)) for sp in uspecs]
    ufail = [(sp, v) for sp, v in uverd if v]
    ctx.tie("batchnorm/uncentred batches vs float64 two-pass", "reference", len(uspecs), len(uspecs), [{"spec": sp, "verdict": v} for sp, v in ufail],
            note="x = mean + std*randn with |mean|/std in {1e2, 1e3, 1e4}, float32 and float64 layers, one training forward; output within "
                 "2e-6*ratio (float32) / 1e-9*ratio (float64) and running_var within 1e-4 / 1e-10 relative of the float64 two-pass statistics "
                 "of the same data (float rounding itself is outside the Coq model; this reference tie bounds it)")
    if ufail:
        sp, v = min(ufail, key=lambda t: (t[0]["N"] * t[0]["C"], -t[0]["mean_over_std"]))
        ctx.witness("cpu_ops.batch_norm_forward", "uncentred-batch", {"spec": sp},
                    "batch mean / biased variance as accurate as a two-pass computation: training output and running_var agree with the float64 two-pass reference",
                    {"verdict": v}, note="%d of %d uncentred batches fail" % (len(ufail), len(uverd)))

    # ---- oracle (independent of Coq) ---------------------------------------------------------------
    verd = [(c, o, judge_bn(c, o)) for c, o in zip(cases, obs)]
    failing = [(c, o, v) for c, o, v in verd if v]
    ctx.extra["oracle_bn_histories_judged"] = len(verd)
    if failing:
        c, o, v = min(failing, key=lambda t: (len(t[0].events), sum(len(e[2]) for e in t[0].events if e[0] == "Forward")))
        ctx.witness("nn.BatchNorm.forward", "history", {"case": c.descr()},
                    "eval: running statistics used and unchanged; train: batch statistics used, running mean / unbiased variance updated "
                    "once by the exponential (momentum) or cumulative (momentum=None) rule; nothing stored without tracking",
                    {"verdict": v}, note="%d of %d histories fail the direct judgement (torch + Fraction spec)" % (len(failing), len(verd)))
    dverd = [(c, r, judge_do(c, r)) for c, r in zip(dcases, dres)]
    dfail = [(c, r, v) for c, r, v in dverd if v]
    ctx.extra["oracle_dropout_cases_judged"] = len(dverd)
    if dfail:
        c, r, v = min(dfail, key=lambda t: len(t[0].x))
        ctx.witness("nn.Dropout.forward", "mask-scale", {"case": c.descr()},
                    "eval: identity; train: out = x*m/(1-p) in the input dtype and x.grad = g*m/(1-p) with the same mask; p=1: zeros",
                    {"verdict": v, "out": [float(x) for x in r["out"]]}, note="%d of %d cases fail" % (len(dfail), len(dverd)))

    if not ctx.quick:
        bs = binomial_sanity(ctx)
        ctx.extra["dropout_mask_distribution_sampled"] = bs
        ctx.notes.append("mask distribution: sampled binomial sanity test only (6 sigma band), outside the model; all within band: %s" % all(b["within_6_sigma"] for b in bs))
        if not all(b["within_6_sigma"] for b in bs):
            ctx.witness("nn.Dropout.forward", "mask-distribution", {"samples": bs}, "zeroed fraction within 6 sigma of p", {"samples": bs},
                        note="sampled statistic, not a proof")


FINISH = dict(rule="every option combination momentum x affine x track x rank is covered with seeded random histories; non-trivial = distinct histories "
                   "with at least two forwards (BatchNorm), training-mode cases with 0 < p < 1 (Dropout)")


def replay(ctx, data):
    if data.get("kind") != "failing-input":
        print(json.dumps(data.get("broken"), indent=1)); return 1
    if data["class"] == "mask-distribution":
        bs = binomial_sanity(ctx)
        print(bs); return 0 if all(b["within_6_sigma"] for b in bs) else 1
    if data["class"] == "uncentred-batch":
        v = judge_uncentred(data["input"]["spec"])
        print("verdict:", v)
        return 1 if v else 0
    if data["class"] == "multi-call":
        if data["site"].startswith("nn.Dropout"):
            x = DSession.from_descr(data["input"]["session"])
            v = judge_dsession(x, run_dsession_impl(x))
        else:
            v = judge_bsession(BSession.from_descr(data["input"]["session"]))
        print("verdict:", v)
        return 1 if v else 0
    d = data["input"]["case"]
    if data["site"].startswith("nn.Dropout"):
        c = DOCase.from_descr(d)
        v = judge_do(c, run_do_impl(c))
    else:
        c = BNCase.from_descr(d)
        v = judge_bn(c, run_bn_impl(c))
    print("verdict:", v)
    return 1 if v else 0
