"""C14 — fused operations equal the compositions their documentation equates them with (assembled from parts).

  views      checks/ops_views.py       Props/C14_views.v      flatten = reshape, movedim between adjacent dims = transpose
  algebra    checks/ops_algebra.py     Props/C14_algebra.v    a-b = a+(-b), a/b = a*b**-1, mean = sum/count, addmm = a + b@c, linear = x@W.T + b,
                                                               stack = concat of unsqueezed, unbind inverts stack
  vector     checks/kernels_vector.py  Props/C14_vector.v     cross-entropy = NLL o log_softmax (values and gradients), log_softmax = log o softmax (eps bound)
  scalar     checks/kernels_scalar.py  Props/C02_scalar.v     BCE-with-logits = softplus form; BCE o sigmoid up to the eps guard (bce_logits_forward_is_softplus)
  conv/pool  checks/ops_convpool.py    Props/C14_convpool.v   convolution = unfold then matrix product, pooling = window extraction then max/mean
  modules    checks/ops_modules.py     Props/C14_modules.v    Neuron = Linear with one output, Sequential = function composition
"""
from lib.parts import run_parts, replay_parts

PARTS = [("checks.ops_views", "run_part", {"prop": "C14"}),
         ("checks.ops_algebra", "run_part", {"as_pid": "C14"}),
         ("checks.kernels_vector", "run_part", {"props_file": "Props/C14_vector.v"}),
         ("checks.kernels_scalar", "run_part", {"props_file": "Props/C14_scalar.v"}),
         ("checks.ops_convpool", "run_part_c14", {}),
         ("checks.ops_modules", "run_part", {})]


def run(ctx):
    run_parts(ctx, PARTS)


def replay(ctx, data):
    return replay_parts(ctx, data, PARTS)


FINISH = dict(rule="per part: both sides of each identity evaluated on the same operands (values and gradients) over shape/geometry grids; "
                   "non-trivial = distinct operand shapes/arguments with non-uniform upstream gradient")
