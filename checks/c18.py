"""C18 — dataset split, batching and one-hot encoding lose or misalign no sample.

Obligations : coq/Props/C18.v (split partition / sizes / pairing / order, floor rule range on rationals and on the binary64
              product (Flocq), loader batches / re-iterability / transform, one-hot unit vectors; model State/Data.v)
Ties        : T  lib/py2coq/gen_sigs.py regenerates Gen/GenDataSigs.v (signatures incl. parameter order, DataLoader state) — obligation
                 data_signatures_documented; self-check against inspect.signature
              K  split_dataset on every (n <= 12, fraction grid, val grid, shuffle off / seeds) vs the model, exactly
              K  DataLoader event histories (for loops, abandoned loops, interleaved iterators, len, indexing) for
                 every n <= 12 and batch size 1..n+2, with and without a recording transform, vs the model
              K  one_hot_encode on every short label list over a small alphabet + random label lists vs the model
              K  malformed stream (labels shorter than samples, batch size 0): model says "raises", so must the code
Oracle      : the property stated directly in Python on the implementation's outputs (multiset partition, floor
              sizes, order, batch windows, second loop == first loop, one 1 per row at sorted-distinct index).
"""
import json, math, re
from fractions import Fraction
from lib import common
from lib.common import cz, cn, cb, clist, copt

CH = 500
HEADER = """From Coq Require Import List Bool Arith ZArith.
Import ListNotations.
From SG Require Import Base.Cmp State.Data.
Definition zl_eqb := list_eqb Z.eqb.
Definition zz_eqb := pair_eqb zl_eqb zl_eqb.
"""


def _impl():
    from lib import impl
    return impl


def _data():
    _impl()
    from synapgrad.nn.utils import data
    return data


# ------------------------------------------------------------------ data sets
def make_xy(n):
    """n samples: X row i = [100+i, 2*(100+i)+1] (distinct ids), y_i a non-injective integer label."""
    np = _impl().np
    X = np.array([[100 + i, 2 * (100 + i) + 1] for i in range(n)], dtype=np.int64).reshape(n, 2)
    y = np.array([(7 * i + 3) % 5 - 1 for i in range(n)], dtype=np.int64)
    return X, y


def x_ids(Xs):
    """rows -> ids, checking that a row was not torn apart; empty arrays come back with shape (0,)"""
    np = _impl().np
    Xs = np.asarray(Xs)
    if Xs.size == 0:
        return []
    assert Xs.ndim == 2 and Xs.shape[1] == 2, Xs.shape
    out = []
    for r in Xs:
        a, b = int(r[0]), int(r[1])
        if float(a) != float(r[0]) or b != 2 * a + 1:
            return ["torn-row %r" % (r.tolist(),)]
        out.append(a)
    return out


def y_vals(ys):
    np = _impl().np
    ys = np.asarray(ys)
    return [int(v) for v in ys.reshape(-1)] if ys.size else []


# ------------------------------------------------------------------ split_dataset
def float_floor(f, n):
    """the code's rule: int(np.floor(test_split * data_size)) with a Python-float product"""
    return int(math.floor(float(f) * n))


def read_perm(n, seed):
    np = _impl().np
    np.random.seed(seed)
    idx = list(range(n))
    np.random.shuffle(idx)
    return idx


SHUFFLE_FALSY = ["False", "np.False_", "0"]
SHUFFLE_TRUTHY = ["True", "np.True_", "1"]
SHUFFLE_COQ = {"False": "SBool false", "np.False_": "SNpBool false", "0": "SInt 0",
               "True": "SBool true", "np.True_": "SNpBool true", "1": "SInt 1"}


def shuffle_value(sform):
    np = _impl().np
    return {"False": False, "np.False_": np.bool_(False), "0": 0, "True": True, "np.True_": np.bool_(True), "1": 1}[sform]


def fraction_value(f, fform):
    np = _impl().np
    if f is None:
        return None
    if fform == "int" and float(f) in (0.0, 1.0):
        return int(f)
    if fform == "np.float64":
        return np.float64(f)
    return float(f)


def rng_seed(n, seed):
    """the seed put into NumPy's global generator before the call (also when shuffle is falsy: the model must ignore it)"""
    return seed if seed is not None else 4242 + n


def run_split_impl(n, f, vf, seed, y_short=0, sform=None, call="kw", fform="float"):
    """seed None = a falsy shuffle argument, else truthy.  returns ('ok', (train, test, val)) with each set (ids, labels) or ('raise', type)"""
    np = _impl().np
    D = _data()
    X, y = make_xy(n)
    if y_short:
        y = y[:max(0, n - y_short)]
    if sform is None:
        sform = "False" if seed is None else "True"
    assert (sform in SHUFFLE_TRUTHY) == (seed is not None)
    sh = shuffle_value(sform)
    fa, va_ = fraction_value(f, fform), fraction_value(vf, fform)
    np.random.seed(rng_seed(n, seed))
    try:
        if call == "pos":
            tr, te, va = D.split_dataset(X, y, fa, va_, sh)
        else:
            tr, te, va = D.split_dataset(X, y, test_split=fa, val_split=va_, shuffle=sh)
    except Exception as ex:
        return ("raise", type(ex).__name__)
    conv = lambda d: None if d is None else (x_ids(d[0]), y_vals(d[1]))
    return ("ok", (conv(tr), conv(te), conv(va)))


def judge_split(n, f, vf, seed, res):
    """Oracle (no Coq): the property on the implementation's output. None or a description."""
    if res[0] != "ok":
        return "raised %s" % res[1]
    tr, te, va = res[1]
    X, y = make_xy(n)
    inp = sorted((int(X[i][0]), int(y[i])) for i in range(n))
    kt = float_floor(f, n)
    sets = [("test", te), ("val", va), ("train", tr)]
    for name, s in sets:
        if s is None:
            continue
        if any(isinstance(v, str) for v in s[0]):
            return "%s: %s" % (name, s[0][0])
        if len(s[0]) != len(s[1]):
            return "%s: %d samples but %d labels" % (name, len(s[0]), len(s[1]))
    if (va is None) != (vf is None):
        return "validation set %s although val_split=%r" % ("missing" if va is None else "present", vf)
    if len(te[0]) != kt:
        return "test size %d, floor rule gives %d" % (len(te[0]), kt)
    kv = 0
    if vf is not None:
        kv = float_floor(vf, n - kt)
        if len(va[0]) != kv:
            return "validation size %d, floor rule gives %d" % (len(va[0]), kv)
    if len(tr[0]) != n - kt - kv:
        return "train size %d, expected %d" % (len(tr[0]), n - kt - kv)
    got = []
    for name, s in sets:
        if s is not None:
            got += list(zip(s[0], s[1]))
    if sorted(got) != inp:
        lost = sorted(set(inp) - set(got))
        dup = sorted(p for p in set(got) if got.count(p) > 1)
        return "the sets are not a partition of the (sample,label) pairs: lost %s, duplicated %s, foreign %s" % (
            lost[:4], dup[:4], sorted(set(got) - set(inp))[:4])
    if seed is None:
        order = [int(X[i][0]) for i in range(n)]
        if te[0] + (va[0] if va else []) + tr[0] != order:
            return "shuffle off but order changed: test+val+train ids = %s" % (te[0] + (va[0] if va else []) + tr[0])
    return None


def zlist(xs):
    return clist([cz(v) for v in xs])


def set_coq(s):
    return "(%s, %s)" % (zlist(s[0]), zlist(s[1]))


def split_case_coq(n, kt, kv, sform, perm, res, y_short=0):
    X, y = make_xy(n)
    if y_short:
        y = y[:max(0, n - y_short)]
    inp = "(%s, %s, %s, %s, %s, %s)" % (zlist([int(r[0]) for r in X]), zlist([int(v) for v in y]), cn(kt),
                                        copt(kv, cn), SHUFFLE_COQ[sform], clist([cn(i) for i in perm]))
    if res[0] == "ok":
        tr, te, va = res[1]
        bad = any(isinstance(v, str) for s in (tr, te, va) if s is not None for v in s[0])
        exp = "None" if bad else "Some (%s, %s, %s)" % (set_coq(tr), set_coq(te), copt(va, set_coq))
    else:
        exp = "None"
    return "(%s, %s)" % (inp, exp)


SPLIT_EVAL = """
Definition flat (r : option (split_result Z Z)) :=
  match r with Some r => Some (s_train r, s_test r, s_val r) | None => None end.
Definition res_eqb := option_eqb (pair_eqb (pair_eqb zz_eqb zz_eqb) (option_eqb zz_eqb)).
Definition runc (c : list Z * list Z * nat * option nat * shuffle_arg * list nat) :=
  let '(X, y, kt, kv, a, perm) := c in flat (split_dataset_a X y kt kv a perm).
Definition cases : list ((list Z * list Z * nat * option nat * shuffle_arg * list nat) *
                         option ((list Z * list Z) * (list Z * list Z) * option (list Z * list Z))) :=
 [%s].
Eval vm_compute in (mismatches runc res_eqb cases).
"""


def parse_natlist(out):
    flat = " ".join(out.split())
    res = []
    for m in re.finditer(r"= \[(.*?)\]\s*:\s*list nat", flat):
        body = m.group(1).replace("%nat", "").strip()
        res.append([int(x) for x in body.split(";") if x.strip()])
    return res


def coq_compare(ctx, prefix, template, rows, describe):
    """rows: list of coq case strings; returns list of mismatch descriptions"""
    files = []
    for k in range(0, len(rows), CH):
        files.append(("%s_%d" % (prefix, k // CH), HEADER + template % ";\n ".join(rows[k:k + CH])))
    res = ctx.coq_eval_many(files)
    mism = []
    for (name, _), k in zip(files, range(0, len(rows), CH)):
        ok, out = res[name]
        lists = parse_natlist(out)
        if not ok or len(lists) != 1:
            mism.append({"file": name, "error": out[-500:]})
            continue
        for i in lists[0]:
            mism.append(describe(k + i))
    return mism


def part_split(ctx):
    rng = ctx.rng
    grid = [Fraction(i, 20) for i in range(21)]
    extra_f = [Fraction(29, 100), Fraction(1, 3), Fraction(57, 100), Fraction(7, 10)]
    if ctx.quick:
        vgrid = [None] + [Fraction(i, 20) for i in (0, 3, 7, 10, 15, 20)]
        seeds = [None, 1, 2]
    else:
        vgrid = [None] + grid
        seeds = [None, 1, 2, 3, 4]
    cases = []          # (n, f, vf, seed)
    for n in range(0, 13):
        for f in grid:
            for vf in vgrid:
                for sd in seeds:
                    cases.append((n, f, vf, None if sd is None else sd * 1000 + n))
    # larger data sets where the float product floors differently from the exact rational product
    for n in (100, 57, 30, 99):
        for f in extra_f + [Fraction(3, 20), Fraction(11, 20)]:
            cases.append((n, f, rng.choice(extra_f + [None]), rng.choice([None, 7])))
    rows, recs, oracle_fail = [], [], []
    form_stats = {}
    float_vs_rational = []
    nontrivial = set()
    for c, (n, f, vf, seed) in enumerate(cases):
        ff = float(f)
        vff = None if vf is None else float(vf)
        kt = float_floor(ff, n)
        kv = None if vf is None else float_floor(vff, n - kt)
        if kt != math.floor(f * n):
            float_vs_rational.append({"fraction": str(f), "n": n, "float_rule": kt, "exact_rational": int(math.floor(f * n))})
        if vf is not None and kv != math.floor(vf * (n - kt)):
            float_vs_rational.append({"fraction": str(vf), "n": n - kt, "float_rule": kv, "exact_rational": int(math.floor(vf * (n - kt)))})
        # argument and call forms cycle over the grid: shuffle in {False, np.bool_(False), 0} / {True, np.bool_(True), 1},
        # positional / keyword call, fractions as float / int (0, 1) / np.float64
        cell, j = divmod(c, len(seeds))          # grid cell (n, f, vf) and position in the seed list
        sform = (SHUFFLE_FALSY if seed is None else SHUFFLE_TRUTHY)[(cell + j) % 3]
        call = ["kw", "pos"][(cell // 3 + j) % 2]
        fform = ["float", "int", "np.float64"][(cell // 2) % 3]
        perm = read_perm(n, rng_seed(n, seed))        # what the global generator WOULD produce; ignored by the model when falsy
        res = run_split_impl(n, ff, vff, seed, sform=sform, call=call, fform=fform)
        v = judge_split(n, ff, vff, seed, res)
        form_stats[(sform, call, fform)] = form_stats.get((sform, call, fform), 0) + 1
        if v:
            oracle_fail.append(((n, ff, vff, seed, sform, call, fform), res, v))
        rows.append(split_case_coq(n, kt, kv, sform, perm, res))
        recs.append({"n": n, "test_split": ff, "val_split": vff, "shuffle_seed": seed, "shuffle_argument": sform, "call": call,
                     "fraction_form": fform, "k_test": kt, "k_val": kv, "generator_permutation": perm, "implementation": res})
        if 0 < kt < n or (kv or 0) > 0:
            nontrivial.add((n, kt, kv, tuple(perm) if seed is not None else None, sform, call))
    ctx.sample(recs[len(recs) // 3])
    mism = coq_compare(ctx, "split", SPLIT_EVAL, rows, lambda i: recs[i])
    ctx.tie("split_dataset/grid", "correspondence", len(cases), len(nontrivial), mism, exhaustive=True,
            note="every n<=12 x 21 test fractions x %d val settings x shuffle off/%d seeds (permutation read back by seeding NumPy identically), "
                 "plus %d larger cases; argument forms cycle over the grid: shuffle in {False, np.bool_(False), 0 | True, np.bool_(True), 1}, positional / keyword call, "
                 "fractions as float / int / np.float64 (NumPy's generator is seeded in every case; the model ignores the permutation when the argument is falsy); "
                 "sizes passed to the model are floor(float(f)*n) as in the code; non-trivial = distinct (n,k_test,k_val,perm,forms) with a non-empty proper split"
                 % (len(vgrid), len(seeds) - 1, 24))
    ctx.extra["split_argument_forms"] = {"%s/%s/%s" % k: v for k, v in sorted(form_stats.items())}
    # dedupe the float/rational survey
    seen = set()
    fr = []
    for d in float_vs_rational:
        key = (d["fraction"], d["n"])
        if key not in seen:
            seen.add(key); fr.append(d)
    # a wider arithmetic-only survey (no implementation run): fractions i/100, n <= 200
    wide = [(i, n) for i in range(101) for n in range(1, 201) if float_floor(i / 100, n) != (i * n) // 100]
    ctx.extra["float_vs_exact_fraction_survey_i/100_n<=200"] = {
        "pairs": 101 * 200, "differ": len(wide),
        "examples": [{"fraction": "%d/100" % i, "n": n, "float_rule": float_floor(i / 100, n), "exact_rational": (i * n) // 100} for i, n in wide[:8]],
        "all_within_[0,n]": all(0 <= float_floor(i / 100, n) <= n for i in range(101) for n in range(1, 201))}
    ctx.extra["float_product_floors_differently_from_exact_fraction"] = {
        "count": len(fr), "examples": fr[:12],
        "note": "not a violation: the property's floor rule is applied to the binary64 product test_split*n, as the code does"}
    ctx.notes.append("floor rule: %d (fraction,n) pairs of the generated cases floor differently under the float product than under the exact decimal fraction (e.g. %s)"
                     % (len(fr), json.dumps(fr[0]) if fr else "none"))
    return oracle_fail


# ------------------------------------------------------------------ malformed stream
def part_malformed(ctx):
    rows, recs = [], []
    for n in (3, 5, 8):
        for short in (1, 2):
            for f in (0.0, 0.5, 1.0):
                res = run_split_impl(n, f, None, None, y_short=short)
                kt = float_floor(f, n)
                rows.append(split_case_coq(n, kt, None, "False", list(range(n)), res, y_short=short))
                recs.append({"n": n, "labels": n - short, "test_split": f, "implementation": res})
    mism = coq_compare(ctx, "malformed", SPLIT_EVAL, rows, lambda i: recs[i])
    raised = sum(1 for r in recs if r["implementation"][0] == "raise")
    ctx.tie("split_dataset/malformed (fewer labels than samples)", "correspondence", len(rows), raised, mism,
            note="the model returns None (IndexError) exactly when the implementation raises")


# ------------------------------------------------------------------ DataLoader
class RecTransform:
    """recording transform: logs the raw batch it is given, returns (X+1000, y reversed)"""

    def __init__(self):
        self.log = []

    def __call__(self, dl, Xb, yb):
        self.log.append((x_ids(Xb), y_vals(yb)))
        return self._shift(Xb), yb[::-1]

    @staticmethod
    def _shift(Xb):
        np = _impl().np
        Xb = np.asarray(Xb)
        if Xb.size == 0:
            return Xb
        out = Xb.copy()
        out[:, 0] = Xb[:, 0] + 1000
        out[:, 1] = 2 * out[:, 0] + 1
        return out


def run_loader_impl(n, b, with_tr, events, call="kw"):
    """events: ('iter',) ('next',h) ('len',) ('get',i).  Returns (outputs, transform_log).
    call: how the constructor is called — 'kw' DataLoader(X, y, b, transform=tr); 'pos' DataLoader(X, y, b, tr) (documented order);
    'allkw' DataLoader(X=.., y=.., batch_size=.., transform=..); without a transform 'pos' is DataLoader(X, y, b)."""
    D = _data()
    X, y = make_xy(n)
    tr = RecTransform() if with_tr else None
    try:
        if call == "pos":
            L = D.DataLoader(X, y, b, tr) if with_tr else D.DataLoader(X, y, b)
        elif call == "allkw":
            L = D.DataLoader(X=X, y=y, batch_size=b, transform=tr)
        else:
            L = D.DataLoader(X, y, b, transform=tr)
    except Exception as ex:
        return [("raise", type(ex).__name__) for _ in events], []
    handles = []
    outs = []
    for e in events:
        try:
            if e[0] == "iter":
                it = iter(L)
                handles.append(it)
                outs.append(("iter", it is L))
            elif e[0] == "next":
                it = handles[e[1]] if e[1] < len(handles) else L
                bt = next(it)
                outs.append(("batch", x_ids(bt[0]), y_vals(bt[1])))
            elif e[0] == "len":
                outs.append(("len", len(L)))
            else:
                bt = L[e[1]]
                outs.append(("batch", x_ids(bt[0]), y_vals(bt[1])))
        except StopIteration:
            outs.append(("stop",))
        except Exception as ex:
            outs.append(("raise", type(ex).__name__))
    return outs, (tr.log if tr else [])


def for_loop_events(n, b):
    k = (n // b) if b else 0
    return [("iter",)] + [("next", 0)] * (k + 1)


def loader_histories(n, b, rng, quick):
    k = n // b
    hs = []
    loop = lambda h: [("iter",)] + [("next", h)] * (k + 1)
    hs.append(("for", loop(0)))
    hs.append(("for;for", loop(0) + loop(1)))
    j = rng.randint(0, k) if k else 0
    hs.append(("abandoned(%d);for" % j, [("iter",)] + [("next", 0)] * j + loop(1)))
    # interleaved: outer consumed one batch, inner complete loop, outer continues
    hs.append(("outer-next;inner-for;outer-next", [("iter",), ("next", 0)] + loop(1) + [("next", 0), ("next", 0)]))
    hs.append(("len;get", [("len",), ("get", 0), ("get", k), ("get", max(0, k - 1)), ("next", 0), ("len",)]))
    for _ in range(1 if quick else 4):
        ev = []
        nh = 0
        for _ in range(rng.randint(3, 10)):
            c = rng.random()
            if c < 0.25 or nh == 0:
                ev.append(("iter",)); nh += 1
            elif c < 0.8:
                ev.append(("next", rng.randrange(nh)))
            elif c < 0.9:
                ev.append(("len",))
            else:
                ev.append(("get", rng.randint(0, k + 1)))
        hs.append(("random", ev))
    return hs


def ev_coq(e):
    return {"iter": lambda: "Iter", "next": lambda: "Next %d" % e[1], "len": lambda: "Len", "get": lambda: "Get %d" % e[1]}[e[0]]()


def out_coq(o):
    if o[0] == "iter":
        return "OIter" if o[1] else "ORaise (* iter(L) is not L *)"
    if o[0] == "batch":
        if any(isinstance(v, str) for v in o[1]):
            return "ORaise (* %s *)" % o[1][0].replace("*", "x")
        return "OBatch (%s, %s)" % (zlist(o[1]), zlist(o[2]))
    if o[0] == "stop":
        return "OStop"
    if o[0] == "len":
        return "OLen %s" % cn(o[1]) if o[1] >= 0 else "ORaise"
    return "ORaise"


LOADER_EVAL = """
Definition tr (b : list Z * list Z) : list Z * list Z := (map (Z.add 1000) (fst b), rev (snd b)).
Definition lout_eqb (a b : lout Z Z) : bool :=
  match a, b with
  | OIter, OIter => true | OStop, OStop => true | ORaise, ORaise => true
  | OLen n, OLen m => Nat.eqb n m
  | OBatch x, OBatch y => zz_eqb x y
  | _, _ => false end.
Definition runc (c : list Z * list Z * nat * bool * list lev) :=
  let '(X, y, b, t, evs) := c in
  let L := {| LX := X; Ly := y; bsize := b; transform := if t then Some tr else None |} in
  let '(outs, s) := lrun L linit evs in (outs, tlog s).
Definition cases : list ((list Z * list Z * nat * bool * list lev) * (list (lout Z Z) * list (list Z * list Z))) :=
 [%s].
Eval vm_compute in (mismatches runc (pair_eqb (list_eqb lout_eqb) (list_eqb zz_eqb)) cases).
"""


def judge_loader(n, b, with_tr, name, events, outs, log):
    """Oracle: direct statement on the implementation's outputs for the loop-shaped histories."""
    X, y = make_xy(n)
    ids = [int(r[0]) for r in X]
    ys = [int(v) for v in y]
    k = n // b
    raw = [(ids[i * b:i * b + b], ys[i * b:i * b + b]) for i in range(k)]
    want = [([v + 1000 for v in xb], yb[::-1]) for xb, yb in raw] if with_tr else raw
    for xb, yb in raw:
        if len(xb) != b or len(yb) != b:
            return "oracle bug"
    # split the history in complete loops:  iter, next*(k+1)
    if name in ("for", "for;for") or name.startswith("abandoned"):
        # the LAST k+1 next outputs after the last iter must be the k batches then stop
        last_iter = max(i for i, e in enumerate(events) if e[0] == "iter")
        tail = outs[last_iter + 1:]
        got = [(o[1], o[2]) for o in tail if o[0] == "batch"]
        if got != want:
            return "loop yields %s, expected the %d consecutive aligned batches %s" % (got, k, want)
        if tail[-1] != ("stop",) or len(tail) != k + 1:
            return "loop does not stop after %d batches: %s" % (k, tail[-2:])
        if name == "for;for":
            first = [(o[1], o[2]) for o in outs[1:k + 1] if o[0] == "batch"]
            if first != want:
                return "first loop yields %s" % (first,)
        nb = sum(1 for o in outs if o[0] == "batch")
        if with_tr:
            if len(log) != nb:
                return "transform called %d times for %d batches" % (len(log), nb)
        elif log:
            return "transform log non-empty without transform"
    if name == "len;get":
        if outs[0] != ("len", k):
            return "len() = %r, expected %d" % (outs[0], k)
    return None


def part_loader(ctx):
    rng = ctx.rng
    rows, recs, oracle_fail = [], [], []
    distinct = set()
    for n in range(0, 13):
        for b in range(1, n + 3):
            for with_tr, call in ((False, "pos" if (n + b) % 2 else "allkw"), (True, "kw"), (True, "pos")):
                for name, events in loader_histories(n, b, rng, ctx.quick):
                    if (with_tr, call) == (True, "pos") and name in ("random", "len;get") and ctx.quick:
                        continue
                    outs, log = run_loader_impl(n, b, with_tr, events, call)
                    v = judge_loader(n, b, with_tr, name, events, outs, log)
                    if v:
                        oracle_fail.append(((n, b, with_tr, name, events, call), (outs, log), v))
                    X, y = make_xy(n)
                    inp = "(%s, %s, %s, %s, %s)" % (zlist([int(r[0]) for r in X]), zlist([int(v_) for v_ in y]), cn(b), cb(with_tr),
                                                    clist([ev_coq(e) for e in events]))
                    logc = clist(["(%s, %s)" % (zlist(a), zlist(c)) for a, c in log]) if not any(isinstance(v_, str) for a, c in log for v_ in a) else "[([], [])] (* torn *)"
                    rows.append("(%s, (%s, %s))" % (inp, clist([out_coq(o) for o in outs]), logc))
                    recs.append({"n": n, "batch_size": b, "transform": with_tr, "constructor_call": call, "history": name,
                                 "events": [ev_coq(e) for e in events], "implementation_outputs": outs, "transform_log": log})
                    if n // b >= 1:
                        distinct.add((n, b, with_tr, call, tuple(events)))
    ctx.sample(next(r for r in recs if r["n"] == 7 and r["batch_size"] == 3 and r["history"].startswith("outer")))
    mism = coq_compare(ctx, "loader", LOADER_EVAL, rows, lambda i: recs[i])
    ctx.tie("DataLoader/event-histories", "correspondence", len(rows), len(distinct), mism, exhaustive=True,
            note="every n<=12 x batch size 1..n+2 x {no transform (positional / all-keyword constructor), recording transform passed by keyword, recording transform "
                 "passed POSITIONALLY as the 4th argument} x {for, for;for, abandoned;for, interleaved, len/indexing, random}; "
                 "outputs of every event and the transform's call log compared; non-trivial = at least one full batch")
    # malformed: batch size 0
    mrows, mrecs = [], []
    for n in (0, 4):
        events = [("len",), ("iter",), ("next", 0), ("get", 0)]
        outs, log = run_loader_impl(n, 0, False, events)
        X, y = make_xy(n)
        inp = "(%s, %s, %s, %s, %s)" % (zlist([int(r[0]) for r in X]), zlist([int(v_) for v_ in y]), cn(0), cb(False), clist([ev_coq(e) for e in events]))
        mrows.append("(%s, (%s, []))" % (inp, clist([out_coq(o) for o in outs])))
        mrecs.append({"n": n, "batch_size": 0, "implementation_outputs": outs})
    mism = coq_compare(ctx, "loader_bad", LOADER_EVAL, mrows, lambda i: mrecs[i])
    ctx.tie("DataLoader/malformed (batch size 0)", "correspondence", len(mrows), len(mrows), mism,
            note="len()/next() raise ZeroDivisionError in the code and ORaise in the model; indexing returns empty slices in both")
    # real nested for-loops (interleaved iterations share the cursor): recorded, outside the property's wording
    D = _data()
    X, y = make_xy(7)
    L = D.DataLoader(X, y, 2)
    trace = []
    try:
        for a in L:
            for c in L:
                trace.append((int(a[0][0][0]), int(c[0][0][0])))
                if len(trace) > 40:          # a loader that never terminates must not hang the check
                    raise RuntimeError("nested loops did not terminate within 40 inner iterations")
    except Exception as ex:      # judged elsewhere (the loop histories); here only recorded
        trace.append("raised %s" % type(ex).__name__)
    ctx.extra["nested_for_loops_over_one_loader"] = {
        "n": 7, "batch_size": 2, "observed_(outer first id, inner first id)": trace,
        "model": "loader_interleaved_outer_exhausted: iter(L) is L, one shared cursor, the outer body runs once",
        "independent_iterations_would_give": 9}
    if len(trace) != 3:
        ctx.notes.append("nested loops over one loader ran the outer body %d times (model: once)" % len({t[0] for t in trace}))
    return oracle_fail


# ------------------------------------------------------------------ one_hot_encode
FORMS = ["list", "array", "column-array", "nested-list"]     # shapes (n,), (n,), (n,1), (n,1)


def make_labels(labels, form, scale):
    """the label container handed to one_hot_encode; `labels` are the n labels it denotes (x scale)"""
    np = _impl().np
    vals = [v / scale for v in labels] if scale != 1 else list(labels)
    if form is True:            # backward compatibility with stored replays (as_array flag)
        form = "array"
    elif form is False:
        form = "list"
    if form == "list":
        return vals
    if form == "array":
        return np.array(vals)
    if form == "column-array":
        return np.array(vals).reshape(len(vals), 1)
    if form == "nested-list":
        return [[v] for v in vals]
    if form == "width2-array":  # malformed: rows of two labels
        return np.array([[v, v + 1] for v in vals])
    raise AssertionError(form)


def run_onehot_impl(labels, form, scale, call="pos", arg=None):
    """arg: an explicit container (float label sets); else built from (labels, form, scale)"""
    np = _impl().np
    D = _data()
    if arg is None:
        arg = make_labels(labels, form, scale)
    try:
        out = D.one_hot_encode(y=arg) if call == "kw" else D.one_hot_encode(arg)
        out = np.asarray(out)
        if out.size == 0:
            return ("ok", [] if len(labels) == 0 else [[] for _ in labels])
        if out.ndim != 2:
            return ("ok", [["shape %s" % (out.shape,)]])
        return ("ok", [[int(v) for v in row] for row in out])
    except Exception as ex:
        return ("raise", type(ex).__name__)


# ---- float labels: exact, order-preserving integer keys (the model's labels are integers) ----------------
def float_key(x):
    """binary64 -> Z, strictly monotone on the non-NaN floats, +0.0 and -0.0 both 0 (they are equal labels)"""
    import struct
    x = float(x)
    assert x == x, "NaN label"
    if x == 0.0:
        return 0
    bits = struct.unpack(">q", struct.pack(">d", abs(x)))[0]
    return bits if x > 0 else -bits


FLOAT_FORMS = ["list", "f64", "f32", "col-f64", "col-f32", "nested"]


def make_float_labels(vals, form):
    """returns (container, labels as the implementation sees them (python floats))"""
    np = _impl().np
    if form in ("f32", "col-f32"):
        a = np.array(vals, dtype=np.float32)
        seen = [float(v) for v in a]
        return (a.reshape(-1, 1) if form == "col-f32" else a), seen
    seen = [float(v) for v in vals]
    if form == "list":
        return list(seen), seen
    if form == "nested":
        return [[v] for v in seen], seen
    a = np.array(seen, dtype=np.float64)
    return (a.reshape(-1, 1) if form == "col-f64" else a), seen


def float_label_sets(rng, quick):
    """close-but-distinct float labels: adjacent large ids, adjacent float32 / float64 values, tiny and subnormal labels,
    negative floats, mixed magnitudes"""
    np = _impl().np
    sets = [
        [250001.0, 250002.0, 250001.0, 250003.0],
        [16777214.0, 16777215.0, 16777216.0, 16777214.0],          # adjacent float32-exact ids near 2^24
        [1.0, float(np.nextafter(np.float32(1.0), np.float32(2.0))), 1.0, float(np.nextafter(np.float32(1.0), np.float32(0.0)))],
        [1.0, float(np.nextafter(1.0, 2.0)), float(np.nextafter(1.0, 0.0)), 1.0],
        [0.1, float(np.nextafter(0.1, 1.0)), 0.1 + 0.2, 0.3],
        [0.0, 1e-9, 2e-9, 5e-9, 1e-9, -1e-9],
        [5e-324, 1e-323, 0.0, 5e-324],
        [1e-310, 2e-310, 1e-310, -0.0, 0.0],
        [1e-40, 2e-40, 1e-45, 0.0],                                 # float32 subnormals
        [-250001.0, -250002.0, -250001.5, -250001.0],
        [-1e-9, 1e-9, -2e-9, 0.0],
        [1e12, 1e12 + 1, -3.5, 1e-9, 0.25, 1e12],
        [3.0e38, 3.0000001e38, -3.0e38, 1.0],
        [1000000.0, 1000001.0, 999999.0, 1000000.5, 1000001.0],
        [0.5, 0.25, 0.75, 0.5],
    ]
    for _ in range(25 if quick else 150):
        k = rng.randint(-12, 12)
        base = rng.choice([1.0, 2.5, 7.0, 9.999]) * 10.0 ** k * rng.choice([1, -1])
        f32 = rng.random() < 0.5
        pool = [base]
        for _ in range(rng.randint(1, 4)):
            x = pool[-1]
            for _ in range(rng.randint(1, 3)):
                x = float(np.nextafter(np.float32(x), np.float32(np.inf))) if f32 else float(np.nextafter(x, np.inf))
            pool.append(x)
        if rng.random() < 0.3:
            pool.append(-pool[0])
        if rng.random() < 0.3:
            pool.append(0.0)
        sets.append([rng.choice(pool) for _ in range(rng.randint(2, 9))])
    return sets


def judge_onehot(labels, res):
    if res[0] != "ok":
        return "raised %s" % res[1]
    rows = res[1]
    u = sorted(set(labels))
    if len(rows) != len(labels):
        return "%d rows for %d labels" % (len(rows), len(labels))
    for lab, row in zip(labels, rows):
        if any(not isinstance(v, int) for v in row):
            return "result is not an (n, k) table: %s" % (row,)
        if len(row) != len(u):
            return "row length %d, %d distinct labels" % (len(row), len(u))
        if sorted(row) != [0] * (len(u) - 1) + [1]:
            return "row %s is not a unit vector" % (row,)
        if row.index(1) != u.index(lab):
            return "label %r encoded at position %d, its index among the sorted distinct labels %s is %d" % (lab, row.index(1), u, u.index(lab))
    return None


ONEHOT_EVAL = """
Definition cases : list (labels * option (list (list nat))) :=
 [%s].
Eval vm_compute in (mismatches one_hot_c (option_eqb (list_eqb (list_eqb Nat.eqb))) cases).
"""


def part_onehot(ctx):
    import itertools
    rng = ctx.rng
    cases = []       # (labels as ints (scaled), container form, scale)
    alpha = [-1, 0, 2]
    for ln in range(0, 5):
        for t in itertools.product(alpha, repeat=ln):
            for form in FORMS:
                cases.append((list(t), form, 1))
    for _ in range(120 if ctx.quick else 600):
        ln = rng.randint(1, 12)
        pool = rng.sample(range(-9, 10), rng.randint(1, 6))
        labs = [rng.choice(pool) for _ in range(ln)]
        scale = rng.choice([1, 1, 4])          # scale 4: float labels v/4 (quarters), order-isomorphic to the integers v
        for form in FORMS:
            cases.append((labs, form, scale))
    # malformed: rows of width 2 -> list.index raises on the ambiguous comparison; model: None
    for labs in ([1], [2, 0], [0, 0, 3]):
        cases.append((labs, "width2-array", 1))
    rows, recs, oracle_fail = [], [], []
    distinct = set()
    for ci, (labs, arr, scale) in enumerate(cases):
        res = run_onehot_impl(labs, arr, scale, call="kw" if ci % 3 == 2 else "pos")
        v = judge_onehot(labs, res) if arr != "width2-array" else None
        if v:
            oracle_fail.append(((labs, arr, scale), res, v))
        good = res[0] == "ok" and all(isinstance(x, int) and 0 <= x < 4999 for row in res[1] for x in row)
        exp = "None" if res[0] != "ok" else ("Some %s" % clist([clist([cn(x) for x in row]) for row in res[1]]) if good else "Some [[4999]]")
        if arr in ("column-array", "nested-list"):
            cont = "Column %s" % clist([zlist([l]) for l in labs])
        elif arr == "width2-array":
            cont = "Column %s" % clist([zlist([l, l + 1]) for l in labs])
        else:
            cont = "Flat %s" % zlist(labs)
        rows.append("(%s, %s)" % (cont, exp))
        recs.append({"labels": [l / scale for l in labs] if scale != 1 else labs, "container": arr, "implementation": res})
        if len(set(labs)) >= 2 and labs != sorted(labs):
            distinct.add((tuple(labs), arr))
    ctx.sample(recs[-1])
    mism = coq_compare(ctx, "onehot", ONEHOT_EVAL, rows, lambda i: recs[i])
    ctx.tie("one_hot_encode/label-lists", "correspondence", len(rows), len(distinct), mism, exhaustive=True,
            note="every list of length <= 4 over {-1,0,2} + random lists (negative, unsorted, repeated, float quarters mapped to integers by x4), "
                 "each in the four container forms list (n,), ndarray (n,), column ndarray (n,1), nested list [[l],..] (read row by row); "
                 "3 malformed width-2 containers (raise / None); non-trivial = (labels, container) with >= 2 distinct labels, not already sorted")
    # ---- float label sets with close-but-distinct values (exact equality is the property; no tolerance)
    frows, frecs = [], []
    fdistinct = set()
    for si, vals in enumerate(float_label_sets(rng, ctx.quick)):
        for fi, form in enumerate(FLOAT_FORMS):
            arg, seen = make_float_labels(vals, form)
            res = run_onehot_impl(seen, form, 1, call="kw" if (si + fi) % 4 == 3 else "pos", arg=arg)
            v = judge_onehot(seen, res)
            if v:
                oracle_fail.append(((seen, form, "float"), res, v))
            keys = [float_key(x) for x in seen]
            good = res[0] == "ok" and all(isinstance(x, int) and 0 <= x < 4999 for row in res[1] for x in row)
            exp = "None" if res[0] != "ok" else ("Some %s" % clist([clist([cn(x) for x in row]) for row in res[1]]) if good else "Some [[4999]]")
            cont = ("Column %s" % clist([zlist([k]) for k in keys])) if form in ("col-f64", "col-f32", "nested") else ("Flat %s" % zlist(keys))
            frows.append("(%s, %s)" % (cont, exp))
            frecs.append({"labels": [repr(x) for x in seen], "container": form, "implementation": res})
            if len(set(seen)) >= 2:
                fdistinct.add((tuple(seen), form))
    ctx.sample(frecs[1])
    mism = coq_compare(ctx, "onehot_float", ONEHOT_EVAL, frows, lambda i: frecs[i])
    ctx.tie("one_hot_encode/close-float-labels", "correspondence", len(frows), len(fdistinct), mism,
            note="float label sets with close-but-distinct values (adjacent large ids, adjacent float32 / float64 values, tiny, subnormal, negative, "
                 "mixed magnitudes) as python list, float64 / float32 ndarray, (n,1) columns, nested list; the floats are handed to the model as exact "
                 "order-preserving integer keys (IEEE bit pattern), so distinct floats are distinct labels; non-trivial = >= 2 distinct labels")
    # string labels: oracle only (the model is over integers)
    s = ["b", "a", "c", "a"]
    D = _data()
    try:
        sres = ("ok", [[int(v) for v in r] for r in D.one_hot_encode(s)])
    except Exception as ex:
        sres = ("raise", type(ex).__name__)
    v = judge_onehot(s, sres)
    ctx.extra["one_hot_string_labels_(oracle_only)"] = {"labels": s, "implementation": sres, "verdict": v or "holds"}
    if v:
        ctx.witness("nn.utils.data.one_hot_encode", "unit-vectors/strings", {"kind": "onehot-str", "labels": s},
                    "row i = unit vector at the index of label i among the sorted distinct labels", {"implementation": sres, "verdict": v})
    return oracle_fail


# ------------------------------------------------------------------ the check
def part_signatures(ctx):
    """T: regenerate Gen/GenDataSigs.v (signatures of the public entry points, state attributes of DataLoader), self-check vs inspect"""
    from lib.py2coq import gen_sigs
    try:
        G = gen_sigs.generate_data()
    except Exception as ex:
        common.write_if_changed(gen_sigs.OUT_DATA, gen_sigs.refusal("data", gen_sigs.DATA, str(ex)))
        ctx.tie("translator/data.py signatures+state", "translator", 1, 0, [{"untranslatable": str(ex)}],
                note="the fail-closed signature/state census does not accept the current sources")
        return
    n, mism = gen_sigs.selfcheck(G, _data())
    ctx.tie("translator/data.py signatures+state", "translator", n, n, mism, exhaustive=True,
            note="every function/method of data.py: parameter names, ORDER, kinds, defaults vs inspect.signature; nothing defined in the module is missing; "
                 "state attributes: %s" % G["state"])


def run(ctx):
    part_signatures(ctx)
    ok_build, fails = ctx.build_props(extra_targets=["State/Data.vo"])
    f1 = part_split(ctx)
    part_malformed(ctx)
    f2 = part_loader(ctx)
    f3 = part_onehot(ctx)
    # ---- oracle verdicts -> witnesses (smallest first)
    if f1:
        (n, f, vf, seed, sform, call, fform), res, v = min(f1, key=lambda t: (t[0][0], t[0][3] is not None, t[0][2] is not None))
        ctx.witness("nn.utils.data.split_dataset", "partition",
                    {"kind": "split", "n": n, "test_split": f, "val_split": vf, "shuffle_seed": seed, "shuffle_argument": sform, "call": call, "fraction_form": fform},
                    "three sets of the floor-rule sizes partitioning the (sample,label) pairs, original order when shuffle is off",
                    {"implementation": res, "verdict": v})
    if f2:
        (n, b, wt, name, events, call), (outs, log), v = min(f2, key=lambda t: (t[0][0], t[0][1], t[0][2], len(t[0][4])))
        ctx.witness("nn.utils.data.DataLoader", "batches", {"kind": "loader", "n": n, "batch_size": b, "transform": wt, "constructor_call": call,
                                                            "history": name, "events": [list(e) for e in events]},
                    "floor(n/b) consecutive aligned batches of exactly b samples from the start of every loop, transform applied once per batch",
                    {"outputs": outs, "transform_log": log, "verdict": v})
    if f3:
        (labs, arr, scale), res, v = min(f3, key=lambda t: len(t[0][0]))
        ctx.witness("nn.utils.data.one_hot_encode", "unit-vectors",
                    {"kind": "onehot-float", "labels_hex": [float(x).hex() for x in labs], "labels": [repr(x) for x in labs], "container": arr} if scale == "float" else
                    {"kind": "onehot", "labels": labs, "container": arr, "scale": scale},
                    "row i = unit vector at the index of label i among the sorted distinct labels",
                    {"implementation": res, "verdict": v})
    ctx.extra["oracle_cases_judged"] = {"split": "all split cases", "loader": "all loop-shaped histories", "one_hot": "all label lists"}
    ctx.assumptions.append("data set given as sequences of equal length; batch size >= 1; fractions in [0,1]; integer (or order-isomorphic) labels; "
                           "np.random.shuffle produces a permutation (read back, not modelled); float32 conversion of the outputs is outside the model")


FINISH = dict(rule="split: exhaustive grid n<=12 (distinct non-trivial (n,k_test,k_val,perm)); loader: exhaustive n<=12 x b<=n+2 x histories "
                   "(distinct with >=1 full batch); one-hot: exhaustive short lists + random (distinct unsorted lists with >=2 labels)")


def replay(ctx, data):
    if data.get("kind") != "failing-input":
        print(json.dumps(data.get("broken"), indent=1)); return 1
    inp = data["input"]
    if inp["kind"] == "split":
        res = run_split_impl(inp["n"], inp["test_split"], inp["val_split"], inp["shuffle_seed"], sform=inp.get("shuffle_argument"),
                             call=inp.get("call", "kw"), fform=inp.get("fraction_form", "float"))
        v = judge_split(inp["n"], inp["test_split"], inp["val_split"], inp["shuffle_seed"], res)
    elif inp["kind"] == "loader":
        ev = [tuple(e) for e in inp["events"]]
        outs, log = run_loader_impl(inp["n"], inp["batch_size"], inp["transform"], ev, inp.get("constructor_call", "kw"))
        res = (outs, log)
        v = judge_loader(inp["n"], inp["batch_size"], inp["transform"], inp["history"], ev, outs, log)
    elif inp["kind"] == "onehot-float":
        vals = [float.fromhex(h) for h in inp["labels_hex"]]
        arg, seen = make_float_labels(vals, inp["container"])
        res = run_onehot_impl(seen, inp["container"], 1, arg=arg)
        v = judge_onehot(seen, res)
    elif inp["kind"] == "onehot-str":
        try:
            res = ("ok", [[int(v) for v in r] for r in _data().one_hot_encode(inp["labels"])])
        except Exception as ex:
            res = ("raise", type(ex).__name__)
        v = judge_onehot(inp["labels"], res)
    else:
        res = run_onehot_impl(inp["labels"], inp.get("container", inp.get("as_array")), inp["scale"])
        v = judge_onehot(inp["labels"], res)
    print("input   ", json.dumps(inp))
    print("observed", res)
    print("verdict ", v or "property holds on this input")
    return 1 if v else 0
