"""C07 — requires_grad propagation and grad-mode contexts behave like a stack.

Obligations : coq/Props/C07.v  (contexts: bracket-structure induction; flag resolution; wrapper summaries; release rule)
Ties        : K  exhaustive event sequences on the real no_grad/retain_grads objects vs State/Contexts.v
              K  random nested `with` programs (real with statements, exceptions) vs the model
              K  tensor creation / requires_grad setter tables vs the model
              T  wrapper summaries regenerated from functional.py / nn/functional.py (Gen/GenWrappers.v)
Oracle      : stack discipline judged directly on the implementation (mode after a with block == mode before).
"""
import itertools, json, os, re
from lib import common
from lib.common import cb, cn, clist

KINDS = ["KNoGrad", "KRetain"]


# ------------------------------------------------------------------ implementation side
def _impl():
    from lib import impl
    return impl


N_CALLS = 5


def make_caller(impl):
    """Library calls that are not context-manager events (the model's [Call]): built once per run while gradient mode is
    on; call(k) may be issued in any mode.  Refusals are caught here - they are part of the call."""
    np, sg = impl.np, impl.synapgrad
    x = sg.Tensor(np.array([1.0, -2.0, 3.0]), requires_grad=True)
    y = (x * 2.0).exp()
    root = y.sum()
    const = sg.Tensor(np.array([1.0, 2.0]))

    def call(k):
        k = k % N_CALLS
        if k == 0:
            root.backward()                                  # completes (graph built earlier, with tracking on)
        elif k == 1:
            try:
                y.backward(sg.Tensor(np.ones((2, 2))))       # refused after the graph walk: wrong gradient shape
            except (RuntimeError, ValueError, AssertionError):
                pass
        elif k == 2:
            try:
                (const * 3.0).backward()                     # refused: result does not require grad
            except RuntimeError:
                pass
        elif k == 3:
            t = sg.Tensor(np.array([0.5, 1.5]), requires_grad=True)
            r = (t * t + const).sum()
            if r.requires_grad:
                r.backward()
        else:
            y.backward(sg.Tensor(np.array([1.0, 0.0, -1.0])))  # non-scalar root with an explicit gradient
    return call


def run_events_impl(events):
    """events: list of ('New',k) | ('Enter',o) | ('Exit',o,exc) | ('Call',k). Returns (executed_events, observations)."""
    impl = _impl()
    impl.reset_modes()
    sg = impl.synapgrad
    objs = []
    obs = []
    done = []
    call = make_caller(impl)
    for e in events:
        try:
            if e[0] == "New":
                objs.append(sg.no_grad() if e[1] == 0 else sg.retain_grads())
            elif e[0] == "Call":
                call(e[1])
            elif e[0] == "Enter":
                objs[e[1]].__enter__()
            else:
                if e[2]:
                    ex = ValueError("x")
                    r = objs[e[1]].__exit__(ValueError, ex, None)
                else:
                    r = objs[e[1]].__exit__(None, None, None)
                if r:   # a truthy return would swallow the exception: not modelled -> treat as divergence
                    obs.append("swallow"); done.append(e); break
            obs.append((impl.grad_mode(), impl.retain_mode()))
            done.append(e)
        except Exception:
            obs.append(None)
            done.append(e)
            break
    impl.reset_modes()
    return done, obs


def ev_coq(e):
    if e[0] == "New":
        return "New %s" % KINDS[e[1]]
    if e[0] == "Enter":
        return "Enter %d" % e[1]
    if e[0] == "Call":
        return "Call"
    return "Exit %d %s" % (e[1], cb(e[2]))


def obs_coq(o):
    if o is None:
        return "None"
    return "Some (%s,%s)" % (cb(o[0]), cb(o[1]))


def enumerate_sequences(max_len, max_objs, rng):
    """All event sequences up to max_len whose object references exist (exception flag pseudo-random)."""
    out = []

    def rec(prefix, nobj):
        if prefix:
            out.append(list(prefix))
        if len(prefix) == max_len:
            return
        alphabet = []
        if nobj < max_objs:
            alphabet += [("New", 0), ("New", 1)]
        for o in range(nobj):
            alphabet.append(("Enter", o))
            alphabet.append(("Exit", o, rng.random() < 0.5))
        if prefix and prefix[-1][0] != "Call":
            alphabet.append(("Call", rng.randrange(N_CALLS)))
        for a in alphabet:
            prefix.append(a)
            rec(prefix, nobj + (1 if a[0] == "New" else 0))
            prefix.pop()
    rec([], 0)
    return out


# ---- real `with` programs -------------------------------------------------------------
class Prog:
    """random nested with-program; emits python source and the event list with observation points"""

    def __init__(self, rng, max_depth, max_nodes):
        self.rng = rng
        self.lines = []
        self.events = []      # (event, observed?)  observed -> a rec() directly follows the event in the source
        self.nobj = 0
        self.named = []
        self.kinds = []
        self.budget = max_nodes
        self.max_depth = max_depth
        self.blocks = []      # (enter_event_index, exit_event_index)

    def gen(self):
        self.lines.append("rec()")
        self.body(0, 0)
        return self

    def new_obj(self, ind, kind):
        name = "o%d" % self.nobj
        self.lines.append("    " * ind + "%s = sg.%s()" % (name, "no_grad" if kind == 0 else "retain_grads"))
        self.events.append((("New", kind), True))
        self.lines.append("    " * ind + "rec()")
        self.kinds.append(kind)
        self.named.append(self.nobj)
        self.nobj += 1
        return self.nobj - 1

    def body(self, depth, ind):
        n = self.rng.randint(0, 3)
        for _ in range(n):
            if self.budget <= 0:
                break
            self.budget -= 1
            c = self.rng.random()
            if c < 0.25 and self.nobj < 6:
                self.new_obj(ind, self.rng.randint(0, 1))
            elif c < 0.5:
                k = self.rng.randrange(N_CALLS)
                self.lines.append("    " * ind + "call(%d)" % k)
                self.events.append((("Call", k), True))
                self.lines.append("    " * ind + "rec()")
            elif depth < self.max_depth:
                self.block(depth, ind)
        self.lines.append("    " * ind + "pass")

    def block(self, depth, ind):
        rng = self.rng
        raises = rng.random() < 0.3
        pad = "    " * ind
        if self.named and rng.random() < 0.55:
            o = rng.choice(self.named)        # existing object, possibly active already (re-entrance)
            expr = "o%d" % o
            inline = False
        else:
            kind = rng.randint(0, 1)
            o = self.nobj
            self.kinds.append(kind); self.nobj += 1
            expr = "sg.%s()" % ("no_grad" if kind == 0 else "retain_grads")
            inline = True
        if raises:
            self.lines.append(pad + "try:")
            ind += 1; pad = "    " * ind
        if inline:
            self.events.append((("New", self.kinds[o]), False))
        self.lines.append(pad + "with %s:" % expr)
        ei = len(self.events)
        self.events.append((("Enter", o), True))
        self.lines.append(pad + "    rec()")
        self.body(depth + 1, ind + 1)
        if raises:
            self.lines.append(pad + "    raise Boom()")
        xi = len(self.events)
        self.events.append((("Exit", o, raises), True))
        self.blocks.append((ei, xi, self.kinds[o]))
        if raises:
            ind -= 1; pad = "    " * ind
            self.lines.append(pad + "except Boom:")
            self.lines.append(pad + "    rec()")
        else:
            self.lines.append(pad + "rec()")

    def source(self):
        return "def program(sg, rec, Boom, call):\n" + "\n".join("    " + l for l in self.lines) + "\n"


def run_prog_impl(p):
    impl = _impl()
    impl.reset_modes()
    obs = []

    class Boom(Exception):
        pass

    def rec():
        obs.append((impl.grad_mode(), impl.retain_mode()))
    ns = {}
    exec(p.source(), ns)
    err = None
    try:
        ns["program"](impl.synapgrad, rec, Boom, make_caller(impl))
    except Exception as ex:      # a well-bracketed program must not fail
        err = repr(ex)
    impl.reset_modes()
    return obs, err


def judge_prog(p, obs, err):
    """Independent oracle (no Coq model): stack discipline on the observed modes. Returns None or a description."""
    if err is not None:
        return "program raised %s" % err
    # obs[0] is the initial rec(); then one per observed event
    idx = {}
    k = 1
    for i, (e, seen) in enumerate(p.events):
        if seen:
            idx[i] = k; k += 1
    if k != len(obs):
        return "observation count mismatch"
    def before(i):
        j = i - 1
        while j >= 0 and j not in idx:
            j -= 1
        return obs[idx[j]] if j >= 0 else obs[0]
    for (ei, xi, kind) in p.blocks:
        b = before(ei)
        inside = obs[idx[ei]]
        after = obs[idx[xi]]
        want_inside = (False, b[1]) if kind == 0 else (b[0], True)
        if inside != want_inside:
            return "mode inside block is %s, expected %s" % (inside, want_inside)
        if after != b:
            return "mode after block is %s, mode before its Enter was %s" % (after, b)
    for i, (e, seen) in enumerate(p.events):
        if e[0] == "Call" and obs[idx[i]] != before(i):
            return "call(%d) (a backward call / tensor creation, no context manager involved) changed the modes from %s to %s" % (e[1], before(i), obs[idx[i]])
    return None


# ------------------------------------------------------------------ creation table
def creation_table_impl():
    impl = _impl()
    np = impl.np
    sg = impl.synapgrad
    rows = []
    for requested in (False, True):
        for gm in (False, True):
            for is_float, dt in ((True, np.float32), (True, np.float64), (True, np.float16), (False, np.int32), (False, np.int64), (False, np.bool_)):
                impl.reset_modes()
                impl.tensor_mod.gradient__ = gm
                try:
                    t = sg.Tensor(np.ones((2,), dtype=dt), requires_grad=requested)
                    res = bool(t.requires_grad)
                    # a result that does not require grad: no grad_fn, refuses backward, no .grad
                    if not res:
                        ok = t.grad_fn is None and t._grad is None
                        try:
                            t.backward(); ok = False
                        except RuntimeError:
                            pass
                        if not ok:
                            res = "bad-nonrequiring"
                except RuntimeError:
                    res = None
                impl.reset_modes()
                rows.append(((requested, gm, is_float), res, str(np.dtype(dt))))
                # the same request through the `dtype=` cast argument (float data cast to dt, int data cast to dt) and the factories
                for label, mk in (("list+dtype", lambda: sg.Tensor([1.0, 2.0], requires_grad=requested, dtype=dt)),
                                  ("floatarray+dtype", lambda: sg.Tensor(np.ones((2,), dtype=np.float32), requires_grad=requested, dtype=dt)),
                                  ("intarray+dtype", lambda: sg.Tensor(np.ones((2,), dtype=np.int64), requires_grad=requested, dtype=dt)),
                                  ("ones(dtype=)", lambda: sg.ones((2, 2), dtype=dt, requires_grad=requested)),
                                  ("tensor(dtype=)", lambda: sg.tensor([1, 2, 3], dtype=dt, requires_grad=requested)),
                                  ("arange(dtype=)", lambda: sg.arange(3, dtype=dt, requires_grad=requested))):
                    impl.reset_modes()
                    impl.tensor_mod.gradient__ = gm
                    try:
                        t = mk()
                        res2 = bool(t.requires_grad)
                        if str(t.dtype) != str(np.dtype(dt)):
                            res2 = "dtype %s" % t.dtype
                    except RuntimeError:
                        res2 = None
                    impl.reset_modes()
                    rows.append(((requested, gm, is_float), res2, "%s via %s" % (np.dtype(dt), label)))
    return rows


def setter_table_impl():
    impl = _impl()
    np = impl.np
    sg = impl.synapgrad
    rows = []
    for req in (False, True):
        for has_fn in (False, True):
            for is_float in (False, True):
                for value in (False, True):
                    impl.reset_modes()
                    # build a tensor in that state, if reachable through the API
                    if has_fn and not (req and is_float):
                        continue
                    if req and not is_float:
                        continue
                    base = sg.Tensor(np.ones((2,), dtype=np.float32 if is_float else np.int32), requires_grad=req and not has_fn)
                    if has_fn:
                        leaf = sg.Tensor(np.ones((2,), dtype=np.float32), requires_grad=True)
                        base = leaf * 2.0
                        assert base.grad_fn is not None
                    try:
                        base.requires_grad = value
                        res = bool(base.requires_grad)
                    except RuntimeError:
                        res = None
                    rows.append(((req, has_fn, is_float, value), res))
    impl.reset_modes()
    return rows


# ------------------------------------------------------------------ the check
HEADER = "From Coq Require Import List Bool Arith.\nImport ListNotations.\nFrom SG Require Import Base.Cmp State.Contexts.\n"


def parse_natlist(out):
    flat = " ".join(out.split())
    res = []
    for m in re.finditer(r"= \[(.*?)\]\s*:\s*list nat", flat):
        body = m.group(1).replace("%nat", "").strip()
        res.append([int(x) for x in body.split(";") if x.strip()])
    return res


def run(ctx):
    rng = ctx.rng
    ok_build, fails = ctx.build_props(extra_targets=["State/Contexts.vo"])

    # ---- tie 1: exhaustive event sequences --------------------------------------------
    max_len, max_objs = (5, 2) if ctx.quick else (6, 3)
    seqs = enumerate_sequences(max_len, max_objs, rng)
    seen = set()
    cases = []
    for s in seqs:
        done, obs = run_events_impl(s)
        key = repr(done)
        if key in seen:
            continue
        seen.add(key)
        cases.append((done, obs))
    nontrivial = sum(1 for d, o in cases if sum(1 for e in d if e[0] != "New") >= 2)
    ctx.sample({"events": [ev_coq(e) for e in cases[len(cases) // 2][0]], "observed_modes": cases[len(cases) // 2][1]})
    files = []
    CH = 500
    for k in range(0, len(cases), CH):
        chunk = cases[k:k + CH]
        body = ";\n ".join("(%s, %s)" % (clist([ev_coq(e) for e in d]),
                                          clist(["Some (true,true)" if o == "swallow" else obs_coq(o) for o in obs])) for d, obs in chunk)
        txt = HEADER + "Definition cases : list (list ev * list (option (bool*bool))) :=\n [%s].\n" % body
        txt += "Eval vm_compute in (mismatches (trace init) (list_eqb (option_eqb (pair_eqb Bool.eqb Bool.eqb))) cases).\n"
        files.append(("seq_%d" % (k // CH), txt))
    res = ctx.coq_eval_many(files)
    mism = []
    for (name, _), k in zip(files, range(0, len(cases), CH)):
        ok, out = res[name]
        lists = parse_natlist(out)
        if not ok or len(lists) != 1:
            mism.append({"file": name, "error": out[-400:]})
            continue
        for i in lists[0]:
            d, obs = cases[k + i]
            mism.append({"events": [ev_coq(e) for e in d], "implementation": obs})
    ctx.tie("contexts/event-sequences", "correspondence", len(cases), nontrivial, mism, exhaustive=True,
            note="all event sequences of length <= %d over <= %d objects (exception flag pseudo-random), truncated at the first raise" % (max_len, max_objs))

    # ---- tie 2: real with-programs (also judged by the oracle) ---------------------------
    nprog = 300 if ctx.quick else 3000
    progs = []
    distinct = set()
    oracle_fail = []
    for i in range(nprog):
        p = Prog(rng, max_depth=rng.randint(1, 5), max_nodes=rng.randint(2, 14)).gen()
        obs, err = run_prog_impl(p)
        verdict = judge_prog(p, obs, err)
        progs.append((p, obs, err))
        distinct.add(repr([e for e, _ in p.events]))
        if verdict:
            oracle_fail.append((p, obs, verdict))
    ctx.sample({"with_program": progs[0][0].source(), "observed_modes": progs[0][1]})
    files = []
    usable = [(p, obs) for p, obs, err in progs if err is None]
    for k in range(0, len(usable), CH):
        chunk = usable[k:k + CH]
        rows = []
        for p, obs in chunk:
            exp = []
            j = 1
            for e, seen_ in p.events:
                if seen_ and j < len(obs):
                    exp.append("Some (%s)" % obs_coq(obs[j])); j += 1
                else:
                    exp.append("None")
            rows.append("(%s, %s)" % (clist([ev_coq(e) for e, _ in p.events]), clist(exp)))
        txt = HEADER + """
Fixpoint agrees (t : list (option (bool*bool))) (e : list (option (option (bool*bool)))) : bool :=
  match t, e with
  | [], [] => true
  | x :: t', None :: e' => agrees t' e'
  | x :: t', Some y :: e' => option_eqb (pair_eqb Bool.eqb Bool.eqb) x y && agrees t' e'
  | _, _ => false
  end.
Definition cases : list (list ev * list (option (option (bool*bool)))) :=
 [%s].
Eval vm_compute in (mismatches (trace init) agrees cases).
""" % ";\n ".join(rows)
        files.append(("with_%d" % (k // CH), txt))
    res = ctx.coq_eval_many(files)
    mism = []
    for (name, _), k in zip(files, range(0, len(usable), CH)):
        ok, out = res[name]
        lists = parse_natlist(out)
        if not ok or len(lists) != 1:
            mism.append({"file": name, "error": out[-400:]}); continue
        for i in lists[0]:
            p, obs = usable[k + i]
            mism.append({"program": p.source(), "implementation": obs})
    for p, obs, err in progs:
        if err is not None:
            mism.append({"program": p.source(), "implementation_raised": err})
    ctx.tie("contexts/with-programs", "correspondence", len(progs), len(distinct), mism,
            note="random nested with-statements (objects re-entered while active, exits by exception), modes recorded after every event")

    # ---- tie 3: creation / setter tables -------------------------------------------------
    rows = creation_table_impl()
    items = []
    for (requested, gm, is_float), res, dt in rows:
        exp = "Raises" if res is None else ("Ok %s" % cb(res) if isinstance(res, bool) else "Ok true (* %s *)" % res)
        items.append("((%s,%s,%s), %s)" % (cb(requested), cb(gm), cb(is_float), exp))
    srows = setter_table_impl()
    sitems = []
    for (req, has_fn, is_float, value), res in srows:
        exp = "Raises" if res is None else "Ok %s" % cb(res)
        sitems.append("((%s,%s,%s,%s), %s)" % (cb(req), cb(has_fn), cb(is_float), cb(value), exp))
    txt = HEADER + """
Definition oeqb (a b : outcome bool) : bool :=
  match a, b with Ok x, Ok y => Bool.eqb x y | Raises, Raises => true | _, _ => false end.
Definition c1 : list ((bool*bool*bool) * outcome bool) := [%s].
Definition c2 : list ((bool*bool*bool*bool) * outcome bool) := [%s].
Eval vm_compute in (mismatches (fun '(r,g,f) => create r g f) oeqb c1).
Eval vm_compute in (mismatches (fun '(r,h,f,v) => set_requires r h f v) oeqb c2).
""" % ("; ".join(items), "; ".join(sitems))
    ok, out = ctx.coq_eval("tables", txt)
    lists = parse_natlist(out)
    mism = []
    if not ok or len(lists) != 2:
        mism.append({"error": out[-400:]})
    else:
        for i in lists[0]:
            mism.append({"create": rows[i][0], "dtype": rows[i][2], "implementation": rows[i][1]})
        for i in lists[1]:
            mism.append({"set_requires": srows[i][0], "implementation": srows[i][1]})
    # oracle (no Coq): the property's own statement of flag resolution, judged row by row on the implementation
    for (requested, gm, is_float), res, how in rows:
        want = None if (requested and gm and not is_float) else bool(requested and gm)
        if res != want:
            ctx.witness("Tensor.__init__/requires_grad", "flag-resolution", {"requested": requested, "grad_mode": gm, "floating_dtype": is_float, "construction": how},
                        "raises" if want is None else {"requires_grad": want},
                        "raises" if res is None else {"requires_grad": res} if isinstance(res, bool) else res)
            break
    for (req, has_fn, is_float, value), res in srows:
        is_leaf = (not req) or (not has_fn)
        want = None if (not is_leaf or (value and not is_float)) else bool(value)
        if res != want:
            ctx.witness("Tensor.requires_grad setter", "flag-resolution", {"requires_grad": req, "has_grad_fn": has_fn, "floating_dtype": is_float, "set_to": value},
                        "raises" if want is None else {"requires_grad": want}, "raises" if res is None else {"requires_grad": res})
            break
    ctx.tie("flags/creation+setter tables", "correspondence", len(rows) + len(srows), len(rows) + len(srows), mism, exhaustive=True,
            note="Tensor(..., requires_grad) for {requested}x{mode}x{6 dtypes}; requires_grad setter for every reachable (req, has_fn, float, value)")

    # ---- other parts (wrapper summaries, release rule) ------------------------------------
    for part in PARTS:
        part(ctx)

    # ---- oracle / violation search -----------------------------------------------------------
    for p, obs, verdict in oracle_fail[:3]:
        # shrink: regenerate smaller programs with the same seed family is overkill; report the smallest failing one
        pass
    if oracle_fail:
        p, obs, verdict = min(oracle_fail, key=lambda t: len(t[0].lines))
        ctx.witness("tensor.no_grad/retain_grads", "with-program", {"program": p.source()},
                    "mode after each with block equals the mode before it; inside: no_grad->gradient off, retain_grads->retain on",
                    {"observed_modes": obs, "verdict": verdict})
    ctx.extra["oracle_programs_judged"] = len(progs)


def _wrappers_part(ctx):
    from checks import wrappers
    wrappers.run_part(ctx)


def release_program(rng):
    """A small random program (pure data, so that it can be stored in a replay file and re-run)."""
    nleaf = rng.randint(1, 3)
    prog = {"leaves": [[rng.randint(1, 4), rng.random() < 0.8] for _ in range(nleaf)], "ops": [], "calls": []}
    if not any(r for _, r in prog["leaves"]):
        prog["leaves"][0][1] = True
    n = nleaf
    for _ in range(rng.randint(2, 7)):
        prog["ops"].append([rng.choice(["add", "mul", "scale", "sub"]), rng.randrange(n), rng.randrange(n), rng.random() < 0.25])
        n += 1
    under_ctx = rng.random() < 0.2
    for k in range(rng.randint(1, 3)):
        prog["calls"].append({"root": rng.randrange(nleaf, n), "extend": rng.random() < 0.5, "retain_mode": under_ctx and rng.random() < 0.5})
    return prog


def run_release_program(impl, prog):
    """Run the program on real tensors and judge the release rule after every backward.  Returns (backward calls, problems)."""
    np, sg = impl.np, impl.synapgrad
    impl.reset_modes()
    nodes = [sg.Tensor(np.array([float(v)]), requires_grad=bool(r)) for v, r in prog["leaves"]]
    marked = set()            # tensors the user marked with retain_grad() (not read back from the implementation)
    for kind, i, j, mark in prog["ops"]:
        a, b = nodes[i], nodes[j]
        t = {"add": lambda: a + b, "mul": lambda: a * b, "scale": lambda: a * 2.0, "sub": lambda: a - b}[kind]()
        nodes.append(t)
        if mark and t.requires_grad:
            t.retain_grad(); marked.add(id(t))
    fails, cases, history = [], 0, []
    for k, call in enumerate(prog["calls"]):
        root = nodes[call["root"]]
        if not root.requires_grad:
            continue
        if history and call["extend"]:
            root = history[-1] * 3.0           # a former root becomes an interior node of the next graph
        mode = bool(call["retain_mode"])
        if mode:
            with sg.retain_grads():
                root.backward()
        else:
            root.backward()
        history.append(root)
        cases += 1
        seen, stack, reach = set(), [root], []
        while stack:
            n = stack.pop()
            if id(n) in seen:
                continue
            seen.add(id(n)); reach.append(n)
            stack.extend(n._children)
        for t in reach:
            if not t.requires_grad:
                if t._grad is not None:
                    fails.append("backward #%d: a tensor that does not require grad acquired a .grad" % (k + 1))
                continue
            keeps = t.is_leaf or t is root or id(t) in marked or mode
            if keeps and t._grad is None:
                fails.append("backward #%d: a leaf / root / retained tensor has no .grad afterwards" % (k + 1))
            if not keeps and t._grad is not None:
                fails.append("backward #%d: an intermediate result (not the root, not marked with retain_grad, retain mode off) kept its .grad%s"
                             % (k + 1, " (it was the root of an earlier call)" if any(t is h for h in history[:-1]) else ""))
    impl.reset_modes()
    return cases, fails


def release_oracle(impl, rng, n=120):
    """Direct judgement of the release rule on real tensors (no Coq model).  Returns (backward calls, first failing (program, problems))."""
    total, first = 0, None
    for _ in range(n):
        prog = release_program(rng)
        cases, fails = run_release_program(impl, prog)
        total += cases
        if fails and (first is None or len(prog["ops"]) < len(first[0]["ops"])):
            first = (prog, fails)
    return total, first


def _release_part(ctx):
    from lib import engine_k as K
    from lib import impl
    ctx.build_props("Props/C07_release.v", extra_targets=["Engine/History.vo"])
    n = 150 if ctx.quick else 1500
    hs = [K.gen_history(ctx.rng) for _ in range(n)]
    execs, kept = [], []
    for steps in hs:
        E = K.execute(steps)
        if K.usable(E):
            execs.append(E); kept.append(steps)
    tm, cm, errs = K.run_corr(ctx, execs, "rel", chunk=240)
    mism = list(errs) + [{"history": K.describe(kept[i])} for i in tm]
    ctx.tie("release rule: engine histories (which buffers exist after every event)", "correspondence", len(execs),
            len({repr(k) for k in kept}), mism,
            note="random histories of graph construction / backward from any node / retain_grad / retain_grads / resets, compared with Engine/History.v after every event")
    cases, first = release_oracle(impl, ctx.rng)
    ctx.extra["release_oracle_backward_calls"] = cases
    if first:
        prog, fails = first
        ctx.witness("Tensor.backward/release", "release-rule", {"release_program": prog},
                    "after backward leaves keep their gradient; intermediate results other than the root release theirs unless retain_grad / retain_grads",
                    {"problems": fails[:3]})


PARTS = [_wrappers_part, _release_part]

FINISH = dict(rule="event sequences enumerated exhaustively up to the stated bound (distinct after truncation at the first raise; "
                   "non-trivial = at least two Enter/Exit events); with-programs: distinct event lists; tables: every row")


def replay(ctx, data):
    """Re-run a stored witness on the implementation."""
    if data.get("kind") != "failing-input":
        print(json.dumps(data.get("broken"), indent=1)); return 1
    if "release_program" in data["input"]:
        cases, fails = run_release_program(_impl(), data["input"]["release_program"])
        print("release rule:", fails[:3] if fails else "holds on this program")
        return 1 if fails else 0
    if "program" not in data["input"]:
        print("witness of the wrapper part:", json.dumps(data["input"])); 
        from checks import wrappers
        return wrappers.replay(ctx, data) if hasattr(wrappers, "replay") else 1
    src = data["input"]["program"]
    impl = _impl()
    impl.reset_modes()
    obs = []

    class Boom(Exception):
        pass
    ns = {}
    exec(src, ns)
    try:
        ns["program"](impl.synapgrad, lambda: obs.append((impl.grad_mode(), impl.retain_mode())), Boom)
    except Exception as ex:
        print("raised", repr(ex)); return 1
    print("observed", obs, "recorded", data["observed"])
    return 1 if [list(o) for o in obs] == [list(o) for o in data["observed"]["observed_modes"]] else 0
