"""Work package E1 - shape-changing / view / indexing ops of the tensor API.

    reshape, flatten, squeeze, unsqueeze, movedim (= moveaxis), transpose, unfold_dim (Tensor.unfold),
    __getitem__ / slice, clone, __iter__ / __len__

Not a registered check: `run_part(ctx)` is called by the checks of C01 (backward = exact VJP), C05 (forward =
NumPy/PyTorch semantics, acceptance) and C14 (flatten = reshape, adjacent movedim = transpose).

Obligations : coq/Props/C01_views.v, C05_views.v, C14_views.v   (models: coq/NumPy/Views.v, Indexing.v; spec: Spec.v)
Ties (K)    : the real ops are *probed*: forward on arange data through real Tensors must equal `probe (fwd_<op> ...)`,
              backward with the upstream gradient g = 1 + arange(out.size) must leave in x.grad exactly what the
              transcribed backward kernel (`bwd_<op>`) computes, which must also equal `scatter (phi of fwd)` evaluated
              from its definition; an exception must correspond to `None`.  All comparisons are made inside Coq
              (vm_compute, Base/Cmp.v mismatches), <= 500 cases per file.  Grids are exhaustive for small ranks.
Oracle      : independent of Coq, judged on the implementation:
              (a) PyTorch (and, for negative slice steps which torch lacks, Python's own range(n)[slice]) for forward
                  shapes / values / acceptance,
              (b) torch autograd and float64 central finite differences for .grad with a non-uniform upstream gradient.
              A witness needs torch to disagree (values, acceptance) or both torch and FD to disagree (gradients).
              Two places where the reference is NumPy rather than PyTorch (see notes/E1_views.md): reshape treats a single
              negative entry as the unknown dimension (ndarray.reshape), and movedim / transpose / unfold reject every dim
              of a 0-d operand (np.moveaxis / np.swapaxes: a 0-d array has no axis).
"""
import itertools, json, os, re, time
from lib import common
from lib.common import clist

HERE = os.path.dirname(os.path.abspath(__file__))


def _impl():
    from lib import impl
    return impl


# =============================================================================== case descriptors
# op   = ("reshape", (t...)) | ("flatten", s, e) | ("squeeze", None | int | tuple) | ("unsqueeze", int | tuple)
#      | ("movedim", s, d) | ("transpose", a, b) | ("unfold", d, size, step) | ("index", (item...)) | ("clone",)
# item = ("i", z) | ("s", a, b, c) | ("n",) | ("e",) | ("a", (z...))

def zc(z):
    return "(%d)%%Z" % z if z < 0 else "%d%%Z" % z


def zl(zs):
    return clist([zc(z) for z in zs])


def oz(z):
    return "None" if z is None else "(Some %s)" % zc(z)


def item_coq(it):
    k = it[0]
    if k == "i":
        return "IInt %s" % zc(it[1])
    if k == "s":
        return "ISlice %s %s %s" % (oz(it[1]), oz(it[2]), oz(it[3]))
    if k == "n":
        return "INew"
    if k == "e":
        return "IEll"
    return "IArr %s" % zl(it[1])


def op_coq(op):
    k = op[0]
    if k == "reshape":
        return "VReshape %s" % zl(op[1])
    if k == "flatten":
        return "VFlatten %s %s" % (zc(op[1]), zc(op[2]))
    if k == "squeeze":
        a = op[1]
        return "VSqueeze %s" % ("SqNone" if a is None else "(SqInt %s)" % zc(a) if isinstance(a, int) else "(SqTuple %s)" % zl(a))
    if k == "unsqueeze":
        a = op[1]
        return "VUnsqueeze %s" % ("(UInt %s)" % zc(a) if isinstance(a, int) else "(UTuple %s)" % zl(a))
    if k == "movedim":
        return "VMovedim %s %s" % (zc(op[1]), zc(op[2]))
    if k == "transpose":
        return "VTranspose %s %s" % (zc(op[1]), zc(op[2]))
    if k == "unfold":
        return "VUnfold %s %s %s" % (zc(op[1]), zc(op[2]), zc(op[3]))
    if k == "index":
        return "VIndex %s" % clist([item_coq(i) for i in op[1]])
    if k == "clone":
        return "VClone"
    raise ValueError(op)


def nl(ns):
    return clist([str(int(n)) for n in ns])


def fobs_coq(o):
    return "None" if o is None else "(Some (%s, %s))" % (nl(o[0]), nl(o[1]))


def bobs_coq(o):
    return "None" if o is None else "(Some (%s, %s))" % (nl(o[0]), zl(o[1]))


def py_key(items):
    o = []
    for it in items:
        k = it[0]
        if k == "i":
            o.append(it[1])
        elif k == "s":
            o.append(slice(it[1], it[2], it[3]))
        elif k == "n":
            o.append(None)
        elif k == "e":
            o.append(Ellipsis)
        else:
            o.append(list(it[1]))
    return o[0] if len(o) == 1 else tuple(o)     # x[k] and x[k1, k2, ...] as a user writes them


def op_py(op):
    """readable python form of the call (for samples and replays)"""
    k = op[0]
    if k == "index":
        def s(it):
            if it[0] == "i":
                return str(it[1])
            if it[0] == "s":
                return "%s:%s:%s" % tuple("" if v is None else v for v in it[1:])
            if it[0] == "n":
                return "None"
            if it[0] == "e":
                return "..."
            return str(list(it[1]))
        return "x[%s]" % ", ".join(s(i) for i in op[1])
    if k == "unfold":
        return "x.unfold(%d, %d, %d)" % op[1:]
    if k == "clone":
        return "x.clone()"
    return "x.%s(%s)" % (k, ", ".join(repr(a) for a in op[1:]))


# =============================================================================== the implementation
def apply_sg(x, op):
    k = op[0]
    if k == "reshape":
        return x.reshape(tuple(op[1]))
    if k == "flatten":
        return x.flatten(op[1], op[2])
    if k == "squeeze":
        return x.squeeze(op[1])
    if k == "unsqueeze":
        return x.unsqueeze(op[1])
    if k == "movedim":
        return x.movedim(op[1], op[2])
    if k == "transpose":
        return x.transpose(op[1], op[2])
    if k == "unfold":
        return x.unfold(op[1], op[2], op[3])
    if k == "index":
        return x[py_key(op[1])]
    if k == "clone":
        return x.clone()
    raise ValueError(op)


def size_of(sh):
    n = 1
    for d in sh:
        n *= d
    return n


def as_ints(arr):
    flat = arr.reshape(-1)
    out = [int(v) for v in flat]
    assert all(float(a) == float(b) for a, b in zip(out, flat)), "non-integer value"
    return out


def run_impl(sh, op, g=None):
    """forward on arange data, backward with g (default 1 + arange(out.size)).
    Returns (fobs, bobs, out_data, grad_data, err): obs = (shape, flat ints) or None when the call raised."""
    impl = _impl()
    np, sg = impl.np, impl.synapgrad
    impl.reset_modes()
    x = sg.Tensor(np.arange(size_of(sh), dtype=np.float64).reshape(sh), requires_grad=True)
    try:
        out = apply_sg(x, op)
        fobs = (tuple(out.shape), as_ints(np.asarray(out.data)))
    except Exception as ex:
        return None, None, None, None, "forward: %s: %s" % (type(ex).__name__, str(ex)[:120])
    gd = (1.0 + np.arange(out.data.size, dtype=np.float64)).reshape(out.shape) if g is None else np.asarray(g, dtype=np.float64).reshape(out.shape)
    try:
        out.backward(sg.Tensor(gd.copy()))
        gr = x._grad
        if gr is None:
            return fobs, None, np.asarray(out.data), None, "backward: x.grad is None"
        bobs = (tuple(gr.shape), as_ints(np.asarray(gr)) if g is None else None)
        return fobs, bobs, np.asarray(out.data), np.asarray(gr, dtype=np.float64), None
    except Exception as ex:
        return fobs, None, np.asarray(out.data), None, "backward: %s: %s" % (type(ex).__name__, str(ex)[:120])


# =============================================================================== oracle (independent of Coq)
def wrap(n, d):
    """torch's dim wrapping: 0-d tensors are treated as 1-d for the range check"""
    m = max(n, 1)
    if -m <= d < m:
        return d % m
    raise IndexError("dim")


def torch_apply(t, op):
    """The PyTorch semantics of the call; raises when PyTorch (or the documented semantics) rejects."""
    import torch
    k = op[0]
    n = t.dim()
    if k == "reshape":
        # mirrors ndarray.reshape: at most one negative entry, which stands for the unknown dimension (torch: only -1)
        tgt = tuple(op[1])
        if sum(1 for d in tgt if d < 0) > 1:
            raise ValueError("more than one unknown dimension")
        return t.reshape(tuple(-1 if d < 0 else d for d in tgt))
    if k in ("movedim", "transpose", "unfold") and n == 0:
        # NumPy's axis rule (np.moveaxis / np.swapaxes): a 0-d array has no axis; the library promises nothing else
        raise IndexError("0-d tensor has no axis")
    if k == "flatten":
        return t.flatten(op[1], op[2])
    if k == "squeeze":
        a = op[1]
        if a is None:
            return t.squeeze()
        return t.squeeze(a if isinstance(a, int) else tuple(a))
    if k == "unsqueeze":
        a = op[1]
        if isinstance(a, int):
            return t.unsqueeze(a)
        # documented as int | tuple; torch has no tuple form: positions in the *result*, distinct
        m = n + len(a)
        ks = []
        for d in a:
            if not (-m <= d < m):
                raise IndexError("dim")
            ks.append(d % m)
        if len(set(ks)) != len(ks):
            raise RuntimeError("repeated dim")
        for p in sorted(ks):
            t = t.unsqueeze(p)
        return t
    if k == "movedim":
        return t.movedim(op[1], op[2])
    if k == "transpose":
        return t.transpose(op[1], op[2])
    if k == "unfold":
        d, size, step = op[1:]
        if size <= 0:          # the op's own documentation: size and step must be positive
            raise ValueError("size")
        return t.unfold(d, size, step)
    if k == "clone":
        return t.clone()
    if k == "index":
        return torch_index(t, op[1])
    raise ValueError(op)


def torch_index(t, items):
    """NumPy-style indexing expressed with torch: negative steps through index_select, integers next to integer
    arrays as length-1 arrays (NumPy treats them as advanced indices)."""
    import torch
    n = t.dim()
    if sum(1 for it in items if it[0] == "e") > 1:
        raise IndexError("ellipsis")
    used = sum(1 for it in items if it[0] in "isa")
    if used > n:
        raise IndexError("too many")
    has_arr = any(it[0] == "a" for it in items)
    # stage 1: slices (any step) by index_select on their axis, via Python's own range(n)[slice]
    ax = 0
    ell_width = n - used
    saw_ell = False
    for it in items:
        if it[0] == "e":
            ax += ell_width; saw_ell = True
        elif it[0] == "s":
            if it[3] == 0:
                raise ValueError("step 0")
            sel = list(range(t.shape[ax]))[slice(it[1], it[2], it[3])]
            t = t.index_select(ax, torch.tensor(sel, dtype=torch.long))
            ax += 1
        elif it[0] in "ia":
            ax += 1
    # stage 2: the rest with torch's indexing, slices now full
    key = []
    for it in items:
        if it[0] == "e":
            key.append(Ellipsis)
        elif it[0] == "s":
            key.append(slice(None))
        elif it[0] == "n":
            key.append(None)
        elif it[0] == "i":
            key.append([it[1]] if has_arr else it[1])
        else:
            key.append(list(it[1]))
    # bounds (torch wraps like NumPy, but check explicitly so that the verdict does not depend on torch's messages)
    ax = 0
    for it in items:
        if it[0] == "e":
            ax += ell_width
        elif it[0] == "i":
            if not (-t.shape[ax] <= it[1] < t.shape[ax]):
                raise IndexError("int")
            ax += 1
        elif it[0] == "a":
            for z in it[1]:
                if not (-t.shape[ax] <= z < t.shape[ax]):
                    raise IndexError("arr")
            ax += 1
        elif it[0] == "s":
            ax += 1
    r = t[tuple(key)]
    if has_arr and saw_ell and ell_width == 0:
        # NumPy lets an Ellipsis separate advanced indices even when it stands for no axis; torch ignores an empty one.
        adv = [i for i, it in enumerate(items) if it[0] in "ia"]
        between = items[adv[0]:adv[-1] + 1]
        if any(it[0] == "e" for it in between) and not any(it[0] in "sn" for it in between):
            p = sum(1 for it in items[:adv[0]] if it[0] in "sn")
            r = r.movedim(p, 0)
    return r


def oracle_forward(sh, op):
    """(shape, flat ints) per PyTorch semantics, or None if rejected."""
    import torch
    t = torch.arange(size_of(sh), dtype=torch.float64).reshape(sh)
    try:
        r = torch_apply(t, op)
        return (tuple(r.shape), [int(v) for v in r.reshape(-1).tolist()])
    except Exception:
        return None


def oracle_grad(sh, op, g):
    """torch autograd gradient of <g, op(x)> w.r.t. x (flat floats), or None."""
    import torch
    t = torch.arange(size_of(sh), dtype=torch.float64).reshape(sh).requires_grad_(True)
    try:
        r = torch_apply(t, op)
        gt = torch.tensor(g, dtype=torch.float64).reshape(r.shape)
        r.backward(gt)
        return t.grad.reshape(-1).tolist()
    except Exception:
        return None


def fd_grad(sh, op, g):
    """float64 central differences of x -> <g, op(x)> on the implementation itself (h = 0.5: the ops are linear)."""
    impl = _impl()
    np, sg = impl.np, impl.synapgrad
    n = size_of(sh)
    base = np.arange(n, dtype=np.float64)
    ga = np.asarray(g, dtype=np.float64)
    res = []
    h = 0.5
    for k in range(n):
        vals = []
        for sgn in (+1, -1):
            d = base.copy(); d[k] += sgn * h
            out = apply_sg(sg.Tensor(d.reshape(sh)), op)
            vals.append(float((np.asarray(out.data, dtype=np.float64).reshape(-1) * ga.reshape(-1)).sum()))
        res.append((vals[0] - vals[1]) / (2 * h))
    return res


def judge(ctx, sh, op, fobs, bobs_shape, err):
    """Judge one case on the implementation with the oracle. Returns a witness dict or None."""
    exp = oracle_forward(sh, op)
    site = "Tensor." + op[0]
    if (exp is None) != (fobs is None):
        return dict(site=site, klass=accept_class(sh, op, fobs is not None),
                    input={"shape": list(sh), "call": op_py(op), "op": op},
                    expected="rejected with an exception" if exp is None else {"shape": list(exp[0]), "values": exp[1]},
                    observed="raised (%s)" % err if fobs is None else {"shape": list(fobs[0]), "values": fobs[1]})
    if exp is None:
        return None
    if (tuple(exp[0]), exp[1]) != (tuple(fobs[0]), fobs[1]):
        return dict(site=site, klass=value_class(sh, op),
                    input={"shape": list(sh), "call": op_py(op), "op": op},
                    expected={"shape": list(exp[0]), "values": exp[1]},
                    observed={"shape": list(fobs[0]), "values": fobs[1]})
    # gradient with a non-uniform upstream gradient
    nout = size_of(fobs[0])
    g = [float(((7 * k * k + 3 * k) % 11) - 4 + (k % 3) * 0.5) for k in range(nout)]
    _, b2, _, gr, err2 = run_impl(sh, op, g=g)
    tg = oracle_grad(sh, op, g)
    got = None if gr is None else [float(v) for v in gr.reshape(-1)]
    shape_ok = b2 is not None and tuple(b2[0]) == tuple(sh)
    if tg is not None and (got is None or not shape_ok or any(abs(a - b) > 1e-9 for a, b in zip(got, tg)) or len(got) != len(tg)):
        fd = fd_grad(sh, op, g)
        if got is None or not shape_ok or len(got) != len(fd) or any(abs(a - b) > 1e-6 for a, b in zip(got, fd)):
            return dict(site=site + "/backward", klass="gradient",
                        input={"shape": list(sh), "call": op_py(op), "op": op, "upstream_gradient": g},
                        expected={"torch_autograd": tg, "central_differences": fd},
                        observed=("raised (%s)" % err2) if got is None else {"grad_shape": list(b2[0]) if b2 else None, "grad": got})
    return None


def accept_class(sh, op, accepted):
    """failing-input class of an acceptance deviation"""
    return "illegal arguments accepted" if accepted else "legal arguments rejected"


def value_class(sh, op):
    return "value"


# =============================================================================== case generation
def shapes_upto(max_rank, sizes):
    out = []
    for n in range(max_rank + 1):
        out.extend(itertools.product(sizes, repeat=n))
    return out


def gen_cases(ctx):
    rng = ctx.rng
    quick = ctx.quick
    sizes = (1, 2, 3) if quick else (1, 2, 3, 4)
    cases = {}       # name -> list of (sh, op)

    def add(name, sh, op):
        cases.setdefault(name, []).append((tuple(sh), op))

    R = 3 if quick else 4
    shapes = shapes_upto(R, sizes)
    if not quick:
        shapes = shapes_upto(3, sizes) + [s for s in itertools.product(sizes, repeat=4) if rng.random() < 0.25]
        shapes += [tuple(rng.choice(sizes) for _ in range(5)) for _ in range(12)]
    for sh in shapes:
        n = len(sh)
        axes = range(-n - 1, n + 1)
        add("clone", sh, ("clone",))
        # --- movedim / transpose / flatten: every pair, incl. the out-of-range ring
        for s in axes:
            for d in axes:
                add("movedim", sh, ("movedim", s, d))
                add("transpose", sh, ("transpose", s, d))
                add("flatten", sh, ("flatten", s, d))
        # --- squeeze: None, every int, every tuple of <= 2 dims (with duplicates), some longer
        add("squeeze", sh, ("squeeze", None))
        add("squeeze", sh, ("squeeze", ()))
        for a in range(-n - 2, n + 2):
            add("squeeze", sh, ("squeeze", a))
            add("squeeze", sh, ("squeeze", (a,)))
        for a in axes:
            for b in axes:
                add("squeeze", sh, ("squeeze", (a, b)))
        for _ in range(3):
            add("squeeze", sh, ("squeeze", tuple(rng.randint(-n - 1, n) for _ in range(rng.randint(3, 4)))))
        if n > 0:
            add("squeeze", sh, ("squeeze", tuple(range(n))))
            add("squeeze", sh, ("squeeze", tuple(range(-n, 0))))
        # --- unsqueeze: every int, every pair, some triples
        for a in range(-n - 2, n + 2):
            add("unsqueeze", sh, ("unsqueeze", a))
            add("unsqueeze", sh, ("unsqueeze", (a,)))
        add("unsqueeze", sh, ("unsqueeze", ()))
        w = 2 if quick else 3
        if not (quick and n == 3 and len(set(sh)) == 3):      # quick: pairs on 21 of the 27 rank-3 shapes
            for a in range(-n - w, n + w):
                for b in range(-n - w, n + w):
                    if quick and n == 3 and (a + 2 * b + sum(sh)) % 2:   # ... and every other pair (acceptance depends on the rank only)
                        continue
                    add("unsqueeze", sh, ("unsqueeze", (a, b)))
        for _ in range(4):
            add("unsqueeze", sh, ("unsqueeze", tuple(rng.randint(-n - 3, n + 2) for _ in range(3))))
        # --- unfold: every (dimension, size, step) with size, step in 0..4 (0: rejected)
        for d in axes:
            inr = -n <= d < n
            for size in range(0, 5):
                for step in range(0, 5):
                    malformed = (not inr) or size == 0 or step == 0
                    if quick and malformed and not ((size, step) in ((1, 1), (2, 1), (0, 1), (1, 0), (0, 0)) and (inr or size * step > 0)):
                        continue
                    add("unfold", sh, ("unfold", d, size, step))
        # --- reshape: every factorisation target incl. one -1, plus bad ones
        total = size_of(sh)
        targets = set()
        for r in range(0, 4):
            for t in itertools.product((1, 2, 3, 4, 6, 9), repeat=r):
                if size_of(t) == total:
                    targets.add(t)
                    for p in range(r):
                        targets.add(t[:p] + (-1,) + t[p + 1:])
        targets = sorted(targets)
        if len(targets) > 40:
            targets = rng.sample(targets, 40)
        for t in targets:
            add("reshape", sh, ("reshape", t))
        bad = [(-1, -1), (total + 1,), (-1, total + 1), (-2,), (-3, 1), (0,), (0, -1), (2, -1, 2), (5, -1), ()]
        for t in bad:
            add("reshape", sh, ("reshape", t))

    # larger dims for unfold (more windows than the 1..3 grid gives) and zero-size dims
    for L in (5, 6, 7, 9):
        for size in range(1, 5):
            for step in range(1, 5):
                add("unfold", (L,), ("unfold", 0, size, step))
                add("unfold", (2, L), ("unfold", -1, size, step))
                add("unfold", (L, 2), ("unfold", 0, size, step))
                if not quick:
                    add("unfold", (2, L, 2), ("unfold", 1, size, step))
    for sh in [(0,), (0, 3), (3, 0), (2, 0, 3), (0, 3, 2)]:
        n = len(sh)
        for s in range(-n, n):
            for e in range(-n, n):
                add("zero-size", sh, ("flatten", s, e))
                add("zero-size", sh, ("movedim", s, e))
                add("zero-size", sh, ("transpose", s, e))
        for t in [(0,), (-1,), (0, -1), (-1, 3), (3, 0), (0, 3), (-1, 0), (2, 0)]:
            add("zero-size", sh, ("reshape", t))
        add("zero-size", sh, ("squeeze", None))
        add("zero-size", sh, ("unsqueeze", 0))
        add("zero-size", sh, ("clone",))
        add("zero-size", sh, ("index", (("s", None, None, None),)))
        add("zero-size", sh, ("index", (("e",), ("n",))))
        add("zero-size", sh, ("unfold", 0, 1, 1))

    # --- indexing
    vals = [None] + list(range(-4, 5))
    steps = [None, 1, -1, 2, -2, 3, -3, 0]
    for L in sizes:
        for a in vals:
            for b in vals:
                for c in steps:
                    add("slice-1d", (L,), ("index", (("s", a, b, c),)))
    for L in (4, 5, 7):
        for a in vals:
            for b in vals:
                for c in (None, -1, 2, -2, 3, -3):
                    if rng.random() < (0.25 if quick else 1.0):
                        add("slice-1d", (L,), ("index", (("s", a, b, c),)))

    def ropt():
        return None if rng.random() < 0.35 else rng.randint(-4, 4)

    def ritem(n):
        c = rng.random()
        if c < 0.22:
            return ("i", rng.randint(-3, 3) if rng.random() < 0.3 else rng.randint(-2, 1))
        if c < 0.55:
            return ("s", ropt(), ropt(), rng.choice([None, None, 1, -1, 2, -2, 3, -3, 0] if rng.random() < 0.15 else [None, None, 1, -1, 2, -2, 3, -3]))
        if c < 0.68:
            return ("n",)
        if c < 0.80:
            return ("e",)
        ln = rng.randint(1, 4)
        return ("a", tuple(rng.randint(-3, 2) if rng.random() < 0.2 else rng.randint(-1, 0) if rng.random() < 0.3 else rng.randint(-2, 1) for _ in range(ln)))

    nidx = 1500 if quick else 12000
    seen = set()
    tries = 0
    while len(seen) < nidx and tries < nidx * 20:
        tries += 1
        n = rng.randint(0, 3 if quick else 4)
        sh = tuple(rng.choice(sizes) for _ in range(n))
        k = rng.randint(0, n + 2)
        items = tuple(ritem(n) for _ in range(k))
        if sum(1 for it in items if it[0] == "e") > 1 and rng.random() < 0.9:
            continue
        key = (sh, items)
        if key in seen:
            continue
        seen.add(key)
        add("index", sh, ("index", items))
    # systematic small ones: every single item / pair on small shapes
    basics = [("i", z) for z in range(-4, 4)] + [("n",), ("e",), ("s", None, None, None), ("s", 1, None, None), ("s", None, None, -1),
              ("s", None, -1, 2), ("a", (0, 0)), ("a", (-1, 0, -1)), ("a", (0,)), ("a", (2,)), ("a", (0, 1, 0, 1))]
    for sh in (shapes_upto(2, (2, 3)) + [(2, 3, 2), (1,)] if quick else shapes_upto(3, (2, 3)) + [(1,), (1, 1), (3, 1), (1, 2, 1)]):
        for a in basics:
            add("index", sh, ("index", (a,)))
            for b in basics:
                add("index", sh, ("index", (a, b)))
                if len(sh) == 3 and not quick:
                    for c in basics[::2]:
                        add("index", sh, ("index", (a, b, c)))
    # de-duplicate per family
    for k in list(cases):
        seen = set(); out = []
        for c in cases[k]:
            if c not in seen:
                seen.add(c); out.append(c)
        cases[k] = out
    return cases


# =============================================================================== iteration
def iter_sequences(ctx):
    """event sequences over <= 3 live iterators: ('new',) | ('next', k)"""
    rng = ctx.rng
    seqs = []
    # all sequences of length <= L over the alphabet {new, next 0, next 1} starting with new
    L = 6 if ctx.quick else 8
    alpha = [("new",), ("next", 0), ("next", 1)]
    for ln in range(1, L + 1):
        for s in itertools.product(alpha, repeat=ln):
            if s[0] != ("new",):
                continue
            if ln > 5 and rng.random() > (0.25 if ctx.quick else 0.2):
                continue
            seqs.append(list(s))
    for _ in range(150 if ctx.quick else 1500):
        n = rng.randint(3, 14)
        s = [("new",)]
        live = 1
        for _ in range(n):
            if live < 3 and rng.random() < 0.2:
                s.append(("new",)); live += 1
            else:
                s.append(("next", rng.randint(0, live)))      # live: one past the end -> error
        seqs.append(s)
    return seqs


def run_iter_impl(sh, evs):
    impl = _impl()
    np, sg = impl.np, impl.synapgrad
    x = sg.Tensor(np.arange(size_of(sh), dtype=np.float64).reshape(sh))
    its = []
    obs = []
    for e in evs:
        if e[0] == "new":
            try:
                its.append(iter(x)); obs.append("ICreated")
            except Exception:
                obs.append("IErr")
        else:
            if e[1] >= len(its):
                obs.append("IErr"); continue
            try:
                r = next(its[e[1]])
                obs.append("IRow %s %s" % (nl(r.shape), nl(as_ints(np.asarray(r.data)))))
            except StopIteration:
                obs.append("IStop")
            except Exception:
                obs.append("IErr")
    return obs


def iteration_oracle(ctx):
    """Judged directly on the implementation (and compared with torch): nested and simultaneous iterations each
    yield all rows; len = shape[0]."""
    impl = _impl()
    import torch
    np, sg = impl.np, impl.synapgrad
    for sh in [(3,), (3, 2), (2, 2, 2), (1, 3), (4,)]:
        x = sg.Tensor(np.arange(size_of(sh), dtype=np.float64).reshape(sh))
        t = torch.arange(size_of(sh), dtype=torch.float64).reshape(sh)
        want_pairs = [(a.reshape(-1).tolist(), b.reshape(-1).tolist()) for a in t for b in t]
        want_zip = [(a.reshape(-1).tolist(), b.reshape(-1).tolist()) for a, b in zip(t, t)]
        try:
            got_pairs = [(np.asarray(a.data).reshape(-1).tolist(), np.asarray(b.data).reshape(-1).tolist()) for a in x for b in x]
            got_zip = [(np.asarray(a.data).reshape(-1).tolist(), np.asarray(b.data).reshape(-1).tolist()) for a, b in zip(x, x)]
            got_len = len(x)
        except Exception as ex:
            got_pairs = got_zip = "raised %r" % ex; got_len = None
        if got_pairs != want_pairs:
            ctx.witness("Tensor.__iter__", "nested iteration", {"shape": list(sh), "program": "[(a, b) for a in x for b in x]"},
                        {"pairs": len(want_pairs), "first": want_pairs[:3]},
                        {"pairs": len(got_pairs) if isinstance(got_pairs, list) else got_pairs, "first": got_pairs[:3]})
            return
        if got_zip != want_zip:
            ctx.witness("Tensor.__iter__", "simultaneous iteration", {"shape": list(sh), "program": "list(zip(x, x))"},
                        {"pairs": want_zip}, {"pairs": got_zip})
            return
        if got_len != len(t):
            ctx.witness("Tensor.__len__", "len", {"shape": list(sh)}, len(t), got_len)
            return


# =============================================================================== Coq side
HEADER = ("From Coq Require Import List Bool Arith ZArith.\nImport ListNotations.\n"
          "From SG Require Import Base.Cmp NumPy.Tensor NumPy.ViewsAux NumPy.Views NumPy.Indexing NumPy.ViewsRun.\n")


def parse_natlists(out):
    flat = " ".join(out.split())
    res = []
    for m in re.finditer(r"= \[(.*?)\]\s*:\s*list nat", flat):
        body = m.group(1).replace("%nat", "").strip()
        res.append([int(x) for x in body.split(";") if x.strip()])
    return res


MODEL_VOS = ["NumPy/ViewsAux.vo", "NumPy/Views.vo", "NumPy/Indexing.vo", "NumPy/ViewsRun.vo", "NumPy/Spec.vo"]


def correspond(ctx, family, rows, with_scatter=True, chunk=500):
    """rows: list of (sh, op, fobs, bobs).  Returns the list of mismatching rows (index, which)."""
    files = []
    for k in range(0, len(rows), chunk):
        part = rows[k:k + chunk]
        body = ";\n ".join("(%s, %s, %s, %s)" % (nl(sh), "(%s)" % op_coq(op), fobs_coq(f), bobs_coq(b)) for sh, op, f, b in part)
        txt = HEADER + ("Definition cases : list (shape * vop * option (shape * list nat) * option (shape * list Z)) :=\n [%s].\n" % body)
        txt += "Definition fc := map (fun c => match c with (sh, op, f, b) => ((sh, op), f) end) cases.\n"
        txt += "Definition bc := map (fun c => match c with (sh, op, f, b) => ((sh, op), b) end) cases.\n"
        txt += "Eval vm_compute in (mismatches (fun p => fwd_obs (fst p) (snd p)) fobs_eqb fc).\n"
        txt += "Eval vm_compute in (mismatches (fun p => bwd_obs_std (fst p) (snd p)) bobs_eqb bc).\n"
        if with_scatter:
            txt += "Eval vm_compute in (mismatches (fun p => scatter_obs_std (fst p) (snd p)) bobs_eqb bc).\n"
        files.append(("views_%s_%d" % (family.replace("-", "_"), k // chunk), txt))
    res = ctx.coq_eval_many(files)
    bad = []
    for (name, _), k in zip(files, range(0, len(rows), chunk)):
        ok, out = res[name]
        lists = parse_natlists(out)
        if not ok or len(lists) != (3 if with_scatter else 2):
            bad.append((None, "coq", {"file": name, "error": out[-500:]}))
            continue
        for which, lst in zip(("forward", "backward", "scatter"), lists):
            for i in lst:
                bad.append((k + i, which, None))
    return bad


def nontrivial_case(sh, op, fobs):
    """index map is not the identity on the flat data (or the call is rejected: acceptance is the content)"""
    if fobs is None:
        return True
    return list(fobs[1]) != list(range(size_of(sh))) or tuple(fobs[0]) != tuple(sh)


def run_part(ctx, prop=None, props_rel=None):
    """prop in {"C01", "C05", "C14"} (default: first three characters of ctx.pid)."""
    t0 = time.time()
    prop = (prop or ctx.pid[:3]).upper()
    props_rel = props_rel or "Props/%s_views.v" % prop
    if os.path.exists(os.path.join(common.COQ, props_rel)):
        ctx.build_props(props_rel=props_rel, extra_targets=MODEL_VOS)
    else:
        ok, log = common.coq_make(MODEL_VOS)
        if not ok:
            ctx.broken.append({"kind": "proof", "what": "model files of the view ops do not build", "detail": log[-600:]})
            return

    cases = gen_cases(ctx)
    total = 0
    witnesses = []
    for family in sorted(cases):
        rows = []
        errs = []
        for sh, op in cases[family]:
            fobs, bobs, _, _, err = run_impl(sh, op)
            rows.append((sh, op, fobs, bobs)); errs.append(err)
        total += len(rows)
        big = any(size_of(sh) * size_of(f[0]) > 4096 for sh, _, f, _ in rows if f is not None)
        bad = correspond(ctx, family, rows, with_scatter=not big)
        mism = []
        for i, which, info in bad:
            if i is None:
                mism.append(info); continue
            sh, op, f, b = rows[i]
            mism.append({"shape": list(sh), "call": op_py(op), "part": which,
                         "implementation": {"forward": f, "grad": b, "error": errs[i]}})
        acc = sum(1 for r in rows if r[2] is not None)
        ctx.tie("views/%s" % family, "correspondence", len(rows),
                sum(1 for sh, op, f, b in rows if nontrivial_case(sh, op, f)), mism,
                exhaustive=family not in ("index", "reshape", "zero-size"),
                note="%d accepted, %d rejected; forward probe, backward kernel and scatter compared in Coq" % (acc, len(rows) - acc))
        if len(ctx.samples) < 10 and rows:
            sh, op, f, b = rows[len(rows) // 2]
            ctx.sample({"shape": list(sh), "call": op_py(op), "forward": f, "grad_for_g=1+arange": b})
        # ---- oracle: judged on the implementation, independent of the Coq model
        suspicious = {i for i, _, _ in bad if i is not None}
        for i, (sh, op, f, b) in enumerate(rows):
            w = judge(ctx, sh, op, f, None, errs[i])
            if w is not None:
                witnesses.append((i in suspicious, size_of(sh), len(sh) * 10 + len(op_py(op)), w))
        ctx.log("views/%s: %d cases, %d mismatches, %.1fs" % (family, len(rows), len(mism), time.time() - t0))

    # ---- iteration
    seqs = iter_sequences(ctx)
    irows = []
    for sh in [(), (3,), (2, 2), (1, 2, 2)]:
        for s in (seqs if len(sh) == 1 else seqs[::7]):
            irows.append((sh, s, run_iter_impl(sh, s)))
    files = []
    CH = 500
    for k in range(0, len(irows), CH):
        part = irows[k:k + CH]
        body = ";\n ".join("((%s, %s), %s)" % (nl(sh), clist(["NewIter" if e[0] == "new" else "Next %d" % e[1] for e in s]),
                                                clist(["(%s)" % o for o in obs])) for sh, s, obs in part)
        txt = HEADER + "Definition cases : list ((shape * list iev) * list iobs') :=\n [%s].\n" % body
        txt += "Eval vm_compute in (mismatches (fun p => iter_obs (fst p) (snd p)) (list_eqb iobs_eqb) cases).\n"
        files.append(("views_iter_%d" % (k // CH), txt))
    res = ctx.coq_eval_many(files)
    mism = []
    for (name, _), k in zip(files, range(0, len(irows), CH)):
        ok, out = res[name]
        lists = parse_natlists(out)
        if not ok or len(lists) != 1:
            mism.append({"file": name, "error": out[-400:]}); continue
        for i in lists[0]:
            sh, s, obs = irows[k + i]
            mism.append({"shape": list(sh), "events": s, "implementation": obs})
    ctx.tie("views/iteration", "correspondence", len(irows), sum(1 for _, s, _ in irows if sum(1 for e in s if e[0] == "new") >= 2), mism,
            note="event sequences new-iterator / next(k) over up to 3 live iterators of one tensor; rows compared with x[r]")
    iteration_oracle(ctx)

    # ---- C14: the identities on the implementation itself (no external oracle needed)
    if prop == "C14":
        identities(ctx)

    # ---- report oracle witnesses: those on cases where a tie broke first, then the smallest
    # prefer cases where a tie broke, then non-degenerate small tensors (no 0-d / size-1 / empty), then short calls
    witnesses.sort(key=lambda t: (not t[0], t[1] <= 1, t[1], t[2]))
    reported = set()
    for _, _, _, w in witnesses:
        key = (w["site"], w["klass"])
        if key in reported:
            continue
        reported.add(key)
        ctx.witness(w["site"], w["klass"], w["input"], w["expected"], w["observed"])
    ctx.extra["views_cases"] = total
    ctx.extra["views_oracle_disagreements"] = len(witnesses)
    ctx.log("views part done in %.1fs" % (time.time() - t0))


def identities(ctx):
    """flatten = reshape and adjacent movedim = transpose, values and gradients, on the implementation."""
    impl = _impl()
    np = impl.np
    n_cases = 0
    mism = []
    for sh in shapes_upto(3, (1, 2, 3)):
        n = len(sh)
        for s in range(-n, n):
            for e in range(-n, n):
                f1, b1, _, _, _ = run_impl(sh, ("flatten", s, e))
                if f1 is None:
                    continue
                f2, b2, _, _, _ = run_impl(sh, ("reshape", tuple(f1[0])))
                n_cases += 1
                if (f1, b1) != (f2, b2):
                    mism.append({"shape": list(sh), "call": "x.flatten(%d,%d) vs x.reshape(%s)" % (s, e, f1[0]), "flatten": [f1, b1], "reshape": [f2, b2]})
                a, b = s % n, e % n
                if abs(a - b) == 1:
                    m1 = run_impl(sh, ("movedim", s, e))[:2]
                    m2 = run_impl(sh, ("transpose", s, e))[:2]
                    n_cases += 1
                    if m1 != m2:
                        mism.append({"shape": list(sh), "call": "x.movedim(%d,%d) vs x.transpose(%d,%d)" % (s, e, s, e), "movedim": m1, "transpose": m2})
    ctx.tie("views/identities", "correspondence", n_cases, n_cases, mism, exhaustive=True,
            note="flatten(s,e) == reshape(result shape) and movedim(s,d) == transpose(s,d) for adjacent dims: forward values and x.grad")
    if mism:
        m = mism[0]
        ctx.witness("C14 identity", "identity", {"shape": m["shape"], "call": m["call"]}, "both sides equal (values and gradients)", m)


def replay(ctx, data):
    """Re-run a stored witness on the implementation."""
    if data.get("kind") != "failing-input":
        print(json.dumps(data.get("broken"), indent=1)); return 1
    inp = data["input"]
    if "op" not in inp:
        iteration_oracle(ctx)
        print("witnesses now:", ctx.witnesses)
        return 1 if ctx.witnesses else 0

    def tup(o):
        return tuple(tup(x) for x in o) if isinstance(o, list) else o
    op = tup(inp["op"])
    sh = tuple(inp["shape"])
    fobs, bobs, _, _, err = run_impl(sh, op)
    w = judge(ctx, sh, op, fobs, None, err)
    print("call", inp["call"], "on shape", sh, "->", "forward", fobs, "grad", bobs, "error", err)
    print("oracle verdict:", json.dumps(w, default=str)[:800] if w else "agrees with the oracle now")
    return 1 if w else 0
