"""C10 — results and gradients keep the operand's floating dtype and exact shape.

Obligations : coq/Props/C10.v (promotion lattice; forward dtype of every generated op / layer / loss row; 0-d results;
              every accumulation in place; accumulated values castable; gradient buffer dtype+shape invariant, for all
              sequences of accumulations)
Ties        : T  dtype-transfer expressions regenerated from /repo by lib/py2coq/gen_dtype.py (abstract interpretation,
                 fail closed) -> coq/Gen/GenDtype.v
              T  translator self-check: every reachable kernel of cpu_ops / conv_tools is run for real (through the public
                 ops, the module attributes temporarily wrapped by recorders) and its observed result dtype / kind must be
                 a member of `deval` of the generated expression on the abstracted arguments (compared inside Coq)
              K  stateful layers: real BatchNorm histories (k training forwards then eval) vs the generated state machine
              K  every catalogued public call (ops with tensor / Python-scalar operands, layers train+eval, losses x
                 reductions, Sequential) x {float32, float64} x upstream gradient of either dtype (and the default one):
                 observed result dtype == the single dtype predicted by the generated definitions; observed .grad
                 dtype/shape of every operand, parameter and of the root == the buffer model (compared inside Coq)
Oracle      : value level: tensor (op) Python scalar == NumPy in the tensor dtype, byte for byte (and gradients);
              the property itself on the observations: result.dtype == operand dtype when all floating operands share it,
              result.shape == the shape computed by plain NumPy / PyTorch, t.grad.dtype == t.dtype and
              t.grad.shape == t.shape for every tensor after backward.
Supporting  : (thorough tier only, sampled, not proof) float32 results agree with float64 results to 1e-4.
"""
import json, os, random, re
from lib import common
from lib.common import cb, cn, clist
from lib.py2coq import main as py2coq

DTN = {'float32': 'F32', 'float64': 'F64', 'float16': 'F16', 'int64': 'DInt', 'bool': 'DBool'}
FLOATS = ('float32', 'float64')

HEADER = """From Coq Require Import List Bool Arith String.
Import ListNotations.
From SG Require Import Base.Cmp IR.Dtype Gen.GenDtype.
Open Scope string_scope.
"""

OBS_MATCH = """
(* an observed concrete value (ndarray -> KArray, np.generic -> KScalar) is one of the predicted abstract values *)
Fixpoint obs_match (o p : absval) : bool :=
  match o, p with
  | Np d k, Np d' k' => dtype_eqb d d' && (kind_eqb k k' || kind_eqb k' KEither)
  | PyBool _, PyBool None => true
  | TupV l, TupV l' =>
      (fix go (l l' : list absval) : bool :=
         match l, l' with
         | [], [] => true
         | x :: t, y :: t' => obs_match x y && go t t'
         | _, _ => false
         end) l l'
  | (ShapeV | OpaqueV | StrV _), OpaqueV => true
  | _, _ => absval_eqb o p
  end.
"""


def _impl():
    from lib import impl
    return impl


def parse_natlist(out):
    flat = " ".join(out.split())
    res = []
    for m in re.finditer(r"= \[(.*?)\]\s*:\s*list nat", flat):
        body = m.group(1).replace("%nat", "").strip()
        res.append([int(x) for x in body.split(";") if x.strip()])
    return res


def av(v):
    from lib.c10_absint import coq_absval
    return coq_absval(v)


def cshape(s):
    return "[" + "; ".join(str(int(x)) for x in s) + "]"


def cbuf(dt, shape):
    return "(%s, %s)" % (DTN[dt], cshape(shape))


# ------------------------------------------------------------------------------------------------ translator self-check
def selfcheck(ctx, info, observations):
    """compare every recorded kernel call with the generated expression, inside Coq"""
    recs, errors = observations
    kern = {(k['module'], k['name']): k for k in info['kernels']}
    cases = []
    for (mq, name, _, _), (args, res) in sorted(recs.items(), key=lambda kv: kv[0]):
        cases.append((kern[(mq, name)]['coq'], args, res, mq + '.' + name))
    files = []
    CH = 500
    for k in range(0, len(cases), CH):
        chunk = cases[k:k + CH]
        body = ";\n ".join("((%s, %s), %s)" % (c, clist([av(a) for a in args]), av(res)) for c, args, res, _ in chunk)
        txt = HEADER + OBS_MATCH + "Definition cases : list ((dexpr * list absval) * absval) :=\n [%s].\n" % body
        txt += "Eval vm_compute in (mismatches (fun '(e, args) => deval0 gen_cfg args e) (fun s o => existsb (obs_match o) s) cases).\n"
        files.append(("selfcheck_%d" % (k // CH), txt))
    res = ctx.coq_eval_many(files)
    mism = []
    for (name, _), k in zip(files, range(0, len(cases), CH)):
        ok, out = res[name]
        lists = parse_natlist(out)
        if not ok or len(lists) != 1:
            mism.append({"file": name, "error": out[-500:]})
            continue
        for i in lists[0]:
            c, args, r, kname = cases[k + i]
            mism.append({"kernel": kname, "abstract_arguments": [av(a) for a in args], "observed_result": av(r)})
    for e in errors:
        mism.append({"recorder": e})
    called = set((mq, nm) for (mq, nm, _, _) in recs)
    never = sorted("%s.%s" % k for k in kern if k not in called)
    for kname in never:
        mism.append({"kernel": kname, "problem": "translated (reachable from a public op) but never executed by the self-check"})
    nontrivial = sum(1 for c, args, r, kname in cases if kern[tuple(kname.split('.', 1))]['size'] >= 3)
    ctx.tie("dtype-transfer expressions vs real kernels", "translator-selfcheck", len(cases), nontrivial, mism,
            note="%d translated kernels, %d distinct (kernel, abstract arguments, observed result) records from running the public ops "
                 "in float32/float64/mixed with upstream gradients of both dtypes; membership of the observed dtype/kind in deval" % (len(kern), len(cases)))
    ctx.sample({"kernel_record": {"kernel": cases[len(cases) // 2][3], "args": [av(a) for a in cases[len(cases) // 2][1]], "observed": av(cases[len(cases) // 2][2])}} if cases else {})


# ------------------------------------------------------------------------------------------------ running everything
def run_all(ctx, info):
    """run the op catalogue and the C10 cases under the kernel recorder; returns (observations, recorder data)"""
    from lib import opcatalog, c10_layers as L
    impl = _impl()
    np, sg = impl.np, impl.synapgrad
    kernels = info['kernels'] if info else []
    rec = L.Recorder(impl, kernels)
    obs_list = []
    with rec:
        # 1. the shared op catalogue (lib/opcatalog.py): forward + backward, uniform and mixed operand dtypes
        for op in opcatalog.catalog(impl):
            nflt = sum(1 for s in op.operands if not s[1].startswith('labels'))
            combos = [('float32',) * max(nflt, 1), ('float64',) * max(nflt, 1)]
            if nflt >= 2:
                combos += [('float32',) + ('float64',) * (nflt - 1), ('float64',) + ('float32',) * (nflt - 1)]
            for dts in combos:
                for up in FLOATS:
                    impl.reset_modes()
                    np.random.seed(ctx.seed % (2 ** 31))
                    k = 0
                    ts = []
                    for s in op.operands:
                        dt = 'int64'
                        if not s[1].startswith('labels'):
                            dt = dts[k]; k += 1
                        d = opcatalog.make_operand(impl, ctx.rng, s, dt)
                        ts.append(sg.Tensor(d, requires_grad=bool(s[2])))
                    try:
                        out = op.call(ts)
                        outs = list(out) if op.multi else [out]
                        uniform = len(set(dts)) == 1
                        entry = {'catalog_op': op.name, 'dtypes': list(dts), 'upstream': up, 'uniform': uniform,
                                 'result_dtypes': sorted(set(str(o.dtype) for o in outs)), 'grads': []}
                        for o in outs:
                            if o.requires_grad:
                                o.backward(sg.Tensor(np.ones(o.shape, dtype=up)))
                        for i, t in enumerate(ts):
                            if t.requires_grad:
                                entry['grads'].append({'who': 'operand%d' % i, 'dtype': str(t.dtype), 'shape': tuple(t.shape),
                                                       'grad_dtype': None if t._grad is None else str(t._grad.dtype),
                                                       'grad_shape': None if t._grad is None else tuple(t._grad.shape)})
                        obs_list.append(('catalog', op, entry))
                    except Exception as ex:
                        obs_list.append(('catalog', op, {'catalog_op': op.name, 'dtypes': list(dts), 'upstream': up, 'error': repr(ex)[:300]}))
        # 2. the C10 cases
        cs = L.cases(impl, thorough=not ctx.quick)
        for ci, c in enumerate(cs):
            nflt = sum(1 for a in c['argv'] for x in ([a] if (isinstance(a, tuple) and a and a[0] == 'T') else (a[1] if (isinstance(a, tuple) and a and a[0] == 'T*') else []))
                       if not x[2].startswith('labels'))
            dts = [('float32', False), ('float64', False)]
            if nflt >= 2:
                dts += [(['float32'] + ['float64'] * (nflt - 1), True), (['float64'] + ['float32'] * (nflt - 1), True)]
            for dt, opmixed in dts:
                for up in FLOATS + ('default',):
                    seed = (ctx.seed + 7919 * ci) % (2 ** 31)
                    try:
                        o = L.observe(impl, info, c, dt, up, random.Random(seed), seed)
                    except RuntimeError as ex:
                        if up == 'default' and 'grad must be specified' in str(ex):
                            continue
                        o = {'error': repr(ex)[:300]}
                    except Exception as ex:
                        o = {'error': repr(ex)[:300]}
                    o.update(case=c['name'], dtype=dt, up=up, operand_mixed=opmixed)
                    obs_list.append(('case', c, o))
    return obs_list, (rec.records, rec.errors)


def kcheck(ctx, info, obs_list):
    """model vs implementation on the public calls, inside Coq; returns nothing (records ties)"""
    res_cases, grad_cases = [], []
    seen_r, seen_g = set(), set()
    for kind, c, o in obs_list:
        if kind != 'case' or 'error' in o or o.get('pred') is None:
            continue
        # exact (the predicted set is the singleton of the observed dtype) unless floating operands of several dtypes are
        # involved; a float64 input through float32 parameters is still compared exactly (the table predicts float64)
        exact = not o['operand_mixed'] and not (o['mixed'] and o['dtype'] == 'float32')
        key = (o['pred'], o['result_dtype'], exact)
        if key not in seen_r:
            seen_r.add(key)
            res_cases.append((o['pred'], ('Np', DTN.get(o['result_dtype'], 'ErrV'), 'KArray'), exact, o))
        for g in o['grads']:
            up_dt = g['dtype'] if o['upstream'][0] == 'default' else o['upstream'][0]
            if g['root'] and g['who'] != 'root':
                up_shape = g['shape']
            else:
                up_shape = o['upstream'][1]
            if g['dtype'] not in FLOATS:
                continue
            key = (g['root'], g['dtype'], g['shape'], up_dt if g['root'] else None, g['grad_dtype'], g['grad_shape'])
            if key in seen_g:
                continue
            seen_g.add(key)
            grad_cases.append((g['root'], (g['dtype'], g['shape']), (up_dt, up_shape if g['root'] else g['shape']),
                               None if g['grad_dtype'] is None or g['grad_dtype'] not in DTN else (g['grad_dtype'], g['grad_shape']), o, g))
    files = []
    CH = 400
    for k in range(0, len(res_cases), CH):
        chunk = res_cases[k:k + CH]
        body = ";\n ".join("((%s, %s), %s)" % (p, cb(exact), av(ob)) for p, ob, exact, _ in chunk)
        txt = HEADER + "Definition cases : list ((dexpr * bool) * absval) :=\n [%s].\n" % body
        txt += ("Eval vm_compute in (mismatches (fun '(e, exact) => (deval0 gen_cfg [] e, exact)) "
                "(fun '(s, exact) o => if (exact : bool) then list_eqb_abs s [o] else vmem o s) cases).\n")
        files.append(("results_%d" % (k // CH), txt))
    body = ";\n ".join("((%s, %s, %s), %s)" % (cb(root), cbuf(*data), cbuf(*up), "None" if ob is None else "Some %s" % cbuf(*ob))
                       for root, data, up, ob, _, _ in grad_cases)
    gtxt = HEADER + """
Definition buf_eqb (a b : buffer) : bool := dtype_eqb (fst a) (fst b) && shape_eqb (snd a) (snd b).
(* the buffer model: zeros_like(data) for operands, the seeded buffer for the root; accumulated pieces do not change
   it provided every wrapper accumulates in place (checked on the generated table right here) *)
Definition model (c : bool * buffer * buffer) : option buffer :=
  let '(root, data, up) := c in
  if zero_is_zeros_like_data && forallb accs_in_place wrapper_rows then final_grad seed_added_in_place root data up [] else None.
Definition cases : list ((bool * buffer * buffer) * option buffer) :=
 [%s].
Eval vm_compute in (mismatches model (option_eqb buf_eqb) cases).
Eval vm_compute in (mismatches (fun d => deval0 gen_cfg [Np d KArray] default_upstream) (fun s d => list_eqb_abs s [Np d KArray]) [(F32, F32); (F64, F64)]).
""" % body
    files.append(("grads", gtxt))
    res = ctx.coq_eval_many(files)
    mism = []
    for (name, _), k in zip(files[:-1], range(0, len(res_cases), CH)):
        ok, out = res[name]
        lists = parse_natlist(out)
        if not ok or len(lists) != 1:
            mism.append({"file": name, "error": out[-500:]})
            continue
        for i in lists[0]:
            p, ob, exact, o = res_cases[k + i]
            mism.append({"case": o['case'], "dtype": o['dtype'], "observed_result_dtype": o['result_dtype'], "generated_expression": p[:200],
                         "comparison": "predicted set == {observed}" if exact else "observed in predicted set"})
    ctx.tie("result dtype: generated definitions vs public calls", "correspondence", len(res_cases), len(res_cases), mism, exhaustive=True,
            note="every catalogued call x {float32,float64} (+ mixed operand dtypes); predicted set must be the singleton of the observed dtype "
                 "(membership for mixed operand dtypes); distinct (generated expression, observed dtype) pairs")
    ok, out = res["grads"]
    lists = parse_natlist(out)
    mism = []
    if not ok or len(lists) != 2:
        mism.append({"file": "grads", "error": out[-500:]})
    else:
        for i in lists[0]:
            root, data, up, ob, o, g = grad_cases[i]
            mism.append({"case": o['case'], "dtype": o['dtype'], "upstream": o['upstream'], "tensor": g['who'], "is_root": root,
                         "tensor_dtype_shape": data, "observed_grad": ob})
        for i in lists[1]:
            mism.append({"default_upstream": "ones_like(self.data) does not have the data's dtype in the model", "case": i})
    ctx.tie("gradient buffers: model vs .grad after backward", "correspondence", len(grad_cases) + 2, len(grad_cases), mism, exhaustive=True,
            note="every operand / parameter / root of every catalogued call x dtype x upstream dtype (incl. mismatched and default): "
                 "observed (dtype, shape) of .grad vs final_grad of the buffer model; distinct cases")
    if res_cases:
        ctx.sample({"public_call": res_cases[0][3]['case'], "generated": res_cases[0][0][:160], "observed_dtype": res_cases[0][3]['result_dtype']})


def oracle(ctx, obs_list):
    """the property judged directly on the observations; failures become witnesses"""
    from lib import c10_layers as L
    judged = 0
    found = {}
    for kind, c, o in obs_list:
        if kind == 'case':
            if 'error' in o:
                found.setdefault((c['name'], 'raises'), (c, o, [('raises', 'the call and its backward complete', o['error'])]))
                continue
            judged += 1
            dt = o['dtype'] if isinstance(o['dtype'], str) else None
            bad = L.judge(o, dt) if dt is not None else [b for b in L.judge(dict(o, mixed=True), None)]
            for b in bad:
                found.setdefault((c['name'], b[0].split(':')[0]), (c, o, [b]))
        else:
            e = o
            if 'error' in e:
                found.setdefault((c.name, 'raises'), (c, e, [('raises', 'completes', e['error'])]))
                continue
            judged += 1
            if e['uniform'] and e['result_dtypes'] != [e['dtypes'][0]]:
                found.setdefault((c.name, 'result-dtype'), (c, e, [('result-dtype', e['dtypes'][0], e['result_dtypes'])]))
            for g in e['grads']:
                if g['grad_dtype'] != g['dtype'] or (g['grad_shape'] is not None and tuple(g['grad_shape']) != tuple(g['shape'])) or g['grad_dtype'] is None:
                    found.setdefault((c.name, 'grad-dtype-shape'), (c, e, [('grad-dtype-shape:' + g['who'], [g['dtype'], list(g['shape'])], [g['grad_dtype'], g['grad_shape']])]))
    # smallest inputs first: uniform dtype before mixed, elementary ops before layers
    order = sorted(found.items(), key=lambda kv: (isinstance(kv[1][1].get('dtype'), list), len(str(kv[0][0]))))
    for (name, klass), (c, o, bad) in order[:8]:
        b = bad[0]
        if 'catalog_op' in o:
            inp = {'catalog_op': o['catalog_op'], 'dtypes': o['dtypes'], 'upstream': o['upstream']}
            site = c.wrapper
        else:
            inp = {'case': o['case'], 'dtype': o['dtype'], 'upstream': o['up'], 'target': list(map(str, c['target'][:2]))}
            site = "%s.%s" % (c['target'][0], c['target'][1] if len(c['target']) > 1 else '')
        ctx.witness(site, b[0], inp, b[1], b[2], note="property oracle: result dtype == shared operand dtype, result shape == reference, grad dtype/shape == tensor's")
    ctx.extra['oracle_runs_judged'] = judged
    ctx.extra['oracle_failures'] = len(found)
    return found


def agreement(ctx, info):
    """supporting, sampled: float32 and float64 results of the same call agree to single precision"""
    from lib import c10_layers as L
    impl = _impl()
    np = impl.np
    n, bad = 0, []
    for ci, c in enumerate(L.cases(impl, thorough=True)):
        if c['target'][0] in ('leaf',) or 'Dropout' in c['name'] or c['name'].startswith('Sequential_mlp'):
            continue
        seed = (ctx.seed + 104729 * ci) % (2 ** 31)
        try:
            r = {}
            for dt in FLOATS:
                impl.reset_modes()
                np.random.seed(seed)
                b = L.build(impl, None, c, dt, random.Random(seed))
                # same operand values in both dtypes: regenerate from the float64 data
                out = b.run()
                o0 = (list(out) if isinstance(out, (tuple, list)) else [out])[0]
                r[dt] = (np.asarray(o0.data, dtype=np.float64), [np.asarray(d, dtype=np.float64) for d in b.datas])
            same_inputs = all(np.allclose(a, b_, rtol=1e-6, atol=1e-6) for a, b_ in zip(r['float32'][1], r['float64'][1]))
            if not same_inputs:
                continue
            n += 1
            a32, a64 = r['float32'][0], r['float64'][0]
            if a32.shape != a64.shape or not np.allclose(a32, a64, rtol=1e-4, atol=1e-4 * max(1.0, float(np.max(np.abs(a64))) if a64.size else 1.0)):
                bad.append({'case': c['name'], 'max_abs_diff': float(np.max(np.abs(a32 - a64))) if a32.shape == a64.shape else 'shape'})
        except Exception as ex:
            bad.append({'case': c['name'], 'error': repr(ex)[:200]})
    ctx.extra['f32_vs_f64_agreement'] = {'cases': n, 'disagreeing': bad, 'tolerance': 'rtol 1e-4 (sampled, supporting only)'}
    for bd in bad[:3]:
        ctx.witness('f32-vs-f64', 'single-precision-agreement', {'case': bd['case'], 'dtype': 'float32', 'upstream': 'float32'},
                    'float32 result within 1e-4 (relative) of the float64 result', bd)


def histories(ctx, info, with_model):
    """stateful layers: k training forwards then an eval forward; oracle on every step + comparison with the generated
    state machine inside Coq"""
    from lib import c10_layers as L
    impl = _impl()
    hs = L.history_cases()
    smeta = info.get('stateful') if info else None
    runs = []
    for i, h in enumerate(hs):
        try:
            rec = L.run_history(impl, smeta, h, ctx.seed + 17 * i)
        except Exception as ex:
            rec = {'steps': [], 'problems': [('raises', 'the history completes', repr(ex)[:300])]}
        runs.append((h, rec))
    fails = [(h, rec) for h, rec in runs if rec['problems']]
    ctx.extra['stateful_histories'] = {'histories': len(runs), 'forward_calls': sum(len(r['steps']) for _, r in runs), 'failing': len(fails)}
    for h, rec in sorted(fails, key=lambda t: (t[0]['k'], len(t[0]['shape'])))[:2]:
        p = rec['problems'][0]
        ctx.witness("nn.%s" % h['cls'], "stateful-dtype-drift", {'history': h}, {p[0]: p[1]}, {'observed': p[2], 'all_problems': [q[0] for q in rec['problems']][:6]},
                    note="k training forwards then an eval forward on inputs of the layer's dtype: outputs, 0-d reductions, running statistics, counter, gradients")
    if not (with_model and smeta):
        return fails
    by = {m['class']: m for m in smeta}
    cases = []
    for h, rec in runs:
        if 'ctor' not in rec or not rec['steps'] or any(p[0] == 'raises' for p in rec['problems']):
            continue
        m = by[h['cls']]
        steps = "; ".join("(%s, %s, %s, %s)" % (cb(st['training']), av(st['x']), av(st['out']), av(st['state'])) for st in rec['steps'])
        cases.append(((h, rec), "((mkSL \"\" [] %s %s, %s, %s), [%s])" % (m['init'], m['step'], clist([av(a) for a in rec['ctor']]), av(rec['init_state']), steps)))
    seen, uniq = set(), []
    for hr, txt in cases:
        if txt not in seen:
            seen.add(txt); uniq.append((hr, txt))
    txt = HEADER + OBS_MATCH + """
Fixpoint check_hist (r : slrow) (h : list (bool * absval * absval * absval)) (S : list absval) : bool :=
  match h with
  | [] => true
  | (tr, x, o, st) :: t =>
      let outs := sl_outs gen_cfg r x tr S in
      negb (is_nil outs) && forallb (obs_match o) outs &&           (* the predicted output set is exactly the observed dtype *)
      existsb (obs_match st) (sl_next gen_cfg r x tr S) &&            (* the observed state is a predicted one *)
      check_hist r t (sl_next gen_cfg r x tr S)
  end.
Definition model (c : slrow * list absval * absval) : (slrow * list absval * absval) := c.
Definition agree (c : slrow * list absval * absval) (h : list (bool * absval * absval * absval)) : bool :=
  let '(r, ctor, st0) := c in
  let S0 := deval0 gen_cfg ctor (sl_init r) in
  existsb (obs_match st0) S0 && check_hist r h S0.
Definition cases : list ((slrow * list absval * absval) * list (bool * absval * absval * absval)) :=
 [%s].
Eval vm_compute in (mismatches model agree cases).
""" % ";\n ".join(t for _, t in uniq)
    ok, out = ctx.coq_eval("histories", txt)
    lists = parse_natlist(out)
    mism = []
    if not ok or len(lists) != 1:
        mism.append({"file": "histories", "error": out[-500:]})
    else:
        for i in lists[0]:
            h, rec = uniq[i][0]
            mism.append({"history": h, "observed_outputs": [st['out_dtype'] for st in rec['steps']], "observed_running_stats": [st['stats'] for st in rec['steps']]})
    ctx.tie("stateful layers: generated state machine vs real histories", "correspondence", len(uniq), sum(1 for (h, _), _ in uniq if h['k'] >= 1), mism, exhaustive=True,
            note="BatchNorm1d/2d x momentum {0.1, None} x track_running_stats x affine x layer dtype {default, float32, float64} x k in {0..3} training forwards "
                 "then an eval forward: every output dtype must be the single predicted one, every observed state (all attributes) a predicted state; "
                 "non-trivial = at least one training forward before the eval forward")
    return fails


def layouts(ctx):
    """oracle: non-contiguous first operands (library-made transposed / moved / unbound / sliced views, Fortran order, strided
    slices, 0-stride broadcasts) give the result of the contiguous copy: dtype, values (within 1000 eps), 0-d sum, gradients"""
    from lib import c10_layers as L
    impl = _impl()
    n, skipped, fails = 0, 0, []
    for op in L.layout_ops(impl):
        for lay in L.LAYOUTS:
            for dt in FLOATS:
                try:
                    r = L.layout_check(impl, op[0], lay, dt)
                except Exception as ex:
                    r = ('raises', 'the op accepts the layout like the contiguous copy', repr(ex)[:200])
                if r is None:
                    n += 1
                elif r[0] == 'skip':
                    skipped += 1
                else:
                    n += 1
                    fails.append((op[0], lay, dt, r))
    ctx.extra['noncontiguous_operand_checks'] = {'evaluations': n, 'skipped': skipped, 'failing': len(fails), 'layouts': list(L.LAYOUTS), 'ops': len(L.layout_ops(impl)),
                                                 'tolerance': 'values within 1000 * eps(dtype) * max(1, max|result|) of the result on the contiguous copy'}
    seen = set()
    for opn, lay, dt, r in sorted(fails, key=lambda f: (f[2] != 'float64', L.LAYOUTS.index(f[1]))):
        if opn in seen or len(seen) >= 2:
            continue
        seen.add(opn)
        ctx.witness("op " + opn, r[0] if r[0].startswith('noncontiguous') else 'noncontiguous-operand-' + r[0], {'layout_op': opn, 'layout': lay, 'dtype': dt},
                    r[1], r[2], note="first operand in a non-contiguous layout vs its contiguous copy, same dtype")
    return fails


def conditioned_agreement(ctx):
    """NUMERICAL oracle (stated tolerances, not a proof): float32 results agree with the float64 results of the same
    float32-representable, ill-conditioned inputs within C * eps32 * amp * scale (lib/c10_layers.py)"""
    from lib import c10_layers as L
    impl = _impl()
    n, fails, worst = 0, [], 0.0
    for rc in L.agreement_recipes():
        try:
            rows = L.run_agreement(impl, rc)
        except Exception as ex:
            fails.append((rc, 'raises', float('inf'), 0.0, repr(ex)[:200]))
            continue
        for nm, err, bound, kind in rows:
            n += 1
            ratio = err / bound if bound > 0 else float('inf')
            if ratio > 1:
                fails.append((rc, nm, err, bound, kind))
            else:
                worst = max(worst, ratio)
    ctx.extra['f32_f64_conditioned_agreement'] = {'quantities': n, 'failing': len(fails), 'worst_error_over_bound_among_passing': round(worst, 4),
                                                  'bound': 'max|q32-q64| <= %g * eps32 * amp * scale; amp = |mean|/std + 1 for quantities computed from centred data, else 1' % L.AGREE_C}
    seen = set()
    for rc, nm, err, bound, kind in sorted(fails, key=lambda f: -(f[2] / f[3] if f[3] else 1e99)):
        if rc['op'] in seen or len(seen) >= 2:
            continue
        seen.add(rc['op'])
        ctx.witness("op " + rc['op'], "f32-f64-disagreement", {'agreement': rc, 'quantity': nm},
                    {'bound': bound, 'rule': '%g * eps32 * amp * scale (%s)' % (L.AGREE_C, kind)}, {'max_error': err, 'error_over_bound': (err / bound if bound else None)},
                    note="x = mean + std * N(0,1) drawn with the seed, cast to float32, used in both dtypes")
    return fails


def scalar_values(ctx):
    """oracle, value level: float64 (float32) tensors combined with non-dyadic Python scalars give bit-exactly the NumPy
    float64 (float32) result - the scalar is not rounded through float32 - and so do the gradients"""
    from lib import c10_layers as L
    impl = _impl()
    np = impl.np
    rng = random.Random(ctx.seed + 31131)
    n, fails = 0, []
    for dtype in ('float64', 'float32'):
        xs = L.scalar_value_inputs(np, dtype, rng)
        for optext, meth, _, _, _ in L.SCALAR_OPS:
            for s in L.SCALARS:
                for a in xs:
                    n += 1
                    try:
                        r = L.scalar_value_check(impl, optext, dtype, s, a.tolist())
                    except Exception as ex:
                        r = ('raises', 'completes', repr(ex)[:200])
                    if r is not None:
                        fails.append((optext, meth, dtype, s, a.tolist(), r))
    ctx.extra['scalar_operand_value_checks'] = {'evaluations': n, 'failing': len(fails),
                                                'references': "x*s, s*x: a*s; x+s, s+x: a+s; x-s: a-s; s-x: s-a; x/s: a*(s**-1); s/x: (a**-1)*s; -x: -a "
                                                              "(NumPy in the tensor's dtype, compared byte for byte; gradients of sum(): np.full(shape, s | 1 | -1 | s**-1))"}
    seen = set()
    for optext, meth, dtype, s, a, r in fails:          # first failure per operator (the inputs start with x = [1., 3.], s = 0.1)
        if meth in seen:
            continue
        seen.add(meth)
        ctx.witness("Tensor." + meth, "scalar-operand-rounded-to-float32", {'scalar_op': optext, 'dtype': dtype, 'scalar': s, 'x': a},
                    {r[0]: r[1]}, r[2], note="bit-exact comparison with the NumPy result computed in the tensor's dtype")
    return fails


# ------------------------------------------------------------------------------------------------ the check
def run(ctx):
    # ---- shape half for broadcasting / reduction / concat ops (work package E2: Props/C10_shapes.v) ------------------
    try:
        from checks import ops_algebra
        ops_algebra.run_part(ctx, as_pid="C10")
    except ModuleNotFoundError as ex:
        ctx.notes.append("algebra part not available: %s" % ex)
    # ---- T: regenerate and build ---------------------------------------------------------------------------------
    res = py2coq.run(["dtype"])
    info = None
    if res["dtype"] is not None:
        ctx.broken.append({"kind": "translator", "what": "gen_dtype fail-closed: %s" % (res["dtype"],),
                           "detail": "a kernel / wrapper / Tensor method / layer of the implementation is no longer in the fragment the dtype translator understands"})
        ctx.log("TRANSLATOR FAILED", res["dtype"])
    else:
        info = json.load(open(os.path.join(common.ROOT, "work", "dtype.json")))
        ctx.extra['generated'] = {'kernels': len(info['kernels']), 'wrappers': len(info['wrappers']), 'tensor_methods': len(info['methods']),
                                  'layer_and_loss_definitions': len(info['layers']), 'op_rows': len(info['rows']), 'layer_rows': len(info['layer_rows']),
                                  'flags': info['flags']}
        reb = [(w['fn'], r['target']) for w in info['wrappers'] for r in w['rebinds']]
        if reb:
            ctx.notes.append("observation (not a result/gradient): %s rebinds <tensor>.data = kernel output; with float64 input and float32 running "
                             "statistics the statistics become float64" % ", ".join("%s:%s" % x for x in reb))
    if info is None:
        # coq/Gen/GenDtype.v is stale (from an earlier run): theorems about it say nothing about this source tree
        ok_build = False
        for n in common.theorems_in("Props/C10.v"):
            ctx.obligations.append({"name": n, "ok": False, "where": "Props/C10.v", "detail": "generated definitions unavailable (translator failed closed)"})
    else:
        ok_build, fails = ctx.build_props(extra_targets=["IR/Dtype.vo", "Gen/GenDtype.vo", "Proofs/DtypeProofs.vo"])
    ctx.log("build", "ok" if ok_build else "FAILED")
    # ---- run the implementation once (recorded), then compare ---------------------------------------------------------
    obs_list, recdata = run_all(ctx, info)
    ctx.log("ran %d public calls" % len(obs_list))
    sfails = scalar_values(ctx)
    lfails = layouts(ctx)
    afails = conditioned_agreement(ctx)
    gen_ok = info is not None and ok_build
    if info is not None and not ok_build:
        # the generated file may still compile although a theorem fails: try the correspondences anyway
        gen_ok, _ = common.coq_make(["Base/Cmp.vo", "IR/Dtype.vo", "Gen/GenDtype.vo"], timeout=900)
    hfails = histories(ctx, info, gen_ok)
    found = oracle(ctx, obs_list)
    if gen_ok:
        selfcheck(ctx, info, recdata)
        kcheck(ctx, info, obs_list)
    st = [o for k, c, o in obs_list if k == 'case' and o.get('running_stats_dtypes')]
    prom = sorted(set((o['case'], str(o['dtype']), tuple(o['running_stats_dtypes'])) for o in st if isinstance(o['dtype'], str) and any(d != 'float32' for d in o['running_stats_dtypes'])))
    if prom:
        ctx.notes.append("observation: running statistics after a forward pass: %s" % prom[:4])
    if not ctx.quick:
        agreement(ctx, info)
    ctx.trusted.append("NumPy 2 (NEP 50) promotion / scalar-vs-array result rules as modelled in coq/IR/Dtype.v (validated on every run by the translator self-check, not verified)")
    ctx.assumptions.append("float32 vs float64 numerical agreement is sampled only (thorough tier)")
    ctx.assumptions.append("shape of un-broadcast gradients: Props/C10_shapes.v (package E2); here: buffers are zeros_like(data) and written in place")


FINISH = dict(rule="self-check: distinct (kernel, abstract arguments, observed result) records, non-trivial = kernel expression with >= 3 nodes; "
                   "result tie: distinct (generated expression, observed dtype); gradient tie: distinct (root?, tensor dtype+shape, upstream dtype, observed grad dtype+shape)")


def replay(ctx, data):
    """re-run a stored witness on the implementation and judge it with the property oracle"""
    if data.get("kind") != "failing-input":
        print(json.dumps(data.get("broken"), indent=1)); return 1
    from lib import c10_layers as L, opcatalog
    impl = _impl()
    np, sg = impl.np, impl.synapgrad
    inp = data["input"]
    if 'layout_op' in inp:
        r = L.layout_check(impl, inp['layout_op'], inp['layout'], inp['dtype'])
        print("%s, first operand in layout %s, %s ->" % (inp['layout_op'], inp['layout'], inp['dtype']), "same as on the contiguous copy: property holds on this input" if r is None else r)
        return 0 if r is None else 1
    if 'agreement' in inp:
        rows = L.run_agreement(impl, inp['agreement'])
        bad = [(nm, err, bound) for nm, err, bound, kind in rows if not err <= bound]
        print("recipe %s ->" % json.dumps(inp['agreement']))
        for nm, err, bound, kind in rows:
            print("   %-14s max|q32-q64| = %.3e   bound %.3e   %s" % (nm, err, bound, "VIOLATED" if not err <= bound else "ok"))
        return 1 if bad else 0
    if 'history' in inp:
        rec = L.run_history(impl, None, inp['history'], ctx.seed)
        print("history %s ->" % json.dumps(inp['history']))
        print("  outputs:", [(("train" if st['training'] else "eval"), st['out_dtype'], st['stats']) for st in rec['steps']])
        print("  oracle:", rec['problems'] if rec['problems'] else "property holds on this history")
        return 1 if rec['problems'] else 0
    if 'scalar_op' in inp:
        r = L.scalar_value_check(impl, inp['scalar_op'], inp['dtype'], inp['scalar'], inp['x'])
        print("%s with x = %s (%s), s = %r ->" % (inp['scalar_op'], inp['x'], inp['dtype'], inp['scalar']),
              "bit-exact with the NumPy reference: property holds on this input" if r is None else "%s differs: expected %s observed %s" % r)
        return 0 if r is None else 1
    if 'case' in inp:
        c = [x for x in L.cases(impl, thorough=True) if x['name'] == inp['case']]
        if not c:
            print("unknown case", inp['case']); return 0
        dt = inp['dtype']
        if data.get('class') == 'single-precision-agreement':
            class _C: pass
            cx = _C(); cx.seed = ctx.seed; cx.extra = {}; cx.witness = lambda *a, **k: None
            cx.quick = False
            agreement(cx, None)
            bad = [b for b in cx.extra['f32_vs_f64_agreement']['disagreeing'] if b['case'] == inp['case']]
            print("disagreeing" if bad else "agree", bad)
            return 1 if bad else 0
        try:
            o = L.observe(impl, None, c[0], dt, inp['upstream'], random.Random(ctx.seed), ctx.seed % (2 ** 31))
        except Exception as ex:
            print("raised", repr(ex)); return 1
        bad = L.judge(o, dt if isinstance(dt, str) else None) if isinstance(dt, str) else L.judge(dict(o, mixed=True), None)
        print("case %s dtype=%s upstream=%s -> result %s %s ; grads %s" % (inp['case'], dt, inp['upstream'], o['result_dtype'], o['result_shape'],
                                                                        [(g['who'], g['grad_dtype'], g['grad_shape']) for g in o['grads']]))
        print("oracle:", bad if bad else "property holds on this input")
        return 1 if bad else 0
    op = [x for x in opcatalog.catalog(impl) if x.name == inp['catalog_op']][0]
    k = 0
    ts = []
    for s in op.operands:
        dt = 'int64'
        if not s[1].startswith('labels'):
            dt = inp['dtypes'][k]; k += 1
        ts.append(sg.Tensor(opcatalog.make_operand(impl, ctx.rng, s, dt), requires_grad=bool(s[2])))
    out = op.call(ts)
    outs = list(out) if op.multi else [out]
    for o in outs:
        if o.requires_grad:
            o.backward(sg.Tensor(np.ones(o.shape, dtype=inp['upstream'])))
    bad = []
    if len(set(inp['dtypes'])) == 1 and sorted(set(str(o.dtype) for o in outs)) != [inp['dtypes'][0]]:
        bad.append(('result-dtype', inp['dtypes'][0], [str(o.dtype) for o in outs]))
    for i, t in enumerate(ts):
        if t.requires_grad and (t._grad is None or str(t._grad.dtype) != str(t.dtype) or tuple(t._grad.shape) != tuple(t.shape)):
            bad.append(('grad', i, str(t.dtype), None if t._grad is None else (str(t._grad.dtype), t._grad.shape)))
    print("catalog op %s dtypes=%s upstream=%s ->" % (inp['catalog_op'], inp['dtypes'], inp['upstream']), bad if bad else "property holds on this input")
    return 1 if bad else 0
