"""C02 — backward of every nn op / layer / loss yields the exact vector-Jacobian product.

Assembled from parts (each regenerates its translated definitions, builds its Props file, runs its ties and its oracle):
  wrappers        checks/wrappers.py        Props/Wrappers.v       every differentiable input of every nn wrapper accumulates (+=) under its own flag
  scalar kernels  checks/kernels_scalar.py  Props/C02_scalar.v     relu, leaky_relu, selu, tanh, sigmoid, mse (both arguments), bce (eps bound), bce-with-logits
  vector kernels  checks/kernels_vector.py  Props/C02_vector.v     softmax / log_softmax along any dim, nll, cross-entropy, batch-norm in every mode (x, gamma, beta)
  conv / pool     checks/ops_convpool.py    Props/C02_convpool.v   conv1d/2d (x, w, b), max/avg pool 1d/2d, unfold/fold as adjoint gathers
  linear          checks/ops_algebra.py     Props/C01_algebra.v    linear = addmm/matmul with W^T (family 2 of C01), loss reductions mean/sum = tensor ops
"""
from lib.parts import run_parts, replay_parts

PARTS = [("checks.wrappers", "run_part", {}),
         ("checks.kernels_scalar", "run_part", {"props_file": "Props/C02_scalar.v"}),
         ("checks.kernels_vector", "run_part", {"props_file": "Props/C02_vector.v"}),
         ("checks.ops_convpool", "run_part_c02", {}),
         ("checks.ops_algebra", "run_part", {"as_pid": "C01", "parts": ["addmm-linear"]})]


def run(ctx):
    run_parts(ctx, PARTS)


def replay(ctx, data):
    return replay_parts(ctx, data, PARTS)


FINISH = dict(rule="per part: translator self-checks on generated inputs (distinct kernel x input class), exact probing correspondences on geometry grids, "
                   "oracle sweeps (finite differences + PyTorch) over ops x ranks x dims x modes; non-trivial = non-uniform upstream gradient and non-degenerate shape")
