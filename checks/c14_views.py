"""Stand-alone driver of the views part (work package E1) for C14; the registered check of C14 calls
checks.ops_views.run_part(ctx) itself.  Usage: ./check C14_views [--tier thorough]"""
from checks import ops_views


def run(ctx):
    ops_views.run_part(ctx, prop="C14")


def replay(ctx, data):
    return ops_views.replay(ctx, data)


FINISH = dict(rule="grids over ranks/shapes/arguments enumerated as stated per tie; non-trivial = rejected, or the flat index map is not the identity")
