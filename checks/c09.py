"""C09 -- stability-critical ops stay finite and accurate for large-magnitude inputs (partial: mechanism level).

Obligations : coq/Props/C09_scalar.v (exp-argument exposure analysis over the deep embedding of the generated kernels,
              saturating-arithmetic theorems, constants by interval arithmetic) and coq/Props/C09.v (summary);
              the softmax / log_softmax / cross-entropy part comes from checks/kernels_vector.py (package F2) when present.
Ties        : T  kernels regenerated from cpu_ops.py on every run (shallow + deep), self-checked against the real kernels.
Oracle      : values and gradients for |x| <= 1e4, float32 and float64, against an mpmath 60-digit reference.
"""
import json
from checks import kernels_scalar


def run(ctx):
    kernels_scalar.run_part(ctx, "Props/C09_scalar.v", part="C09")
    ctx.build_props(props_rel="Props/C09.v", extra_targets=kernels_scalar.EXTRA_TARGETS)
    kernels_scalar.reparse_axioms(ctx)
    try:
        from checks import kernels_vector            # work package F2 (softmax / log_softmax / cross-entropy)
    except ImportError:
        kernels_vector = None
    if kernels_vector is not None and hasattr(kernels_vector, "run_part"):
        kernels_vector.run_part(ctx, "Props/C09_vector.v")
    else:
        ctx.notes.append("softmax / log_softmax / cross-entropy part (checks/kernels_vector.py, package F2) not present in this tree: "
                         "C09 is decided here for sigmoid, tanh, selu and bce-with-logits only")
    ctx.notes.append("outside the model, not claimed: float32/float64 rounding and the accuracy of NumPy's exp/log/tanh; "
                     "'agree to single-precision accuracy' is sampled by the mpmath oracle (worst cases per op in coverage.oracle.c09_scalar)")


FINISH = dict(rule="translator self-check: distinct (kernel, input) pairs with a defined, non-trivial (not 0, +-1) value; "
                   "oracle: every listed magnitude with both signs + seeded log-uniform magnitudes up to 1e4, both dtypes")


def replay(ctx, data):
    return kernels_scalar.replay_witness(ctx, data)
