"""C19 — results are reproducible under manual_seed and independent of hash order.

Obligations : coq/Props/C19.v  (census theorems decided over Gen/GenCensus.v + the engine theorem dfs_set_independent)
Ties        : T  source census regenerated from every .py under synapgrad/ (lib/py2coq/gen_census.py, fail-closed), validated by
                 (i)  a tokenize-based scan of the sources (independent of the AST walk), both directions,
                 (ii) a dynamic trace: numpy.random.* / random.* / generator constructors / os.urandom / time.* / id / hash are
                      replaced by recording wrappers, the seeded program is run, observed call sites == census rows,
                 (iii) the classification tables against the installed numpy / random modules,
                 (iv) synthetic snippets (aliases, shadowing, closures, escapes, fail-closed cases);
              K  supporting runs, oracle = the statement of the property itself: the seeded program lib/c19_program.py in fresh
                 subprocesses with PYTHONHASHSEED in {0, 1, 12345, random} and perturbed allocation layouts -> identical SHA-256
                 of every produced array; re-seeding in-process -> identical; fixed-data forward/backward repeated -> identical;
                 a different seed -> different random items (non-vacuity).
Outside the model (named): bit-identity across processes rests on NumPy's legacy MT19937 stream and on NumPy/BLAS kernels
being deterministic functions of their inputs (single thread, same build).
"""
import json, os, subprocess, sys, time
from lib import common
from lib.py2coq import main as py2coq

PROGRAM = os.path.join(common.ROOT, "lib", "c19_program.py")
TRACER = os.path.join(common.ROOT, "lib", "c19_trace.py")
HASHSEEDS = ["0", "1", "12345", "random"]


# ------------------------------------------------------------------------------------------------- subprocess plumbing
def _env(hashseed):
    e = dict(os.environ)
    e.update({"PYTHONHASHSEED": str(hashseed), "VERIF_REPO": common.REPO, "OMP_NUM_THREADS": "1",
              "PYTHONPATH": common.REPO, "PYTHONDONTWRITEBYTECODE": "1"})
    return e


def _cmd(cfg):
    return [common.PY, PROGRAM, "--seed", str(cfg["seed"]), "--perturb", str(cfg["perturb"]), "--reps", str(cfg["reps"]),
            "--catalog", str(cfg["catalog"])]


def run_configs(cfgs, par=8, timeout=300):
    """run the seeded program once per config (fresh subprocess each); returns list of result dicts (or {'error':..})"""
    out = [None] * len(cfgs)
    pending = list(enumerate(cfgs))
    running = []
    while pending or running:
        while pending and len(running) < par:
            i, c = pending.pop(0)
            p = subprocess.Popen(_cmd(c), env=_env(c["hashseed"]), stdout=subprocess.PIPE, stderr=subprocess.PIPE, text=True, cwd=common.ROOT)
            running.append((i, p))
        i, p = running.pop(0)
        try:
            so, se = p.communicate(timeout=timeout)
        except subprocess.TimeoutExpired:
            p.kill(); so, se = p.communicate()
            out[i] = {"error": "timeout", "stderr": se[-400:]}
            continue
        k = so.find("{")
        if p.returncode != 0 or k < 0:
            out[i] = {"error": "exit %s" % p.returncode, "stderr": se[-600:]}
        else:
            try:
                out[i] = json.loads(so[k:])
            except ValueError as ex:
                out[i] = {"error": "bad json %r" % ex, "stderr": se[-400:]}
    return out


SITE_OF = [("ctorp/", "nn/layers.py constructors: state right after construction / after forwards (ctor_part)"), ("dropout/", "nn/layers.py Dropout.forward"), ("split", "nn/utils/data.py split_dataset"), ("init/", "nn/init.py"),
           ("ctor/", "nn/layers.py constructors"), ("train/", "training loop (forward, backward, optimizer step)"),
           ("diamond/", "tensor.py Tensor.backward"), ("shared/", "nn/modules.py Module.parameters"), ("conv/", "conv net forward/backward"),
           ("rand", "tensor.py rand/randn/normal/randint"), ("normal", "tensor.py rand/randn/normal/randint")]


def site_of(item):
    parts = item.split("/", 1)
    rest = parts[1] if parts[0] in ("run1", "run2") and len(parts) > 1 else item
    if "gaps/" in item:
        return "windows with gaps (place_windows): " + item.split("gaps/")[1].split("/")[0]
    if item.startswith("chk/got/ctor/") or item.startswith("chk/want/ctor/"):
        return "nn/layers.py constructor state: " + item.split("/")[4 if item.split("/")[3] in ("run1", "run2") else 3]
    if item.startswith("chk/"):
        return item.split("/", 2)[2]
    if item.startswith("fixed/"):
        return "fixed-data forward/backward"
    if item.startswith("cat"):
        return "op catalogue " + item.split("/")[1]
    for pre, s in SITE_OF:
        if rest.startswith(pre):
            return s
    return rest


def strip(items, prefix):
    return {k[len(prefix):]: v for k, v in items.items() if k.startswith(prefix)}


# ------------------------------------------------------------------------------------------------- python mirror of the checkers
def offenders(census):
    """rows that falsify a checker of IR/Census.v (mirror, used only to describe a broken proof and to focus the search)"""
    off = []
    if census is None:
        return off
    uses = census["set_uses"]

    def var_ok(f, owner, var):
        rows = [u for u in uses if u["file"] == f and u["owner"] == owner and u["var"] == var]
        return bool(rows) and all(u["kind"] in ("Membership", "Add", "Size") for u in rows)
    for d in census["draws"]:
        if d["class"] in ("LocalGenerator", "OsEntropy", "Clock"):
            off.append({"theorem": "random_sources_are_global_generators", "row": d})
        if d["class"] in ("GlobalNumpy", "GlobalPython") and d["fn"] in ("seed", "set_state", "setstate") and \
                not (d["file"] == "utils.py" and d["func"] == "manual_seed"):
            off.append({"theorem": "reseeding_only_in_manual_seed", "row": d})
        if d["class"] == "AddressOrHash" and not d["file"].startswith("visual/"):
            if not (d["use"] == "DedupKey" and var_ok(d["file"], d["owner"], d["set"])):
                off.append({"theorem": "no_address_or_hash_dependence", "row": d})
    for u in uses:
        if not u["file"].startswith("visual/") and u["kind"] not in ("Membership", "Add", "Size"):
            off.append({"theorem": "no_set_iteration", "row": u})
    sb = census["seed_body"]
    good = len(sb) == 2 and sorted(s["callee"] for s in sb) == ["SeedNumpy", "SeedPython"] and all(s["arg"] == "ArgParam" for s in sb)
    if not good or not census["seed_exported"]:
        off.append({"theorem": "manual_seed_seeds_both", "row": {"seed_body": sb, "exported": census["seed_exported"]}})
    for h in census["hash_defs"] + census.get("order_defs", []):
        off.append({"theorem": "no_address_or_hash_dependence", "row": h})
    for s in census["sorts"]:
        if not (s["has_key"] or s.get("elems") == "ElemsNumeric"):
            off.append({"theorem": "no_address_or_hash_dependence", "row": s})
    for s in census["uninits"]:
        if not (s["file"] == "tensor.py" and s["func"] == "empty"):
            off.append({"theorem": "uninitialised_memory_only_in_empty", "row": s})
    for s in census.get("empty_uses", []):
        if not s["initialised"]:
            off.append({"theorem": "empty_results_fully_initialised", "row": s})
    for s in census["visual_imports"]:
        if not ((s["file"] == "__init__.py" and s["func"] == "<module>") or (s["file"] == "tensor.py" and s["func"] == "Tensor.draw_graph")):
            off.append({"theorem": "visual_reached_only_from_draw_graph", "row": s})
    return off


# ------------------------------------------------------------------------------------------------- self-checks
def selfchecks(ctx, census):
    from lib import c19_selfcheck as S
    from lib.py2coq import gen_census as G
    # (iv) unit snippets (the translator's name resolution and use classification)
    n, nt, mism = S.unit_cases()
    ctx.tie("census/unit snippets", "translator-selfcheck", n, nt, mism, exhaustive=True,
            note="synthetic sources: import aliases, from-imports, function-local imports, assigned aliases, importlib constants, "
                 "parameters/locals/attributes that merely spell like a watched module, closures over sets, escapes, fail-closed cases")
    # (iii) tables vs the installed modules
    n, nt, mism = S.table_check()
    ctx.tie("census/classification tables vs numpy.random and random", "translator-selfcheck", n, nt, mism, exhaustive=True,
            note="every public name of numpy.random / random is classified; every name classified Global* is a bound method of the "
                 "module-level generator object (np.random.mtrand._rand / random._inst); np.random.seed resets that object's state")
    if census is None:
        return
    # (i) token scan
    root, files = G.package_files()
    hits = S.token_scan(root, files)
    n, nt, mism = S.compare_tokens(census, hits)
    ctx.tie("census/token scan of the sources", "translator-selfcheck", n, nt, mism, exhaustive=True,
            note="tokenize-based scan (no ast) of all %d files for random/urandom/secrets/uuid/time./datetime./generator constructors/"
                 "hash(/id(/set(/frozenset(/{..} set and dict displays/dict constructors/sorted(/.sort(/__hash__/__eq__/np.empty; every hit "
                 "must be a census row on the same file+line and every syntactic census row must be hit" % len(files))
    # (ii) dynamic trace
    seed = ctx.rng.randrange(1, 10 ** 6)
    p = subprocess.run([common.PY, TRACER, "--seed", str(seed)], env=_env("0"), stdout=subprocess.PIPE, stderr=subprocess.PIPE,
                       text=True, cwd=common.ROOT, timeout=300)
    k = p.stdout.find("@@TRACE@@")
    mism = []
    cases = nontriv = 0
    if p.returncode != 0 or k < 0:
        mism.append({"tracer": "failed", "exit": p.returncode, "stderr": p.stderr[-600:]})
    else:
        tr = json.loads(p.stdout[k + 9:].strip().splitlines()[0])
        observed = {}
        empty_obs = {}
        for rel, line, qual, module, fn, count in tr["sites"]:
            if module == "synapgrad":
                empty_obs[(rel, line)] = (qual, count)
                continue
            observed[(rel, line, fn)] = (qual, module, count)
        erows = {(r["file"], r["line"]): r for r in census.get("empty_uses", [])}
        for key in sorted(set(empty_obs) | set(erows)):
            cases += 1
            if key in empty_obs and key not in erows:
                mism.append({"site": list(key), "problem": "synapgrad.empty called at run time from %s but no empty_use row" % empty_obs[key][0]})
            elif key not in empty_obs:
                mism.append({"site": list(key), "problem": "empty_use row (%s) never exercised by the constructor sweep" % erows[key]["func"]})
            else:
                nontriv += 1
                if empty_obs[key][0] != erows[key]["func"]:
                    mism.append({"site": list(key), "problem": "enclosing function differs: observed %s, census %s" % (empty_obs[key][0], erows[key]["func"])})
        rows = {}
        for d in census["draws"]:
            rows.setdefault((d["file"], d["line"], d["fn"]), d)
        for key in sorted(set(observed) | set(rows)):
            cases += 1
            o, r = observed.get(key), rows.get(key)
            if o is not None and r is None:
                mism.append({"site": list(key), "problem": "call observed at run time (%s.%s from %s) but no census row" % (o[1], key[2], o[0])})
            elif o is None and r is not None:
                if r["file"].startswith("visual/"):
                    continue                        # needs graphviz; excluded module
                if not r["live"]:
                    nontriv += 1                    # dead code: must not be observed, and is not
                    continue
                if r["class"] in ("GlobalNumpy", "GlobalPython", "AddressOrHash"):
                    mism.append({"site": list(key), "problem": "census row (%s) never exercised by the program" % r["class"]})
                # rows of the forbidden classes are reported by the theorem; not being exercised is not a disagreement
            else:
                nontriv += 1
                if not r["live"]:
                    mism.append({"site": list(key), "problem": "census marks the call as dead code but it was executed"})
                if o[0] != r["func"]:
                    mism.append({"site": list(key), "problem": "enclosing function differs: observed %s, census %s" % (o[0], r["func"])})
                want_mod = {"GlobalNumpy": "numpy.random", "GlobalPython": "random", "AddressOrHash": "builtin"}.get(r["class"])
                if want_mod is not None and o[1] != want_mod:
                    mism.append({"site": list(key), "problem": "census class %s but the call went to %s" % (r["class"], o[1])})
        ctx.sample({"dynamic_trace_sites": tr["sites"][:6]})
    ctx.tie("census/dynamic call-site trace", "translator-selfcheck", cases, nontriv, mism, exhaustive=True,
            note="recording wrappers on numpy.random.*, random.*, generator constructors, os.urandom, time.*, uuid, secrets, id, hash; "
                 "program = lib/c19_program.py (rand/randn/normal/randint, all nn.init.*_, Linear/Conv1d/Conv2d/BatchNorm ctors, Dropout "
                 "train, split_dataset(shuffle), training with SGD/Adam/AdamW, Module.parameters, manual_seed); sites inside synapgrad/ only")


# ------------------------------------------------------------------------------------------------- supporting runs
def compare_runs(ctx, cfgs, results, label):
    """cross-process / in-process / repetition comparisons; returns list of mismatch dicts (each replayable)"""
    mism_cross, mism_rerun, mism_fixed, mism_vac, mism_chk = [], [], [], [], []
    n_cross = n_rerun = n_fixed = n_chk = 0
    by_seed = {}
    for c, r in zip(cfgs, results):
        if "error" in r:
            mism_cross.append({"config": c, "error": r})
            continue
        by_seed.setdefault(c["seed"], []).append((c, r))
    seeds = sorted(by_seed)
    # which items really depend on the seed (measured): differ between two seeds
    seed_dependent = set()
    if len(seeds) >= 2:
        a, b = by_seed[seeds[0]][0][1], by_seed[seeds[1]][0][1]
        for k in a["items"]:
            if k in b["items"] and a["items"][k] != b["items"][k]:
                seed_dependent.add(k)
        for k in a["random_items"]:
            if k in b["items"] and a["items"][k] == b["items"][k]:
                mism_vac.append({"item": k, "seeds": [seeds[0], seeds[1]], "problem": "a random item has the same bytes under two different seeds"})
    for s in seeds:
        (c0, r0) = by_seed[s][0]
        for (c, r) in by_seed[s][1:]:
            keys = set(r0["items"]) | set(r["items"])
            for k in sorted(keys):
                n_cross += 1
                if r0["items"].get(k) != r["items"].get(k):
                    mism_cross.append({"runs": [c0, c], "items": [k, k], "hashes": [r0["items"].get(k), r["items"].get(k)]})
        for (c, r) in by_seed[s]:
            r1, r2 = strip(r["items"], "run1/"), strip(r["items"], "run2/")
            c1, c2 = strip(r["items"], "cat1/"), strip(r["items"], "cat2/")
            for pa, pb, A, B in (("run1/", "run2/", r1, r2), ("cat1/", "cat2/", c1, c2)):
                for k in sorted(set(A) | set(B)):
                    n_rerun += 1
                    if A.get(k) != B.get(k):
                        mism_rerun.append({"runs": [c, c], "items": [pa + k, pb + k], "hashes": [A.get(k), B.get(k)]})
            got, want = strip(r["items"], "chk/got/"), strip(r["items"], "chk/want/")
            for k in sorted(set(got) | set(want)):
                n_chk += 1
                if got.get(k) != want.get(k):
                    mism_chk.append({"runs": [c, c], "items": ["chk/got/" + k, "chk/want/" + k], "hashes": [got.get(k), want.get(k)],
                                     "values": {"got": r.get("chk_values", {}).get("chk/got/" + k), "want": r.get("chk_values", {}).get("chk/want/" + k)}})
            f0 = strip(r["items"], "fixed/0/")
            for i in range(1, c["reps"]):
                fi = strip(r["items"], "fixed/%d/" % i)
                for k in sorted(set(f0) | set(fi)):
                    n_fixed += 1
                    if f0.get(k) != fi.get(k):
                        mism_fixed.append({"runs": [c, c], "items": ["fixed/0/" + k, "fixed/%d/" % i + k], "hashes": [f0.get(k), fi.get(k)]})
    n_items = max([len(r["items"]) for r in results if "error" not in r] or [0])
    hs = sorted(set(str(c["hashseed"]) for c in cfgs))
    ctx.tie("%s: same seed, fresh processes, PYTHONHASHSEED in %s, perturbed allocation layouts" % (label, hs), "correspondence",
            n_cross, len(seed_dependent) * max(0, len(cfgs) - len(seeds)), mism_cross,
            note="%d processes, %d seeds, %d arrays each; SHA-256 of (dtype, shape, bytes) of every produced array must be identical; "
                 "non-trivial = comparisons of arrays whose bytes depend on the seed (measured)" % (len(cfgs), len(seeds), n_items))
    ctx.tie("%s: re-seeding in the same process reproduces every array" % label, "correspondence", n_rerun,
            len([k for k in seed_dependent if k.startswith(("run1/", "cat1/"))]) * len(cfgs), mism_rerun,
            note="body executed twice per process, second time after manual_seed(s) again (global state left by the first run: "
                 "BatchNorm running stats, optimizer state, grad buffers of old graphs)")
    ctx.tie("%s: fixed data, forward/backward repeated" % label, "correspondence", n_fixed, n_fixed, mism_fixed,
            note="no randomness: diamond + batch-norm + losses + conv/pool graph rebuilt and differentiated N times per process "
                 "(and compared across processes by the first tie)")
    ctx.tie("%s: direct statements (manual_seed(s) == np.random.seed(s); random.seed(s) on the first draws; positions no window covers are exact zeros)" % label,
            "correspondence", n_chk, n_chk, mism_chk,
            note="per process: first draws of both global generators after manual_seed(s) vs after seeding them directly (special seeds 0, 1, 2**32-1, 1337 included); "
                 "gradients of pooling / forward of fold at positions not covered by any window (stride > dilated kernel extent) vs zeros, with junk (NaN / 1e30) of the "
                 "buffers' sizes allocated and freed before every call; ctor_part: every layer class x every option combination constructed with junk "
                 "(NaN / 1e30 / -3.25 / 7) of the buffers' sizes in the heap: all parameters, buffers and outputs finite, tracked BatchNorm starts at "
                 "running_mean = 0 / running_var = 1, affine BatchNorm at weight = 1 / bias = 0, every layer class has a construction recipe")
    ctx.tie("%s: a different seed changes the random items (non-vacuity of the oracle)" % label, "correspondence",
            len(results[0].get("random_items", [])) if results and "error" not in results[0] else 0, len(seed_dependent), mism_vac,
            note="items the program flags as random must differ between seeds %s" % seeds[:2])
    return mism_chk + mism_fixed + mism_rerun + mism_cross


def report_witnesses(ctx, mism, limit=3):
    seen = set()
    n = 0
    for m in mism:
        if "error" in m or "runs" not in m:
            continue
        site = site_of(m["items"][0])
        if site in seen:
            continue
        seen.add(site)
        a, b = m["runs"]
        klass = "direct-statement" if m["items"][0].startswith("chk/") else "cross-process" if a is not b and a != b else ("fixed-repetition" if m["items"][0].startswith("fixed/") else "in-process-rerun")
        ctx.witness(site, klass, {"runs": [a, b], "items": m["items"], "program": "lib/c19_program.py"},
                    "identical SHA-256 of (dtype, shape, bytes) for the same seed",
                    {"hashes": m["hashes"], **({"values": m["values"]} if "values" in m else {})},
                    note="python lib/c19_program.py --seed S --perturb K --reps N --catalog C with PYTHONHASHSEED=H for each run; compare the two items")
        n += 1
        if n >= limit:
            break
    return n


def make_cfgs(ctx, seeds, hashseeds, reps, catalog):
    cfgs = []
    for s in seeds:
        for i, h in enumerate(hashseeds):
            cfgs.append({"seed": s, "hashseed": h, "perturb": 0 if i == 0 else ctx.rng.randrange(1, 600), "reps": reps, "catalog": catalog})
    return cfgs


# ------------------------------------------------------------------------------------------------- the check
def run(ctx):
    ctx.trusted += [
        "NumPy's legacy global generator (MT19937 behind np.random.*) and Python's random module produce a stream determined by the "
        "seed; np.random.seed / random.seed reset it (observed by the table self-check, not proved)",
        "dict / OrderedDict iterate in insertion order (language definition, Python >= 3.7)",
        "the census table of which numpy.random / random names are functions of the global generators (checked against the installed "
        "modules on every run)",
    ]
    ctx.assumptions += [
        "outside the model: bit-identity across processes rests on NumPy kernels and BLAS being deterministic functions of their "
        "inputs (OMP_NUM_THREADS=1, same NumPy build); supported by the cross-process runs, not proved",
        "synapgrad/visual/* (Graphviz drawing; iterates sets, labels nodes by id) is excluded from the set/hash theorems; it is "
        "reached only from Tensor.draw_graph (theorem visual_reached_only_from_draw_graph)",
        "intra-procedural set tracking: a set that leaves its function is recorded as Escape (counted as a violation), sets "
        "produced by third-party calls are not visible to the census",
    ]
    # ---- T: regenerate --------------------------------------------------------------------------------------
    res = py2coq.run(["census"])
    census = None
    if res["census"] is not None:
        ctx.broken.append({"kind": "translator", "what": "gen_census fail-closed: %r" % (res["census"],),
                           "detail": "a construct in a watched category could not be classified (or a source file does not parse)"})
        ctx.log("TRANSLATOR RAISED", repr(res["census"]))
    else:
        census = json.load(open(os.path.join(common.ROOT, "work", "census.json")))
    # ---- obligations ---------------------------------------------------------------------------------------------
    ok_build, fails = ctx.build_props(extra_targets=["IR/Census.vo", "Gen/GenCensus.vo", "Proofs/CensusProofs.vo", "Proofs/DfsProofs.vo"])
    off = offenders(census)
    if census is not None:
        ctx.extra["census_counts"] = {k: len(v) for k, v in census.items() if isinstance(v, list)}
        ctx.extra["census_excluded_rows"] = [u for u in census["set_uses"] if u["file"].startswith("visual/") and u["kind"] not in ("Membership", "Add", "Size")] + \
                                            [d for d in census["draws"] if d["file"].startswith("visual/") and d["class"] == "AddressOrHash"]
        ctx.sample({"census_draw_row": census["draws"][0] if census["draws"] else None})
        ctx.sample({"census_set_use_row": next((u for u in census["set_uses"] if u["var"] == "visited_nodes"), None)})
    if off:
        ctx.extra["census_offenders"] = off[:20]
        for b in ctx.broken:
            if b.get("kind") == "proof":
                b["offending_census_rows"] = off[:10]
        if ok_build:
            # the python mirror and Coq disagree: never silently pass
            ctx.broken.append({"kind": "translator", "what": "python mirror of the checkers finds offending rows but the Coq build succeeded",
                               "detail": json.dumps(off[:3], default=str)[:600]})
    # ---- self-checks -------------------------------------------------------------------------------------------------
    selfchecks(ctx, census)
    # ---- K: supporting runs ---------------------------------------------------------------------------------------------
    special = [0, 1, 2 ** 32 - 1, 1337]          # falsy / boundary seeds: manual_seed must seed for every int in 0 .. 2**32-1
    if ctx.quick:
        seeds = [ctx.rng.randrange(2, 2 ** 31) for _ in range(2)]
        reps, catalog = 4, 0
        hs = HASHSEEDS
        cfgs = make_cfgs(ctx, seeds, hs, reps, catalog) + make_cfgs(ctx, special, ["0", "random"], 1, -1)
    else:
        seeds = [ctx.rng.randrange(2, 2 ** 31) for _ in range(3)]
        reps, catalog = 8, 0
        hs = HASHSEEDS + ["2", "4294967295", "random", "random"]
        cfgs = make_cfgs(ctx, seeds, hs, reps, catalog) + make_cfgs(ctx, special, HASHSEEDS, 2, -1)
    seeds = seeds + special
    ctx.log("self-checks done; running %d processes" % len(cfgs))
    results = run_configs(cfgs, par=16)
    ctx.log("processes done")
    ctx.sample({"run_config": cfgs[1], "n_arrays": len(results[1].get("items", {})), "meta": results[1].get("meta")})
    mism = compare_runs(ctx, cfgs, results, "seeded program")
    found = report_witnesses(ctx, mism)
    # ---- violation search: something is broken but the first batch agreed ---------------------------------------------
    if ctx.broken and not ctx.witnesses:
        ctx.log("violation search: %d broken item(s), no difference in the first batch; running more processes" % len(ctx.broken))
        ref = [(c, r) for c, r in zip(cfgs, results) if "error" not in r]
        rounds = 2 if ctx.quick else 8
        for rnd in range(rounds):
            time.sleep(1.1)                       # a clock-derived seed changes at least every second
            extra = []
            for s in seeds[:2]:
                for h in ("random", str(ctx.rng.randrange(0, 2 ** 32))):
                    # no op catalogue / one repetition: the search concentrates on the seeded body, with large layout perturbations
                    extra.append({"seed": s, "hashseed": h, "perturb": ctx.rng.randrange(1, 20000), "reps": 1, "catalog": -1})
            rs = run_configs(extra)
            m2 = []
            for c, r in zip(extra, rs):
                if "error" in r:
                    continue
                for (c0, r0) in ref:
                    if c0["seed"] != c["seed"]:
                        continue
                    for k in sorted(set(r0["items"]) & set(r["items"])):
                        if r0["items"].get(k) != r["items"].get(k):
                            m2.append({"runs": [c0, c], "items": [k, k], "hashes": [r0["items"].get(k), r["items"].get(k)]})
                    break
            ctx.extra["search_rounds"] = rnd + 1
            ctx.log("search round %d: %d differing item(s)" % (rnd + 1, len(m2)))
            if m2:
                report_witnesses(ctx, m2)
                break
    ctx.extra["processes_run"] = len(cfgs)


FINISH = dict(rule="census: every row of the generated lists (finite domain = the sites present in the source), decided by vm_compute; "
                   "self-checks: every token hit / observed call site / table entry / snippet; supporting runs: every produced array of "
                   "every process compared by SHA-256, non-trivial = arrays whose bytes depend on the seed (measured between two seeds)")


def replay(ctx, data):
    """Re-run a stored witness: the two configurations of the seeded program, compare the two named items."""
    if data.get("kind") != "failing-input":
        print(json.dumps(data.get("broken"), indent=1, default=str)); return 1
    inp = data["input"]
    a, b = inp["runs"]
    rs = run_configs([a, b] if a != b else [a])
    if any("error" in r for r in rs):
        print("program failed:", rs); return 1
    ra, rb = (rs[0], rs[1]) if len(rs) == 2 else (rs[0], rs[0])
    ha, hb = ra["items"].get(inp["items"][0]), rb["items"].get(inp["items"][1])
    print("run A %s item %s -> %s" % (a, inp["items"][0], ha))
    print("run B %s item %s -> %s" % (b, inp["items"][1], hb))
    if inp["items"][0].startswith("chk/"):
        print("values got ", ra.get("chk_values", {}).get(inp["items"][0])); print("values want", rb.get("chk_values", {}).get(inp["items"][1]))
    print("recorded", data["observed"])
    return 1 if ha != hb else 0
