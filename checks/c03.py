"""C03 — gradients of arbitrary op compositions obey the chain rule on any DAG.

Obligations : coq/Props/C03.v (sweep = sum over all paths for any post-order; each closure once; order independence;
              path enumeration = the set of paths; wrapper nodes satisfy the per-node hypotheses)
Ties        : K  random DAG programs over real ops (<= 2-element integer-valued float64 tensors) run on the real engine
                 vs Engine/{Dfs,Sweep,History}.v at the instance Z^2 / 2x2 matrices: every tensor's `_grad` (None vs
                 value), the sequence of closure invocations, which buffers exist afterwards - exactly
              K  the recorded arena (`_children`, requires_grad, grad_fn) vs the wrapper contract [op_node]
Oracle      : exact forward-mode AD over Fractions on the recorded program; closure-call counts; the same program with
              independent branches built in another order gives the same leaf gradients.
              Oracle-only stream (lib/engine_sweep.py): random DAG programs over the broad op catalogue (tensor + nn ops, rank 1-4
              float64) mirrored op by op in PyTorch: leaf grads, None-ness, one call per closure, construction-order independence.
"""
import json
from lib import engine_k as K
from lib import engine_sweep as W

SITE = "tensor.Tensor.backward"


def hand_programs():
    """The shapes the property names explicitly."""
    L = lambda i, d, req=True, shape=(): {"k": "leaf", "id": i, "data": d, "shape": list(shape), "req": req}
    O = lambda op, args, out, **kw: dict({"k": "op", "op": op, "args": args, "out": out}, **kw)
    B = lambda r, s, **kw: dict({"k": "backward", "root": r, "seed": s}, **kw)
    P = []
    # diamond
    P.append([L(0, [3]), O("mulc", [0], [1], p={"c": 2}), O("mulc", [0], [2], p={"c": 3}), O("mul", [1, 2], [3]), B(3, [1])])
    # same operand twice, twice
    P.append([L(0, [2]), O("mul", [0, 0], [1]), O("mul", [1, 1], [2]), B(2, [1])])
    # paths of different length to one leaf
    P.append([L(0, [2]), O("pow", [0], [1], p={"n": 2}), O("mul", [1, 0], [2]), O("add", [2, 0], [3]), O("mul", [3, 1], [4]), B(4, [2])])
    # multi-output op, both outputs used, one twice
    P.append([L(0, [2, 3], shape=(2,)), O("unbind", [0], [1, 2]), O("mul", [1, 2], [3]), O("add", [3, 1], [4]), B(4, [1])])
    # mixed requires_grad, non-differentiable branch joining a differentiable one
    P.append([L(0, [2]), L(1, [5], req=False), O("mul", [1, 1], [2]), O("mul", [0, 2], [3]), O("add", [3, 2], [4]), B(4, [1])])
    # retained node feeding two later consumers
    P.append([L(0, [2]), O("mulc", [0], [1], p={"c": 3}), {"k": "retain", "t": 1}, O("mul", [1, 1], [2]), O("add", [2, 1], [3]), B(3, [1])])
    # stack / sum / broadcast
    P.append([L(0, [2]), L(1, [3]), O("stack", [0, 1], [2]), O("mul", [2, 0], [3]), O("sum", [3], [4]), B(4, [1])])
    # a branch built inside no_grad joins the graph as a constant
    P.append([L(0, [2]), O("mul", [0, 0], [1], nograd=True), O("mul", [0, 1], [2]), B(2, [1])])
    # backward on a tensor that does not require grad raises
    P.append([L(0, [2], req=False), O("mul", [0, 0], [1]), B(1, [1])])
    # leaf gradient already present is accumulated into; interior stale buffer is not
    P.append([L(0, [2]), O("mul", [0, 0], [1]), O("mulc", [1], [2], p={"c": 5}), B(1, [1]), B(2, [1])])
    return P


def exhaustive_programs():
    """Every program  t0, t1 leaves (all requires_grad combinations); t2 = op1(ta, tb); t3 = op2(tc, td); t3.backward()
    with op in {add, mul} and every choice of operands among the tensors that exist: 4 * 8 * 18 = 576 programs."""
    P = []
    for r0 in (True, False):
        for r1 in (True, False):
            for o1 in ("add", "mul"):
                for a in range(2):
                    for b in range(2):
                        for o2 in ("add", "mul"):
                            for c in range(3):
                                for d in range(3):
                                    P.append([{"k": "leaf", "id": 0, "data": [2], "shape": [], "req": r0},
                                              {"k": "leaf", "id": 1, "data": [3], "shape": [], "req": r1},
                                              {"k": "op", "op": o1, "args": [a, b], "out": [2]},
                                              {"k": "op", "op": o2, "args": [c, d], "out": [3]},
                                              {"k": "backward", "root": 3, "seed": [1]}])
    return P


def reorder(steps, rng):
    """The same program with independent steps in another (random topological) order."""
    head = [s for s in steps if s["k"] in ("leaf", "op")]
    tail = [s for s in steps if s["k"] not in ("leaf", "op")]
    if any(steps.index(t) < steps.index(h) for t in tail for h in head):
        return None
    done, out, pending = set(), [], list(head)
    while pending:
        ready = [s for s in pending if s["k"] == "leaf" or all(a in done for a in s["args"])]
        s = rng.choice(ready)
        pending.remove(s)
        out.append(s)
        done.update([s["id"]] if s["k"] == "leaf" else s["out"])
    return out + tail


def leaf_grads(E, steps):
    res = {}
    for st in steps:
        if st["k"] == "leaf" and st["id"] in E.pool:
            g = E.pool[st["id"]]._grad
            res[st["id"]] = None if g is None else K.vec2(g)
    return res


def structure_key(E):
    return repr([(tuple(c), r, f) for c, r, f, _ in K.arena_of(E.R)])


def interesting(E):
    """shared operand / repeated operand / diamond, and at least three closure calls"""
    ar = K.arena_of(E.R)
    parents = {}
    for n, (ch, *_r) in enumerate(ar):
        for c in ch:
            parents[c] = parents.get(c, 0) + 1
    last = [o for o in E.obs if isinstance(o, dict)]
    return any(v >= 2 for v in parents.values()) and bool(last) and len(last[-1]["log"]) >= 3


def sweep(ctx, failures):
    """Oracle-only stream: random DAG programs over the broad catalogue of real tensor and nn ops (rank 1-4, float64), mirrored
    op by op in PyTorch; see lib/engine_sweep.py for the four clauses that are judged."""
    rng = ctx.rng
    want = 150 if ctx.quick else 2000
    n = rejected = reordered = 0
    ops, structures, crashed = {}, set(), []
    while n < want and rejected < 20 * want:
        prog = W.gen_program(rng)
        try:
            R = W.execute(prog)
        except W.Reject:
            rejected += 1
            continue
        except Exception as ex:            # an op of the catalogue raised on a well-formed program
            v = {"clause": "program runs", "error": "%s: %s" % (type(ex).__name__, str(ex)[:200])}
            crashed.append((prog, v))
            n += 1
            continue
        n += 1
        prog = dict(prog, root=R.root, pre_root=R.pre_root, pre=R.pre_root is not None)
        for st in prog["steps"]:
            if st["k"] == "op":
                ops[st["op"]] = ops.get(st["op"], 0) + 1
        structures.add(repr([(st.get("op"), st.get("args")) for st in prog["steps"]]))
        v = W.judge(prog, R)
        if v is None:
            try:
                v, did = W.judge_reorder(prog, R, rng)
                reordered += 1 if did else 0
            except W.Reject:
                v = None
            except Exception as ex:
                v = {"clause": "the reordered program runs", "error": "%s: %s" % (type(ex).__name__, str(ex)[:200])}
        if v:
            failures.append((prog, v))
    # a crash is only reported if nothing more specific failed
    if not failures and crashed:
        failures.extend(crashed[:1])
    mism = []
    if failures:
        prog, v = min(failures, key=lambda t: len(t[0]["steps"]))
        clause = v.get("clause")

        def same(p):
            x = W.fails(p)
            return x if (x and x.get("clause") == clause) else None
        small = W.shrink(prog, same) if clause and "order" not in clause and clause != "program runs" else prog
        v2 = W.fails(small) or v
        failures[:] = [(small, v2)]
        mism = [{"program": W.describe(small), "verdict": v2, "failing_programs": len(failures)}]
    ctx.tie("catalogue sweep vs PyTorch (oracle only)", "oracle-sweep", n, len(structures), mism,
            note="random DAG programs (depth<=10, <=30 nodes, fan-out<=4, shared and repeated operands, multi-output unbind, mixed requires_grad, "
                 "segments under no_grad) over %d real ops on float64 tensors of rank 1-4, mirrored op by op in PyTorch; judged: leaf grads == torch "
                 "(rtol 1e-9), None exactly where torch has None, no grad on non-requiring leaves, each closure exactly once and exactly the reachable "
                 "ones, %d programs rebuilt in another construction order (rtol 1e-12); %d draws rejected (kink/tie/range); op usage: %s"
                 % (len(ops), reordered, rejected, json.dumps(dict(sorted(ops.items())))))
    ctx.extra["sweep_programs"] = n
    ctx.extra["sweep_ops"] = ops


def run(ctx):
    # wrapper summaries regenerated from the source (accumulate-with-+= contract of every op) and the multi-pass scenarios
    # over every catalogued op (retained / former-root buffers, reused upstream gradients): checks/wrappers.py
    from checks import wrappers as _wrappers
    _wrappers.run_part(ctx)
    rng = ctx.rng
    ctx.build_props(extra_targets=["Engine/History.vo"])
    nprog = 480 if ctx.quick else 6000
    progs = hand_programs()
    while len(progs) < nprog:
        progs.append(K.gen_program(rng))
    execs, kept, skipped, raised = [], [], 0, 0
    oracle_fail = []
    for steps in progs:
        E = K.execute(steps)
        if not K.usable(E):
            skipped += 1
            continue
        execs.append(E); kept.append(steps)
        if E.raised_at is not None:
            raised += 1
        v = K.oracle_judge(E) or K.oracle_call_counts(E)
        if v:
            oracle_fail.append((steps, v))
    ctx.sample({"program": K.describe(kept[0]), "arena(children,req,has_fn,retain)": K.arena_of(execs[0].R),
                "observed_after_backward": execs[0].obs[-1]})
    ctx.sample({"program": K.describe(kept[len(kept) // 2]), "observed_after_backward": execs[len(kept) // 2].obs[-1]})
    tm, cm, errs = K.run_corr(ctx, execs, "dag", chunk=240)
    distinct = len({structure_key(E) for E in execs if interesting(E)})
    mism = list(errs)
    for i in tm:
        mism.append({"program": K.describe(kept[i]), "steps": kept[i], "implementation": [o for o in execs[i].obs if o is not None][-1]})
    ctx.tie("engine/backward: buffers + closure log", "correspondence", len(execs), distinct, mism,
            note="random DAG programs (<=40 nodes, depth<=12, fan-out<=4, mixed requires_grad, shared and repeated operands, "
                 "multi-output unbind, stack/sum/matmul/broadcast, branches inside no_grad, stale buffers / existing leaf gradients "
                 "before the call); compared after every event: every tensor's _grad (None vs exact value) and the sequence of "
                 "closure invocations; %d programs end in the expected RuntimeError; %d discarded by the exactness guard" % (raised, skipped))
    mism = [{"program": K.describe(kept[i]), "steps": kept[i], "arena": K.arena_of(execs[i].R), "init_args": K.creation_specs(execs[i].R)} for i in cm]
    ctx.tie("engine/arena vs wrapper contract", "correspondence", len(execs), distinct, mism + list(errs),
            note="children/requires_grad/grad_fn of every created tensor vs op_node (req = any(operands) and mode; has_fn iff req; "
                 "children = () iff not req), operands older than results (wf)")

    # ---- exhaustive small space ---------------------------------------------------------------------
    small = exhaustive_programs()
    sx = [K.execute(p) for p in small]
    for p, E in zip(small, sx):
        v = K.oracle_judge(E) or K.oracle_call_counts(E)
        if v:
            oracle_fail.append((p, v))
    tm, cm, errs = K.run_corr(ctx, sx, "small", chunk=192)
    mism = list(errs) + [{"program": K.describe(small[i]), "steps": small[i], "implementation": [o for o in sx[i].obs if o is not None][-1]} for i in tm]
    mism += [{"program": K.describe(small[i]), "arena": K.arena_of(sx[i].R), "contract": "violated"} for i in cm]
    ctx.tie("engine/all two-op programs over two leaves", "correspondence", len(sx), len({structure_key(E) for E in sx}), mism, exhaustive=True,
            note="every choice of operands, op in {add, mul}, every requires_grad combination; %d of them must raise (root does not require grad)"
                 % sum(1 for E in sx if E.raised_at is not None))

    # ---- oracle: order of construction of independent branches --------------------------------------
    nre = 150 if ctx.quick else 1500
    tried = 0
    for steps, E in list(zip(kept, execs))[10:]:
        if tried >= nre:
            break
        if E.raised_at is not None:
            continue
        alt = reorder(steps, rng)
        if alt is None or alt == steps:
            continue
        tried += 1
        E2 = K.execute(alt)
        g1, g2 = leaf_grads(E, steps), leaf_grads(E2, alt)
        if g1 != g2:
            oracle_fail.append((alt, {"problem": "leaf gradients depend on the construction order", "original_order": K.describe(steps),
                                       "grads_original": g1, "grads_reordered": g2}))
    # ---- oracle-only stream over the broad op catalogue, mirrored in PyTorch (no Coq model involved) -----------
    sweep(ctx, oracle_fail_sweep := [])
    ctx.extra["oracle_programs_judged"] = len(execs)
    ctx.extra["oracle_reordered_programs"] = tried
    if oracle_fail_sweep:
        prog, v = oracle_fail_sweep[0]
        ctx.witness(SITE, "chain-rule/catalogue", {"sweep_program": prog, "program": W.describe(prog)},
                    "every leaf's .grad equals the gradient of the composed function (PyTorch mirror, rtol 1e-9), None where it does not require grad "
                    "or is not reached; each closure exactly once; independent of construction order", v)
    if oracle_fail:
        steps, v = min(oracle_fail, key=lambda t: len(t[0]))
        ctx.witness(SITE, "chain-rule", {"steps": steps, "program": K.describe(steps)},
                    "every leaf that requires grad holds old + seed * (sum over all paths of the product of local derivatives); each closure once",
                    v)


FINISH = dict(rule="random programs from a seeded generator plus 10 hand-written shapes; non-trivial = distinct recorded graph structures that "
                   "contain a tensor with >= 2 consumers (or used twice by one op) and whose last backward invoked >= 3 closures")


def replay(ctx, data):
    if data.get("kind") != "failing-input":
        print(json.dumps(data.get("broken"), indent=1)); return 1
    if "sweep_program" in data["input"]:
        prog = data["input"]["sweep_program"]
        v = W.fails(prog)
        print("\n".join(W.describe(prog)))
        print("oracle verdict:", v)
        return 1 if v else 0
    steps = data["input"]["steps"]
    E = K.execute(steps)
    v = K.oracle_judge(E) or K.oracle_call_counts(E)
    print("\n".join(K.describe(steps)))
    print("oracle verdict:", v)
    return 1 if v else 0
