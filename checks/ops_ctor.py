"""C05 part: tensor constructors (shape-argument forms, arange, eye) — model NumPy/Ctor.v vs the implementation."""
import itertools
from lib.common import cz, clist


def sarg(a):
    if isinstance(a, int):
        return "SInt %s" % cz(a)
    return "SSeq %s" % clist([cz(x) for x in a])


def run_part(ctx):
    from lib import impl
    import torch
    sg, np = impl.synapgrad, impl.np
    ctx.build_props("Props/C05_ctor.v", extra_targets=["NumPy/Ctor.vo"])
    forms = [()]
    vals = [0, 1, 2, 3]
    for r in (1, 2, 3):
        for t in itertools.product(vals, repeat=r):
            forms.append(t)                 # varargs
            forms.append((tuple(t),))       # one tuple
            forms.append((list(t),))        # one list
    forms += [(2, (3,)), ((2,), 3), (-1,), (2, -3), ((2, -1),), ((),), ([],)]
    rows, mism, oracle_bad = [], [], []
    ctors = [("ones", sg.ones, 1.0), ("zeros", sg.zeros, 0.0), ("empty", sg.empty, None), ("rand", sg.rand, None), ("randn", sg.randn, None)]
    distinct = set()
    for name, fn, fill in ctors:
        for f in forms:
            try:
                t = fn(*f)
                got = list(t.shape)
                if fill is not None and not np.all(t.data == fill):
                    oracle_bad.append((name, f, "values"))
                if str(t.dtype) != "float32":
                    oracle_bad.append((name, f, "dtype %s" % t.dtype))
            except Exception:
                got = None
            # oracle (independent of the Coq model): the documented forms are varargs of ints or one list/tuple of ints;
            # an accepted call must have exactly numpy's shape for those sizes; anything else must raise
            if len(f) == 1 and isinstance(f[0], (list, tuple)):
                sizes = list(f[0])
            else:
                sizes = list(f)
            legal = all(isinstance(x, int) and x >= 0 for x in sizes)
            if got is not None and (not legal or got != sizes):
                oracle_bad.append((name, f, {"synapgrad": got, "documented": sizes if legal else "illegal form"}))
            if got is None and legal and not (name in ("rand", "randn") and sizes == []):
                oracle_bad.append((name, f, {"synapgrad": "rejected", "documented": sizes}))
            rows.append((f, got, name))
            distinct.add(repr(f))
    items = ["(%s, %s)" % (clist([sarg(a) for a in f]), "None" if got is None else "Some %s" % clist([cz(x) for x in got])) for f, got, _ in rows]
    # arange / eye
    ar = []
    for start, stop, step in itertools.product([-3, 0, 2], [-4, 0, 5, 9], [1, 2, 3, -1, -2]):
        try:
            t = sg.arange(start, stop, step)
            ar.append(((start, stop, step), len(t.data), [int(v) for v in t.data]))
            ref = list(range(start, stop, step))      # the documented semantics: start + k*step strictly before stop
            if ref != [int(v) for v in t.data]:
                oracle_bad.append(("arange", (start, stop, step), {"synapgrad": [int(v) for v in t.data], "range": ref}))
        except Exception:
            ar.append(((start, stop, step), None, None))
    aritems = ["((%s,%s,%s), %s)" % (cz(a), cz(b), cz(c), "None" if n is None else "Some %s" % cz(n)) for (a, b, c), n, _ in ar]
    valitems = []
    for (a, b, c), n, vals_ in ar:
        if n:
            valitems.append("((%s,%s), %s)" % (cz(a), cz(c), clist([cz(v) for v in vals_])))
    txt = """From Coq Require Import List ZArith Bool. Import ListNotations.
From SG Require Import Base.Cmp NumPy.Ctor.
Definition c1 : list (list sarg * option (list Z)) := [%s].
Definition c2 : list ((Z*Z*Z) * option Z) := [%s].
Definition c3 : list ((Z*Z) * list Z) := [%s].
Definition c1r : list (list sarg * option (list Z)) := [%s].
Eval vm_compute in (mismatches norm_shape_args (option_eqb (list_eqb Z.eqb)) c1).
Eval vm_compute in (mismatches norm_shape_args_rand (option_eqb (list_eqb Z.eqb)) c1r).
Eval vm_compute in (mismatches (fun '(a,b,c) => arange_len a b c) (option_eqb Z.eqb) c2).
Eval vm_compute in (mismatches (fun '(a,c) => map (arange_nth a c) (map Z.of_nat (seq 0 0))) (fun _ _ => true) c3).
Eval vm_compute in (mismatches (fun p => let '(a,c) := fst p in map (fun k => arange_nth a c (Z.of_nat k)) (seq 0 (length (snd p)))) (list_eqb Z.eqb) (map (fun p => (p, snd p)) c3)).
""" % (";\n ".join(it for it, r in zip(items, rows) if r[2] not in ("rand", "randn")), "; ".join(aritems), "; ".join(valitems),
       ";\n ".join(it for it, r in zip(items, rows) if r[2] in ("rand", "randn")))
    ok, out = ctx.coq_eval("ctor", txt)
    from checks.c07 import parse_natlist
    lists = parse_natlist(out)
    if not ok or len(lists) != 5:
        mism.append({"error": out[-500:]})
    else:
        r0 = [r for r in rows if r[2] not in ("rand", "randn")]
        r1 = [r for r in rows if r[2] in ("rand", "randn")]
        for i in lists[0]:
            mism.append({"ctor": r0[i][2], "args": repr(r0[i][0]), "implementation_shape": r0[i][1]})
        for i in lists[1]:
            mism.append({"ctor": r1[i][2], "args": repr(r1[i][0]), "implementation_shape": r1[i][1]})
        for i in lists[2]:
            mism.append({"arange": ar[i][0], "implementation_len": ar[i][1]})
        for i in lists[4]:
            mism.append({"arange_values": valitems[i]})
    # eye
    for n in (0, 1, 3):
        e = sg.eye(n)
        if not np.array_equal(e.data, np.eye(n)):
            oracle_bad.append(("eye", n, "values"))
    ctx.tie("constructors/shape-argument forms + arange", "correspondence", len(rows) + len(ar), len(distinct) + len(ar), mism, exhaustive=True,
            note="ones/zeros/empty/rand/randn on every varargs / tuple / list form with sizes in 0..3 up to rank 3 plus malformed forms; arange on a grid")
    ctx.sample({"ctor": "ones", "args": repr(forms[9]), "shape": rows[9][1]})
    # ---- operator forms with an ndarray on the left: NumPy must defer to Tensor's reflected operators -----------------
    import operator
    nd_bad, nd_cases = [], 0
    for shape_a, shape_b in [((2, 3), (2, 3)), ((3,), (2, 3)), ((2, 2), (2, 2)), ((1,), (2, 1))]:
        a = np.arange(1, 1 + int(np.prod(shape_a)), dtype=np.float64).reshape(shape_a)
        b = np.arange(2, 2 + int(np.prod(shape_b)), dtype=np.float64).reshape(shape_b)
        for opname, fn in (("+", operator.add), ("-", operator.sub), ("*", operator.mul), ("/", operator.truediv), ("@", operator.matmul)):
            if opname == "@" and not (len(shape_a) == 2 and len(shape_b) == 2 and shape_a[1] == shape_b[0]):
                continue
            nd_cases += 1
            t = sg.Tensor(b.copy(), requires_grad=True)
            try:
                r = fn(a, t)
            except Exception as ex:
                nd_bad.append((opname, shape_a, shape_b, "raised %r" % (ex,))); continue
            want = fn(a, b) if opname != "/" else a * b ** -1.0
            if not isinstance(r, sg.Tensor):
                nd_bad.append((opname, shape_a, shape_b, "result is %s (dtype %s), not a Tensor" % (type(r).__name__, getattr(r, "dtype", None))))
            elif r.shape != want.shape or not np.allclose(r.data, want, rtol=1e-12, atol=0) or not r.requires_grad:
                nd_bad.append((opname, shape_a, shape_b, {"shape": list(r.shape), "expected_shape": list(want.shape)}))
    ctx.tie("operators with an ndarray left operand (reflected forms)", "correspondence", nd_cases, nd_cases,
            [{"op": o, "ndarray": list(sa), "tensor": list(sb), "observed": w} for o, sa, sb, w in nd_bad], exhaustive=True,
            note="ndarray (+ - * / @) Tensor must return a Tensor with NumPy's value and shape and take part in the graph")
    for o, sa, sb, w in nd_bad[:2]:
        ctx.witness("Tensor.__r*__ with ndarray", "reflected-ndarray", {"op": "ndarray %s Tensor" % o, "ndarray_shape": list(sa), "tensor_shape": list(sb)},
                    "a Tensor with the NumPy value of the expression", w)
    for name, f, what in oracle_bad[:3]:
        ctx.witness("tensor." + name, "constructor", {"ctor": name, "args": repr(f)}, "shape/values/acceptance as torch.%s" % name, what)
