"""C16 — im2col/col2im variants agree and col2im is the exact adjoint of im2col.

Obligations : coq/Props/C16.v  (index maps of the six functions and of extract_windows/place_windows as the code computes
              them, proved equal to one closed form for every geometry with >= 1 window per axis; scatter = adjoint of
              gather; fold(unfold) multiplicity; pad positions; output-size formula and pooling window geometry)
Ties        : K  every function probed on a geometry grid (arange data + sentinel pad value for the forward maps,
                 distinct powers of 4 for the scatter multisets) and the tables compared with NumPy/Im2col.v inside Coq
              K  1-D extract_windows / place_windows on the exhaustive per-axis grid
              K  acceptance of empty / negative output geometries per function (malformed stream)
              K  int vs tuple geometry arguments (documented as interchangeable) accepted and equal
Layouts     : every probe and every oracle statement is repeated with the same logical argument stored C-contiguous,
              F-contiguous, as a fully / partially transposed view, as a strided slice of a larger array and with
              negative strides ("any x" includes its memory layout; the model abstracts from layout, the check ties that)
Sequences   : index arrays shared across im2col/col2im calls, and two images with one geometry: every call must give the
              model's table whatever was called before, earlier results and the caller's arrays must stay intact
Oracle      : direct NumPy statements on the implementation (no Coq): the three im2col outputs are array_equal, the three
              col2im outputs are equal, vdot(im2col x, y) == vdot(x, col2im y) on integer data, fold(unfold(ones)) equals
              the brute-force coverage count, a 15-line loop specification of unfold / windows, torch.nn.functional.unfold/fold.

Exports for the C06 check: geometry_cases(rng, quick), geometry_1d_cases(quick), axis_grid(...), spec_unfold(...).
"""
import json, os, re, time
from lib import common
from lib.common import cb, clist

KEYS = ("N", "C", "H", "W", "kH", "kW", "sH", "sW", "pH", "pW", "dH", "dW")
FWD = ("im2col", "im2col_v2", "im2col_fast")
BWD = ("col2im", "col2im_v2", "col2im_fast")
FN_NAMES = {0: "im2col(as_unfold=True)", 1: "im2col_v2(as_unfold=True)", 2: "im2col_fast(as_unfold=True)",
            3: "im2col", 4: "im2col_v2", 5: "im2col_fast", 6: "extract_windows",
            7: "col2im(3-D)", 8: "col2im_v2(3-D)", 9: "col2im_fast(3-D)", 10: "col2im(2-D)", 11: "col2im_v2(2-D)",
            12: "col2im_fast(2-D)", 13: "place_windows", 14: "nn.functional.unfold", 15: "nn.functional.fold",
            20: "extract_windows(1-D)", 21: "place_windows(1-D)"}
BAD = [-999]          # table of a call that raised / returned a wrong shape


def _impl():
    from lib import impl
    return impl


# ------------------------------------------------------------------ geometry generation
def out_size(L, k, s, p, d):
    return (L + 2 * p - d * (k - 1) - 1) // s + 1


def axis_grid(kmax=3, smax=3, pmax=2, dmax=2, Lmax=7, Lmin=1):
    """every per-axis geometry (L, k, s, p, d) of the grid with at least one window"""
    return [(L, k, s, p, d)
            for L in range(Lmin, Lmax + 1) for k in range(1, kmax + 1) for s in range(1, smax + 1)
            for p in range(0, pmax + 1) for d in range(1, dmax + 1) if out_size(L, k, s, p, d) >= 1]


def mk(n, c, ah, aw):
    return dict(N=n, C=c, H=ah[0], W=aw[0], kH=ah[1], kW=aw[1], sH=ah[2], sW=aw[2], pH=ah[3], pW=aw[3], dH=ah[4], dW=aw[4])


NC = [(1, 2), (2, 1), (1, 1), (2, 2), (2, 1), (1, 2)]


def geometry_cases(rng, quick=True):
    """2-D geometries {N,C,H,W,kH,kW,sH,sW,pH,pW,dH,dW}, all with >= 1 window per axis.
    quick   : every per-axis geometry of the grid k,s in 1..3, p in 0..2, d in 1..2, size 1..7 occurs on the H axis and on
              the W axis (paired with a shuffled partner), plus 100 random pairs  (445 geometries, N,C in {1,2})
    thorough: the same for the grid k,s in 1..4, size 1..9 with four independent pairings (~3000 geometries)"""
    if quick:
        ax = axis_grid()
        rounds, extra = 1, 100
    else:
        ax = axis_grid(kmax=4, smax=4, Lmax=9)
        rounds, extra = 4, 400
    out = []
    for _ in range(rounds):
        perm = list(ax)
        rng.shuffle(perm)
        for a, b in zip(ax, perm):
            n, c = NC[len(out) % len(NC)]
            out.append(mk(n, c, a, b))
    for _ in range(extra):
        n, c = NC[len(out) % len(NC)]
        out.append(mk(n, c, rng.choice(ax), rng.choice(ax)))
    return out


def small_product_cases(quick=True):
    """full product of the per-axis grid for small inputs (judged by the oracle only): quick H,W <= 4 with N=C=1"""
    ax = axis_grid(Lmax=4) if quick else axis_grid(Lmax=7)
    for a in ax:
        for b in ax:
            yield mk(1, 1, a, b)


def geometry_1d_cases(quick=True):
    ax = axis_grid() if quick else axis_grid(kmax=4, smax=4, Lmax=9)
    return [dict(N=NC[i % 6][0], C=NC[i % 6][1], W=a[0], k=a[1], s=a[2], p=a[3], d=a[4]) for i, a in enumerate(ax)]


def malformed_cases():
    """geometries whose output is empty or 'negative' on at least one axis (kernel span larger than the padded input)"""
    out = []
    for (h, w) in [(3, 3), (2, 4), (1, 5)]:
        for kh, kw, dh, dw in [(4, 4, 1, 1), (5, 5, 1, 1), (4, 2, 1, 1), (2, 4, 1, 1), (5, 2, 1, 1), (2, 6, 1, 1), (3, 3, 2, 2),
                               (2, 2, 3, 3), (3, 3, 3, 1), (6, 6, 1, 1), (4, 4, 2, 2), (2, 2, 5, 1), (2, 2, 1, 5)]:
            for s in (1, 2, 3):
                g = dict(N=1, C=2, H=h, W=w, kH=kh, kW=kw, sH=s, sW=s, pH=0, pW=0, dH=dh, dW=dw)
                if out_size(h, kh, s, 0, dh) < 1 or out_size(w, kw, s, 0, dw) < 1:
                    out.append(g)
    return out


def args_of(g):
    return dict(kernel=(g["kH"], g["kW"]), dilation=(g["dH"], g["dW"]), stride=(g["sH"], g["sW"]), padding=(g["pH"], g["pW"]))


def dims(g):
    lH = out_size(g["H"], g["kH"], g["sH"], g["pH"], g["dH"])
    lW = out_size(g["W"], g["kW"], g["sW"], g["pW"], g["dW"])
    return lH, lW, g["C"] * g["kH"] * g["kW"], lH * lW


# ------------------------------------------------------------------ probing the implementation
LAYOUTS = ("C", "F", "T", "partialT", "slice", "neg")


def relayout(a, kind):
    """the same logical array (equal shape and values) stored in another memory layout.  The model is layout independent,
    so every table / result must be unchanged.
      C        C-contiguous copy                      F        np.asfortranarray
      T        fully transposed view of a C array     partialT last two axes stored swapped (view)
      slice    strided slice [1::2, ...] of a larger array        neg   negative strides on the last two axes"""
    np = _impl().np
    a = np.asarray(a)
    if kind == "C":
        return np.ascontiguousarray(a)
    if kind == "F":
        return np.asfortranarray(a)
    if kind == "T":
        return np.ascontiguousarray(a.T).T
    if kind == "partialT":
        perm = list(range(a.ndim)); perm[-1], perm[-2] = perm[-2], perm[-1]
        return np.ascontiguousarray(a.transpose(perm)).transpose(perm)
    if kind == "slice":
        big = np.zeros(tuple(2 * d + 1 for d in a.shape), dtype=a.dtype)
        v = big[tuple(slice(1, None, 2) for _ in a.shape)]
        v[...] = a
        return v
    if kind == "neg":
        idx = (Ellipsis, slice(None, None, -1), slice(None, None, -1))
        return np.ascontiguousarray(a[idx])[idx]
    raise ValueError(kind)


def to_codes(arr):
    """result of a probe as exact integers; anything that is not a small integer (garbage read through a wrong stride,
    NaN, inf) becomes -998 so that the comparison fails instead of the harness"""
    np = _impl().np
    a = np.array(arr, dtype=np.float64).ravel()
    ok = np.isfinite(a) & (np.abs(a) < 2.0 ** 40)
    ok &= (np.where(ok, a, 0.0) == np.round(np.where(ok, a, 0.0)))
    return [int(v) if o else -998 for v, o in zip(a.tolist(), ok.tolist())]


def probe_forward(fn, g, unfold, layout="C"):
    impl = _impl(); np = impl.np
    N, C, H, W = g["N"], g["C"], g["H"], g["W"]
    a = args_of(g)
    lH, lW, R, L = dims(g)
    x = relayout((1 + np.arange(N * C * H * W, dtype=np.float64)).reshape(N, C, H, W), layout)
    try:
        out = fn(x, a["kernel"], dilation=a["dilation"], stride=a["stride"], padding=a["padding"], pad_value=-1.0, as_unfold=unfold)
    except Exception:
        return BAD
    want = (N, R, L) if unfold else (R, N * L)
    if tuple(out.shape) != want:
        return BAD
    return to_codes(out)


def probe_windows(g, layout="C"):
    impl = _impl(); np = impl.np
    N, C, H, W = g["N"], g["C"], g["H"], g["W"]
    a = args_of(g)
    lH, lW, R, L = dims(g)
    x = relayout((1 + np.arange(N * C * H * W, dtype=np.float64)).reshape(N, C, H, W), layout)
    try:
        out = impl.conv_tools.extract_windows(x, a["kernel"], a["stride"], a["padding"], a["dilation"], pad_value=-1.0)
    except Exception:
        return BAD
    if tuple(out.shape) != (lH, lW, N, C, g["kH"], g["kW"]):
        return BAD
    return to_codes(out)


def pow4(n):
    np = _impl().np
    y = np.empty(n, dtype=object)
    for i in range(n):
        y[i] = 4 ** i
    return y


def decode_scatter(img, n_src, npix):
    """image of big integers (entry s carries 4**s) -> sorted codes  s*(npix+1) + (1+pixel | 0 when s reached no pixel)"""
    seen = [0] * n_src
    out = []
    for pix, v in enumerate(img):
        try:
            v = int(v)
        except (ValueError, OverflowError, TypeError):
            return BAD
        if v < 0:
            return BAD
        s = 0
        while v:
            m = v & 3
            if m:
                if s >= n_src:
                    return BAD
                out.extend([s * (npix + 1) + 1 + pix] * m)
                seen[s] += m
            v >>= 2
            s += 1
    out.extend(s * (npix + 1) for s in range(n_src) if not seen[s])
    return sorted(out)


def probe_scatter(call, shape, g, layout="C"):
    """call(y) -> image (N,C,H,W); y has the given shape and carries distinct powers of 4"""
    impl = _impl(); np = impl.np
    n = 1
    for d in shape:
        n *= d
    y = relayout(pow4(n).reshape(shape), layout)
    try:
        img = call(y)
    except Exception:
        return BAD
    img = np.asarray(img)
    N, C, H, W = g["N"], g["C"], g["H"], g["W"]
    if tuple(img.shape) != (N, C, H, W):
        return BAD
    return decode_scatter(img.ravel().tolist(), n, N * C * H * W)


def probe_all(g, with_functional=True, layouts=LAYOUTS):
    """{function id: {layout: table}} for one geometry — the same logical input in every memory layout"""
    impl = _impl(); ct = impl.conv_tools
    a = args_of(g)
    N, C, H, W = g["N"], g["C"], g["H"], g["W"]
    lH, lW, R, L = dims(g)
    t = {}
    for lay in layouts:
        def put(fid, table):
            t.setdefault(fid, {})[lay] = table
        for k, name in enumerate(FWD):
            fn = getattr(ct, name)
            put(k, probe_forward(fn, g, True, lay))
            put(3 + k, probe_forward(fn, g, False, lay))
        put(6, probe_windows(g, lay))
        for k, name in enumerate(BWD):
            fn = getattr(ct, name)
            put(7 + k, probe_scatter(lambda y: fn(y, (N, C, H, W), a["kernel"], a["dilation"], a["stride"], a["padding"]), (N, R, L), g, lay))
            put(10 + k, probe_scatter(lambda y: fn(y, (N, C, H, W), a["kernel"], a["dilation"], a["stride"], a["padding"]), (R, N * L), g, lay))
        put(13, probe_scatter(lambda y: ct.place_windows(y, (N, C, H, W), a["kernel"], a["stride"], a["padding"], a["dilation"]),
                              (lH, lW, N, C, g["kH"], g["kW"]), g, lay))
        if with_functional:
            sg, NF = impl.synapgrad, impl.NF
            put(14, probe_forward(lambda x, k, dilation, stride, padding, pad_value, as_unfold:
                                  NF.unfold(sg.Tensor(x), k, dilation, stride, padding, pad_value).data, g, True, lay))
            put(15, probe_scatter(lambda y: NF.fold(sg.Tensor(y), (H, W), a["kernel"], a["dilation"], a["stride"], a["padding"]).data, (N, R, L), g, lay))
    return t


def probe_1d(g, layout="C"):
    impl = _impl(); np = impl.np; ct = impl.conv_tools
    N, C, W, k, s, p, d = g["N"], g["C"], g["W"], g["k"], g["s"], g["p"], g["d"]
    l = out_size(W, k, s, p, d)
    x = relayout((1 + np.arange(N * C * W, dtype=np.float64)).reshape(N, C, W), layout)
    try:
        out = ct.extract_windows(x, k, s, p, d, pad_value=-1.0)
        tw = to_codes(out) if tuple(out.shape) == (l, N, C, k) else BAD
    except Exception:
        tw = BAD
    n = l * N * C * k
    y = relayout(pow4(n).reshape(l, N, C, k), layout)
    try:
        img = np.asarray(ct.place_windows(y, (N, C, W), k, s, p, d))
        tc = decode_scatter(img.ravel().tolist(), n, N * C * W) if tuple(img.shape) == (N, C, W) else BAD
    except Exception:
        tc = BAD
    return tw, tc


# ------------------------------------------------------------------ call sequences: no state may leak between calls
def _snap(arrs):
    np = _impl().np
    return [(np.asarray(a).shape, np.asarray(a).dtype.str, np.ascontiguousarray(a).tobytes()) for a in arrs]


def probe_sequences(g):
    """Call sequences on one geometry.  The model is a pure function of (geometry, argument), so every call of a sequence
    must give the model's table whatever was called before, results handed out earlier must not change afterwards, and
    arrays owned by the caller (index arrays, inputs) must be bit-identical afterwards.
    Returns ({fid: {label: table}}, [failure dicts {site, klass, expected, observed}])."""
    impl = _impl(); np = impl.np; ct = impl.conv_tools; sg = impl.synapgrad; NF = impl.NF
    a = args_of(g)
    N, C, H, W = g["N"], g["C"], g["H"], g["W"]
    lH, lW, R, L = dims(g)
    n_in = N * C * H * W
    shp = (N, C, H, W)
    t, fails = {}, []

    def put(fid, label, table):
        t.setdefault(fid, {})[label] = table

    def fail(site, klass, expected, observed):
        fails.append(dict(site=site, klass=klass, expected=expected, observed=observed, seed=0))

    def codes_fwd(out, want, shift=0):
        if out is None or tuple(np.asarray(out).shape) != want:
            return BAD
        c = to_codes(out)
        return [v - shift if v > 0 else v for v in c] if shift else c

    def scatter_codes(img, n):
        img = np.asarray(img)
        if tuple(img.shape) != shp:
            return BAD
        return decode_scatter(img.ravel().tolist(), n, n_in)

    x1 = (1 + np.arange(n_in, dtype=np.float64)).reshape(shp)
    x2 = x1 + n_in
    kw = dict(dilation=a["dilation"], stride=a["stride"], padding=a["padding"])

    # ---- A. index arrays reused across calls (index-based variant) ------------------------------------------------
    y3 = pow4(N * R * L).reshape(N, R, L)
    y2 = pow4(N * R * L).reshape(R, N * L)
    for origin in ("get_im2col_indices", "return_indices"):
        try:
            if origin == "get_im2col_indices":
                idx = ct.get_im2col_indices(shp, kernel_size=a["kernel"], **kw)
                o1 = ct.im2col(x1, a["kernel"], pad_value=-1.0, col_indices=idx, as_unfold=True, **kw)
            else:
                o1, idx = ct.im2col(x1, a["kernel"], pad_value=-1.0, return_indices=True, as_unfold=True, **kw)
            snap = _snap(idx)
            put(0, "%s: im2col #1" % origin, codes_fwd(o1, (N, R, L)))
            c1, idx_b = ct.col2im(y3, shp, a["kernel"], a["dilation"], a["stride"], a["padding"], col_indices=idx, return_indices=True)
            put(7, "%s: col2im #1 (same indices)" % origin, scatter_codes(c1, N * R * L))
            c2 = ct.col2im(y3, shp, a["kernel"], a["dilation"], a["stride"], a["padding"], col_indices=idx_b)
            put(7, "%s: col2im #2 (same indices)" % origin, scatter_codes(c2, N * R * L))
            c3 = ct.col2im(y2, shp, a["kernel"], a["dilation"], a["stride"], a["padding"], col_indices=idx)
            put(10, "%s: col2im #3 (2-D, same indices)" % origin, scatter_codes(c3, N * R * L))
            o2 = ct.im2col(x1, a["kernel"], pad_value=-1.0, col_indices=idx, as_unfold=False, **kw)
            put(3, "%s: im2col #2 after three col2im (same indices)" % origin, codes_fwd(o2, (R, N * L)))
            if _snap(idx) != snap:
                changed = [nm for nm, u, v in zip("kij", _snap(idx), snap) if u != v]
                fail("conv_tools.col2im", "caller-index-arrays-mutated",
                     "the (k, i, j) arrays obtained from %s are bit-identical after im2col/col2im calls that were given them" % origin,
                     "arrays %s changed" % changed)
        except Exception as ex:
            fail("conv_tools.im2col/col2im", "index-reuse-sequence-raises", "sequence im2col, col2im x3, im2col with shared col_indices runs",
                 "%s: %s" % (type(ex).__name__, str(ex)[:120]))

    # ---- B. two images, same geometry: the first result must survive the second call -------------------------------
    ones_w = np.ones((1, C, g["kH"], g["kW"]))
    entries = [(k, "conv_tools.%s(as_unfold=True)" % nm, (N, R, L),
                lambda x, nm=nm: getattr(ct, nm)(x, a["kernel"], pad_value=-1.0, as_unfold=True, **kw)) for k, nm in enumerate(FWD)]
    entries += [(3 + k, "conv_tools.%s" % nm, (R, N * L),
                 lambda x, nm=nm: getattr(ct, nm)(x, a["kernel"], pad_value=-1.0, as_unfold=False, **kw)) for k, nm in enumerate(FWD)]
    entries.append((6, "conv_tools.extract_windows", (lH, lW, N, C, g["kH"], g["kW"]),
                    lambda x: ct.extract_windows(x, a["kernel"], a["stride"], a["padding"], a["dilation"], pad_value=-1.0)))
    entries.append((14, "nn.functional.unfold", (N, R, L),
                    lambda x: NF.unfold(sg.Tensor(x), a["kernel"], a["dilation"], a["stride"], a["padding"], -1.0).data))
    # forward kernels that keep the window view for their backward pass (judged here only, not compared in Coq)
    cpu = impl.cpu_ops
    entries.append((None, "cpu_ops.conv2d_forward (windows kept for backward)", None,
                    lambda x: cpu.conv2d_forward(x, ones_w, None, a["stride"], a["padding"], a["dilation"])[1]))
    entries.append((None, "cpu_ops.avg_pool2d_forward (windows kept for backward)", None,
                    lambda x: cpu.avg_pool2d_forward(x, a["kernel"], a["stride"], a["padding"], a["dilation"])[2]))
    entries.append((None, "cpu_ops.max_pool2d_forward (windows kept for backward)", None,
                    lambda x: cpu.max_pool2d_forward(x, a["kernel"], a["stride"], a["padding"], a["dilation"])[2]))
    xs = _snap([x1, x2])
    for fid, site, want, call in entries:
        try:
            r1 = call(x1)
            before = np.array(r1, copy=True)
            r2 = call(x2)
            after = np.array(r1, copy=True)
        except Exception as ex:
            fail(site, "two-image-sequence-raises", "r1 = f(x1); r2 = f(x2) runs", "%s: %s" % (type(ex).__name__, str(ex)[:120]))
            continue
        if before.shape != after.shape or not np.array_equal(before, after):
            fail(site, "result-overwritten-by-later-call",
                 "r1 = f(x1) is unchanged by r2 = f(x2) (same geometry, other image)", {"first_diff": first_diff(after, before)})
        if fid is not None:
            put(fid, "two images: r1 read after r2 = f(x2)", codes_fwd(after, want))
            put(fid, "two images: r2", codes_fwd(r2, want, shift=n_in))
        if fid == 6:
            # place_windows / adjoint identity with the (possibly stale) first windows
            yw = np.arange(after.size, dtype=np.float64).reshape(after.shape) % 7 - 3
            try:
                img = np.asarray(ct.place_windows(yw, shp, a["kernel"], a["stride"], a["padding"], a["dilation"]))
                w0 = np.asarray(ct.extract_windows(x1, a["kernel"], a["stride"], a["padding"], a["dilation"], pad_value=0))
                keep = np.array(w0, copy=True)
                ct.extract_windows(x2, a["kernel"], a["stride"], a["padding"], a["dilation"], pad_value=0)
                lhs, rhs, rhs0 = float(np.vdot(w0, yw)), float(np.vdot(x1, img)), float(np.vdot(keep, yw))
                if lhs != rhs:
                    fail("conv_tools.extract_windows/place_windows", "not-adjoint-after-second-call",
                         "vdot(w1, y) == vdot(x1, place_windows(y)) with w1 = extract_windows(x1) still in use after extract_windows(x2)",
                         {"lhs": lhs, "rhs": rhs, "lhs_with_a_copy_of_w1_taken_before_the_second_call": rhs0})
            except Exception as ex:
                fail("conv_tools.extract_windows/place_windows", "two-image-sequence-raises", "adjoint sequence runs", "%s: %s" % (type(ex).__name__, str(ex)[:120]))
    if _snap([x1, x2]) != xs:
        fail("conv_tools (forward entry points)", "caller-input-mutated", "inputs x1, x2 are bit-identical after the calls", "changed")
    return t, fails


# ------------------------------------------------------------------ oracle: judged on the implementation only
def spec_unfold(x, g, pv):
    """loop specification of unfold (torch.nn.Unfold's documented layout): out[n, (c*kH+a)*kW+b, i*lW+j] = padded[n,c,i*sH+a*dH,j*sW+b*dW]"""
    np = _impl().np
    N, C, H, W = x.shape
    lH, lW, R, L = dims(g)
    out = np.full((N, R, L), pv, dtype=x.dtype)
    for c in range(C):
        for a in range(g["kH"]):
            for b in range(g["kW"]):
                r = (c * g["kH"] + a) * g["kW"] + b
                for i in range(lH):
                    h = i * g["sH"] + a * g["dH"] - g["pH"]
                    if not 0 <= h < H:
                        continue
                    for j in range(lW):
                        w = j * g["sW"] + b * g["dW"] - g["pW"]
                        if 0 <= w < W:
                            out[:, r, i * lW + j] = x[:, c, h, w]
    return out


def spec_coverage(g):
    np = _impl().np
    lH, lW, R, L = dims(g)
    cov = np.zeros((g["H"], g["W"]), dtype=np.int64)
    for i in range(lH):
        for a in range(g["kH"]):
            h = i * g["sH"] + a * g["dH"] - g["pH"]
            if not 0 <= h < g["H"]:
                continue
            for j in range(lW):
                for b in range(g["kW"]):
                    w = j * g["sW"] + b * g["dW"] - g["pW"]
                    if 0 <= w < g["W"]:
                        cov[h, w] += 1
    return cov


def to2d(u):
    """(N,R,L) -> (R, L*N) with column l*N + n"""
    return u.transpose(1, 2, 0).reshape(u.shape[1], -1)


def oracle(g, seed, torch=None, full=True):
    """list of failures {site, klass, expected, observed, seed}; empty = the property holds on this geometry.
    full=False (used for the big product sweep): 3-D layout only, pad value 0, multiplicity for the *_fast pair only."""
    impl = _impl(); np = impl.np; ct = impl.conv_tools
    a = args_of(g)
    N, C, H, W = g["N"], g["C"], g["H"], g["W"]
    lH, lW, R, L = dims(g)
    rs = np.random.RandomState(seed)
    x = rs.randint(-9, 10, size=(N, C, H, W)).astype(np.float64)
    y3 = rs.randint(-9, 10, size=(N, R, L)).astype(np.float64)
    pv = float(rs.randint(-20, 21)) if full else 0.0
    layouts = (True, False) if full else (True,)
    fails = []

    def fail(site, klass, expected, observed):
        fails.append(dict(site=site, klass=klass, expected=expected, observed=observed, seed=seed))

    def run(fn, *p, **k):
        try:
            return np.asarray(fn(*p, **k)), None
        except Exception as ex:
            return None, "%s: %s" % (type(ex).__name__, str(ex)[:120])

    ref_u = spec_unfold(x, g, pv)
    fw = {}
    for name in FWD:
        fn = getattr(ct, name)
        for unfold in layouts:
            want = ref_u if unfold else to2d(ref_u)
            o, err = run(fn, x, a["kernel"], dilation=a["dilation"], stride=a["stride"], padding=a["padding"], pad_value=pv, as_unfold=unfold)
            if err or o.shape != want.shape or not np.array_equal(o, want):
                fail("conv_tools.%s" % name, "forward-differs-from-unfold-spec(as_unfold=%s)" % unfold,
                     "out[n,(c*kH+a)*kW+b,i*lW+j] = padded[n,c,i*sH+a*dH,j*sW+b*dW]" + ("" if unfold else ", column l*N+n"),
                     err or {"shape": list(o.shape), "first_diff": first_diff(o, want)})
            fw[(name, unfold)] = o
    # the three variants agree with each other
    for unfold in layouts:
        o0 = fw[(FWD[0], unfold)]
        for name in FWD[1:]:
            o = fw[(name, unfold)]
            if (o0 is None) != (o is None) or (o is not None and (o.shape != o0.shape or not np.array_equal(o, o0))):
                fail("conv_tools.%s vs im2col" % name, "im2col-variants-disagree(as_unfold=%s)" % unfold, "array_equal", "different")
    # col2im variants: equal to each other and to the brute-force scatter of the spec
    cover = spec_coverage(g)
    bw = {}
    for name in BWD:
        fn = getattr(ct, name)
        for lay, yy in ((("3-D", y3), ("2-D", to2d(y3))) if full else (("3-D", y3),)):
            o, err = run(fn, yy, (N, C, H, W), a["kernel"], a["dilation"], a["stride"], a["padding"])
            bw[(name, lay)] = o
            if err or o.shape != (N, C, H, W):
                fail("conv_tools.%s" % name, "col2im-raises-or-shape(%s)" % lay, "image of shape (N,C,H,W)", err or list(o.shape))
                bw[(name, lay)] = None
    for lay in (("3-D", "2-D") if full else ("3-D",)):
        o0 = bw[(BWD[0], lay)]
        for name in BWD[1:]:
            o = bw[(name, lay)]
            if o0 is not None and o is not None and not np.array_equal(o, o0):
                fail("conv_tools.%s vs col2im" % name, "col2im-variants-disagree(%s)" % lay, "equal images", {"first_diff": first_diff(o, o0)})
    # adjointness on integer data (exact in float64), pad value 0
    for fname, bname in zip(FWD, BWD):
        if full:
            fo, e1 = run(getattr(ct, fname), x, a["kernel"], dilation=a["dilation"], stride=a["stride"], padding=a["padding"], pad_value=0, as_unfold=True)
        else:
            fo, e1 = fw[(fname, True)], None
            if fo is None:
                continue
        bo = bw[(bname, "3-D")]
        if e1 is None and bo is not None and fo.shape == y3.shape:
            lhs, rhs = float(np.vdot(fo, y3)), float(np.vdot(x, bo))
            if lhs != rhs:
                fail("conv_tools.%s/%s" % (fname, bname), "not-adjoint", "vdot(im2col(x), y) == vdot(x, col2im(y))", {"lhs": lhs, "rhs": rhs})
        # fold(unfold(ones)) = coverage count
        if not full and fname != "im2col_fast":
            continue
        ones = np.ones((N, C, H, W))
        u, e2 = run(getattr(ct, fname), ones, a["kernel"], dilation=a["dilation"], stride=a["stride"], padding=a["padding"], pad_value=0, as_unfold=True)
        if e2 is None:
            f, e3 = run(getattr(ct, bname), u, (N, C, H, W), a["kernel"], a["dilation"], a["stride"], a["padding"])
            if e3 or f.shape != (N, C, H, W) or not np.array_equal(f, np.broadcast_to(cover, (N, C, H, W))):
                fail("conv_tools.%s(%s(ones))" % (bname, fname), "fold-unfold-multiplicity", "coverage count of each pixel",
                     e3 or {"first_diff": first_diff(f, np.broadcast_to(cover, (N, C, H, W)).astype(float))})
    # "any x": the memory layout is part of the input — the same logical array must give the same result
    mem = LAYOUTS[1:] if full else (LAYOUTS[1 + seed % (len(LAYOUTS) - 1)],)
    for lay in mem:
        xl = relayout(x, lay)
        for name in FWD:
            for unfold in layouts:
                base = fw[(name, unfold)]
                if base is None:
                    continue
                o, err = run(getattr(ct, name), xl, a["kernel"], dilation=a["dilation"], stride=a["stride"], padding=a["padding"], pad_value=pv, as_unfold=unfold)
                if err or o.shape != base.shape or not np.array_equal(o, base):
                    fail("conv_tools.%s" % name, "depends-on-memory-layout(input %s, as_unfold=%s)" % (lay, unfold),
                         "same result as for the C-contiguous copy of the same array", err or {"first_diff": first_diff(o, base)})
        for name in BWD:
            for lay2, yy in ((("3-D", y3), ("2-D", to2d(y3))) if full else (("3-D", y3),)):
                base = bw[(name, lay2)]
                if base is None:
                    continue
                o, err = run(getattr(ct, name), relayout(yy, lay), (N, C, H, W), a["kernel"], a["dilation"], a["stride"], a["padding"])
                if err or o.shape != base.shape or not np.array_equal(o, base):
                    fail("conv_tools.%s" % name, "depends-on-memory-layout(argument %s, %s)" % (lay, lay2),
                         "same image as for the C-contiguous copy of the same array", err or {"first_diff": first_diff(o, base)})
        wl, err = run(ct.extract_windows, xl, a["kernel"], a["stride"], a["padding"], a["dilation"], pad_value=pv)
        wc, errc = run(ct.extract_windows, x, a["kernel"], a["stride"], a["padding"], a["dilation"], pad_value=pv)
        if errc is None and (err or wl.shape != wc.shape or not np.array_equal(wl, wc)):
            fail("conv_tools.extract_windows", "depends-on-memory-layout(input %s)" % lay,
                 "same windows as for the C-contiguous copy of the same array", err or {"first_diff": first_diff(wl, wc)})
        if full:
            ywl = y3.reshape(N, C, g["kH"], g["kW"], lH, lW).transpose(4, 5, 0, 1, 2, 3)
            pc, errc = run(ct.place_windows, np.ascontiguousarray(ywl), (N, C, H, W), a["kernel"], a["stride"], a["padding"], a["dilation"])
            pl, err = run(ct.place_windows, relayout(ywl, lay), (N, C, H, W), a["kernel"], a["stride"], a["padding"], a["dilation"])
            if errc is None and (err or pl.shape != pc.shape or not np.array_equal(pl, pc)):
                fail("conv_tools.place_windows", "depends-on-memory-layout(argument %s)" % lay,
                     "same image as for the C-contiguous copy of the same array", err or {"first_diff": first_diff(pl, pc)})
    if full:
        # windows
        w, err = run(ct.extract_windows, x, a["kernel"], a["stride"], a["padding"], a["dilation"], pad_value=pv)
        wref = ref_u.reshape(N, C, g["kH"], g["kW"], lH, lW).transpose(4, 5, 0, 1, 2, 3)
        if err or w.shape != wref.shape or not np.array_equal(w, wref):
            fail("conv_tools.extract_windows", "windows-differ-from-spec", "windows[i,j,n,c,a,b] = padded[n,c,i*sH+a*dH,j*sW+b*dW]", err or "different")
        yw = y3.reshape(N, C, g["kH"], g["kW"], lH, lW).transpose(4, 5, 0, 1, 2, 3)
        pwo, err = run(ct.place_windows, np.ascontiguousarray(yw), (N, C, H, W), a["kernel"], a["stride"], a["padding"], a["dilation"])
        o0 = bw[(BWD[0], "3-D")]
        if err or (o0 is not None and (pwo.shape != o0.shape or not np.array_equal(pwo, o0))):
            fail("conv_tools.place_windows", "place_windows-differs-from-col2im", "equal images", err or "different")
        if torch is not None:
            TF = torch.nn.functional
            tu = TF.unfold(torch.from_numpy(x), a["kernel"], dilation=a["dilation"], padding=a["padding"], stride=a["stride"]).numpy()
            fo, e1 = run(ct.im2col_fast, x, a["kernel"], dilation=a["dilation"], stride=a["stride"], padding=a["padding"], pad_value=0, as_unfold=True)
            if e1 or fo.shape != tu.shape or not np.array_equal(fo, tu):
                fail("conv_tools.im2col_fast", "differs-from-torch-unfold", "torch.nn.functional.unfold", e1 or "different")
            tf_ = TF.fold(torch.from_numpy(y3), (H, W), a["kernel"], dilation=a["dilation"], padding=a["padding"], stride=a["stride"]).numpy()
            bo = bw[("col2im_fast", "3-D")]
            if bo is not None and not np.array_equal(bo, tf_):
                fail("conv_tools.col2im_fast", "differs-from-torch-fold", "torch.nn.functional.fold", {"first_diff": first_diff(bo, tf_)})
    return fails


def _lite(job):
    g, seed = job
    return g, oracle(g, seed, torch=None, full=False)


def sweep(jobs, workers=8):
    """oracle (lite) over many geometries, in forked worker processes; falls back to the calling process"""
    import multiprocessing as mp
    try:
        ctxm = mp.get_context("fork")
        with ctxm.Pool(workers) as pool:
            return [r for r in pool.imap(_lite, jobs, chunksize=256) if r[1]]
    except Exception:
        return [r for r in map(_lite, jobs) if r[1]]


def first_diff(a, b):
    np = _impl().np
    if a is None or b is None or a.shape != b.shape:
        return "shape"
    idx = np.argwhere(~((a == b) | (np.isnan(a) & np.isnan(b))))
    if len(idx) == 0:
        return None
    i = tuple(int(v) for v in idx[0])
    return {"index": list(i), "observed": repr(float(a[i])), "expected": repr(float(b[i]))}


def int_tuple_stream():
    """(geometry with equal per-axis parameters, which arguments are passed as int)"""
    out = []
    for (h, w) in [(4, 5), (5, 3), (6, 6)]:
        for k, s, p, d in [(2, 1, 0, 1), (3, 2, 1, 1), (2, 2, 1, 2), (1, 1, 0, 1), (3, 1, 2, 1), (2, 3, 0, 2)]:
            if out_size(h, k, s, p, d) < 1 or out_size(w, k, s, p, d) < 1:
                continue
            g = dict(N=2, C=2, H=h, W=w, kH=k, kW=k, sH=s, sW=s, pH=p, pW=p, dH=d, dW=d)
            for mask in ("kspd", "k", "spd", "ks", "pd"):
                out.append((g, mask))
    return out


def run_int_tuple(g, mask):
    """call every function with int arguments where mask says so; expected: accepted, result equal to the all-tuple call.
    returns list of (function, outcome) with outcome None (fine) or a description"""
    impl = _impl(); np = impl.np; ct = impl.conv_tools; sg = impl.synapgrad; NF = impl.NF
    a = args_of(g)
    b = dict(kernel=g["kH"] if "k" in mask else a["kernel"], stride=g["sH"] if "s" in mask else a["stride"],
             padding=g["pH"] if "p" in mask else a["padding"], dilation=g["dH"] if "d" in mask else a["dilation"])
    N, C, H, W = g["N"], g["C"], g["H"], g["W"]
    lH, lW, R, L = dims(g)
    rs = np.random.RandomState(7)
    x = rs.randint(-5, 6, size=(N, C, H, W)).astype(np.float64)
    y3 = rs.randint(-5, 6, size=(N, R, L)).astype(np.float64)
    calls = []
    for name in FWD:
        fn = getattr(ct, name)
        for u in (True, False):
            calls.append(("conv_tools.%s(as_unfold=%s)" % (name, u),
                          lambda q, fn=fn, u=u: fn(x, q["kernel"], dilation=q["dilation"], stride=q["stride"], padding=q["padding"], pad_value=3.0, as_unfold=u)))
    for name in BWD:
        fn = getattr(ct, name)
        calls.append(("conv_tools.%s(3-D)" % name, lambda q, fn=fn: fn(y3, (N, C, H, W), q["kernel"], q["dilation"], q["stride"], q["padding"])))
        calls.append(("conv_tools.%s(2-D)" % name, lambda q, fn=fn: fn(to2d(y3), (N, C, H, W), q["kernel"], q["dilation"], q["stride"], q["padding"])))
    calls.append(("conv_tools.extract_windows", lambda q: np.array(ct.extract_windows(x, q["kernel"], q["stride"], q["padding"], q["dilation"], pad_value=3.0))))
    yw = np.ascontiguousarray(y3.reshape(N, C, g["kH"], g["kW"], lH, lW).transpose(4, 5, 0, 1, 2, 3))
    calls.append(("conv_tools.place_windows", lambda q: ct.place_windows(yw, (N, C, H, W), q["kernel"], q["stride"], q["padding"], q["dilation"])))
    calls.append(("nn.functional.unfold", lambda q: NF.unfold(sg.Tensor(x), q["kernel"], q["dilation"], q["stride"], q["padding"], 3.0).data))
    calls.append(("nn.functional.fold", lambda q: NF.fold(sg.Tensor(y3), (H, W), q["kernel"], q["dilation"], q["stride"], q["padding"]).data))
    res = []
    for name, call in calls:
        try:
            ref = np.asarray(call(a))
        except Exception:             # the all-tuple call itself fails: not an int-vs-tuple matter, the other ties report it
            res.append((name, None)); continue
        try:
            got = np.asarray(call(b))
            ok = got.shape == ref.shape and np.array_equal(got, ref)
            res.append((name, None if ok else "result differs from the all-tuple call"))
        except Exception as ex:
            res.append((name, "rejected: %s: %s" % (type(ex).__name__, str(ex)[:100])))
    return res


def accept_row(g):
    impl = _impl(); np = impl.np; ct = impl.conv_tools
    a = args_of(g)
    x = np.ones((g["N"], g["C"], g["H"], g["W"]))
    row = []
    detail = {}
    for name in FWD:
        acc = []
        for u in (True, False):
            try:
                getattr(ct, name)(x, a["kernel"], dilation=a["dilation"], stride=a["stride"], padding=a["padding"], as_unfold=u)
                acc.append(True)
            except Exception as ex:
                acc.append(False); detail[name] = type(ex).__name__
        row.append(acc[0])             # acceptance of the as_unfold=True call (the 2-D reshape of an empty result may add its own error)
    return row, detail


# ------------------------------------------------------------------ Coq text
HEADER = ("From Coq Require Import List ZArith Bool.\nImport ListNotations.\n"
          "From SG Require Import Base.Cmp NumPy.Window NumPy.Im2col NumPy.Im2colCorr.\nOpen Scope Z_scope.\n")


def zl(xs):
    return "[" + ";".join(str(int(v)) if v >= 0 else "(%d)" % int(v) for v in xs) + "]"


def geom_coq(g):
    return ("{| gN:=%(N)d; gC:=%(C)d; gH:=%(H)d; gW:=%(W)d; kH:=%(kH)d; kW:=%(kW)d; sH:=%(sH)d; sW:=%(sW)d; "
            "pH:=%(pH)d; pW:=%(pW)d; dH:=%(dH)d; dW:=%(dW)d |}" % g)


def geom1_coq(g):
    return "{| N1:=%(N)d; C1:=%(C)d; W1:=%(W)d; k1:=%(k)d; s1:=%(s)d; p1:=%(p)d; d1:=%(d)d |}" % g


def case_coq(g, tables):
    """tables: {fid: {layout: table}}; every distinct table a function produced (over the layouts) is compared with the model"""
    groups = {}
    for fid, per in sorted(tables.items()):
        for t in per.values():
            fids = groups.setdefault(tuple(t), [])
            if fid not in fids:
                fids.append(fid)
    body = "; ".join("([%s], %s)" % (";".join("%d%%nat" % f for f in fids), zl(t)) for t, fids in groups.items())
    return "(%s, [%s])" % (geom_coq(g), body)


def parse_zlist(out):
    flat = " ".join(out.split())
    res = []
    for m in re.finditer(r"= \[(.*?)\]\s*:\s*list (Z|nat)", flat):
        body = m.group(1).replace("%nat", "").replace("%Z", "").strip()
        res.append([int(x) for x in body.split(";") if x.strip()])
    return res


# ------------------------------------------------------------------ the check
def run(ctx):
    rng = ctx.rng
    impl = _impl()
    ok_build, fails = ctx.build_props(extra_targets=["NumPy/Im2colCorr.vo"])
    oracle_fails = []          # (geometry, failure)

    # ---- oracle sweep over the full small product (no Coq) --------------------------------------------------------------
    t0 = time.time()
    small = list(small_product_cases(ctx.quick))
    n_small = len(small)
    base = rng.randrange(1 << 29)
    for g, fs in sweep([(g, base + i) for i, g in enumerate(small)]):
        for f in fs:
            oracle_fails.append((g, f))
    ctx.log("oracle on the full product grid: %d geometries in %.1fs" % (n_small, time.time() - t0))
    ctx.extra["oracle_geometries_judged_product"] = n_small
    ctx.extra["oracle_full_product"] = "every pair of per-axis geometries with H,W <= %d (N=C=1): %d geometries" % (4 if ctx.quick else 7, n_small)

    try:
        import torch
        torch.set_num_threads(1)
    except Exception:
        torch = None
        ctx.notes.append("torch not importable: the torch.nn.functional.unfold/fold reference was skipped")

    def judge(g, full=True):
        fs = oracle(g, rng.randrange(1 << 30), torch=torch, full=full)
        for f in fs:
            oracle_fails.append((g, f))
        return fs

    # ---- tie 1: index tables of every function on the geometry grid -------------------------------------------
    geoms = geometry_cases(rng, ctx.quick)
    CH = 60
    cases = []
    nontrivial = set()
    t0 = time.time()
    seq_fails = []
    n_seq_tables = 0
    for i, g in enumerate(geoms):
        tb = probe_all(g)
        st, sf = probe_sequences(g)
        for fid, per in st.items():
            tb[fid].update(per)
        n_seq_tables += sum(len(per) for per in st.values())
        for f in sf:
            seq_fails.append((g, f))
        cases.append((g, tb))
        n_in = g["N"] * g["C"] * g["H"] * g["W"]
        if tb[0]["C"] != list(range(1, n_in + 1)):
            nontrivial.add(tuple(g[k] for k in KEYS))
        judge(g)
    ctx.log("probed+judged %d geometries in %.1fs" % (len(geoms), time.time() - t0))
    g_s, t_s = cases[len(cases) // 3]
    ctx.sample({"geometry": g_s, "im2col_fast(as_unfold=True) on 1+arange, pad -1": t_s[2]["C"][:24], "col2im scatter codes": t_s[7]["C"][:12],
                "layouts_probed": list(LAYOUTS)})
    files = []
    for k in range(0, len(cases), CH):
        chunk = cases[k:k + CH]
        txt = HEADER + "Definition cases : list case :=\n [%s].\n" % ";\n  ".join(case_coq(g, tb) for g, tb in chunk)
        txt += "Eval vm_compute in (check_cases cases).\n"
        files.append(("maps_%d" % (k // CH), txt))
    res = ctx.coq_eval_many(files, timeout=900)
    mism = []
    for (name, _), k in zip(files, range(0, len(cases), CH)):
        ok, out = res[name]
        lists = parse_zlist(out)
        if not ok or len(lists) != 1:
            mism.append({"file": name, "error": out[-400:]}); continue
        for code in lists[0]:
            ci, fid = divmod(code, 100)
            g, tb = cases[k + ci]
            per = tb[fid]
            odd = [l for l in per if per[l] != per["C"]]
            mism.append({"function": FN_NAMES[fid], "geometry": g,
                         "layouts": odd and ("result depends on the memory layout of the argument / on earlier calls: %s differ from the plain C-contiguous call" % odd) or "all layouts and call sequences",
                         "implementation_table": (per[odd[0]] if odd else per["C"])[:40]})
    ctx.tie("conv_tools index maps (16 functions x 6 memory layouts x geometry grid)", "correspondence", len(cases) * 16 * len(LAYOUTS), len(nontrivial), mism,
            exhaustive=True,
            note="every per-axis geometry (k,s in 1..%d, p in 0..2, d in 1..2, size 1..%d, >= 1 window) occurs on the H axis and on the W axis; "
                 "forward maps read with 1+arange data and pad value -1, scatter multisets with distinct powers of 4 (object dtype); "
                 "N,C in {1,2}; every argument is passed in 6 memory layouts (C, F, fully / partially transposed view, strided slice, negative strides) — "
                 "the model abstracts from layout, so all must give the model's table; non-trivial = forward map of im2col is not the identity" % ((3, 7) if ctx.quick else (4, 9)))
    ctx.extra["geometries"] = len(geoms)

    # ---- tie 1b: call sequences — nothing leaks from one call into another ------------------------------------------
    seq_m = [{"geometry": g, "site": f["site"], "class": f["klass"], "observed": f["observed"]} for g, f in seq_fails]
    ctx.tie("call sequences: shared index arrays reused across im2col/col2im calls; two images with one geometry", "correspondence",
            len(geoms) * 13, sum(1 for g in geoms if g["pH"] or g["pW"]), seq_m,
            note="per geometry: 2 sequences im2col -> col2im x3 -> im2col sharing one (k,i,j) (from get_im2col_indices / return_indices=True), "
                 "11 sequences r1=f(x1); r2=f(x2) (im2col* both layouts, extract_windows, nn.functional.unfold, conv2d/avg_pool2d/max_pool2d forward windows); "
                 "judged: caller's index arrays and inputs bit-identical afterwards, r1 unchanged by the second call, adjoint identity with the first windows "
                 "after the second call; the %d tables of all calls were compared with the model in the tie above; non-trivial = geometries with padding" % n_seq_tables)
    for g, f in seq_fails:
        f["seq"] = True
        oracle_fails.append((g, f))

    # ---- tie 2: 1-D windows on the exhaustive per-axis grid -----------------------------------------------------
    g1 = geometry_1d_cases(ctx.quick)
    c1 = []
    for g in g1:
        seen1 = {}
        for lay in LAYOUTS:
            tw, tc = probe_1d(g, lay)
            seen1.setdefault((tuple(tw), tuple(tc)), []).append(lay)
        for (tw, tc), lays in seen1.items():
            c1.append((g, (list(tw), list(tc)), lays))
    files = []
    CH1 = 120
    for k in range(0, len(c1), CH1):
        chunk = c1[k:k + CH1]
        txt = HEADER + "Definition cases : list case1 :=\n [%s].\n" % ";\n  ".join("(%s, (%s, %s))" % (geom1_coq(g), zl(tw), zl(tc)) for g, (tw, tc), _ in chunk)
        txt += "Eval vm_compute in (check_cases1 cases).\n"
        files.append(("win1d_%d" % (k // CH1), txt))
    res = ctx.coq_eval_many(files, timeout=900)
    mism = []
    for (name, _), k in zip(files, range(0, len(c1), CH1)):
        ok, out = res[name]
        lists = parse_zlist(out)
        if not ok or len(lists) != 1:
            mism.append({"file": name, "error": out[-400:]}); continue
        for code in lists[0]:
            ci, fid = divmod(code, 100)
            g, (tw, tc), lays = c1[k + ci]
            mism.append({"function": FN_NAMES[fid], "geometry": g, "layouts": lays, "implementation_table": (tw if fid == 20 else tc)[:40]})
    ctx.tie("extract_windows / place_windows on (N,C,W), exhaustive per-axis grid", "correspondence", 2 * len(g1) * len(LAYOUTS),
            sum(1 for g in g1 if g["k"] > 1 or g["p"] > 0 or g["s"] > 1), mism, exhaustive=True,
            note="all (W,k,s,p,d) of the grid with >= 1 window; non-trivial = not the identity window (k=1,s=1,p=0)")

    # ---- tie 3: malformed stream — empty / negative output geometries --------------------------------------------
    mal = malformed_cases()
    rows = []
    details = {}
    for g in mal:
        row, det = accept_row(g)
        rows.append((g, row))
        for k, v in det.items():
            details.setdefault(k, set()).add(v)
    txt = HEADER + "Definition cases : list (geom * list bool) :=\n [%s].\n" % ";\n  ".join(
        "(%s, %s)" % (geom_coq(g), clist([cb(b) for b in row])) for g, row in rows)
    txt += "Eval vm_compute in (check_accepts cases).\n"
    ok, out = ctx.coq_eval("accepts", txt)
    lists = parse_zlist(out)
    mism = []
    if not ok or len(lists) != 1:
        mism.append({"error": out[-400:]})
    else:
        for i in lists[0]:
            mism.append({"geometry": rows[i][0], "accepted [im2col, im2col_v2, im2col_fast]": rows[i][1]})
    n_acc = sum(1 for g, row in rows if any(row))
    ctx.tie("acceptance of empty/negative output geometries", "correspondence", len(rows), len(rows), mism, exhaustive=False,
            note="malformed stream: %d geometries without a window on some axis; %d of them are ACCEPTED by im2col/im2col_v2 "
                 "(both output sizes negative, L = lH*lW > 0) — outside C16's non-empty scope, reported for C06; exception types seen: %s"
                 % (len(rows), n_acc, {k: sorted(v) for k, v in details.items()}))
    if n_acc:
        ex = next(g for g, row in rows if any(row))
        ctx.notes.append("C06 note (outside C16's scope): the variants reject empty geometries differently — get_im2col_indices/im2col_v2 test L = lH*lW <= 0, "
                         "so a kernel larger than the input on BOTH axes (lH,lW < 0, L > 0) is accepted and returns an empty / all-zero matrix, e.g. %s; "
                         "extract_windows raises UnboundLocalError (its error message uses `stride` before assignment) for L = 0 and ValueError for a negative extent" % json.dumps(ex))

    # ---- tie 4: int vs tuple arguments -------------------------------------------------------------------------------
    stream = int_tuple_stream()
    mism = []
    n_calls = 0
    for g, mask in stream:
        for name, outcome in run_int_tuple(g, mask):
            n_calls += 1
            if outcome:
                mism.append({"function": name, "geometry": g, "int_arguments": mask, "outcome": outcome})
                if len([m for m in mism if m["function"] == name]) == 1:
                    ctx.witness(name, "int-geometry-argument", {"geometry": g, "int_arguments": mask},
                                "accepted, result equal to the call with tuples (documented `int or tuple`)", outcome)
    ctx.tie("int vs tuple geometry arguments", "correspondence", n_calls, n_calls, mism,
            note="each of the 18 entry points called with int kernel/stride/padding/dilation (5 masks) on %d square-parameter geometries; "
                 "expected: accepted and array_equal to the all-tuple call" % (len(stream) // 5))

    # ---- witnesses -----------------------------------------------------------------------------------------------------
    seen = set()
    oracle_fails.sort(key=lambda gf: (gf[0]["N"] * gf[0]["C"] * gf[0]["H"] * gf[0]["W"], gf[0]["kH"] * gf[0]["kW"]))
    for g, f in oracle_fails:
        key = (f["site"], f["klass"].split("(")[0])
        if key in seen:
            continue
        seen.add(key)
        inp = {"geometry": g, "seed": f["seed"]}
        if f.get("seq"):
            inp["sequence"] = True
        ctx.witness(f["site"], f["klass"], inp, f["expected"], f["observed"])
    ctx.extra["oracle_failures"] = len(oracle_fails)


FINISH = dict(rule="index tables compared exactly inside Coq (vm_compute) for 16 entry points per geometry; geometry grid: every per-axis "
                   "geometry on both axes (exhaustive per axis), 1-D grid fully exhaustive; distinct non-trivial = distinct geometries "
                   "whose im2col map is not the identity; oracle additionally judges the full product of small per-axis geometries")


def replay(ctx, data):
    """Re-run a stored witness on the implementation."""
    import random
    if data.get("kind") != "failing-input":
        print(json.dumps(data.get("broken"), indent=1)); return 1
    inp = data["input"]
    g = inp["geometry"]
    if data["class"] == "int-geometry-argument":
        bad = [(n, o) for n, o in run_int_tuple(g, inp["int_arguments"]) if o and n == data["site"]]
        print("observed", bad, "recorded", data["observed"])
        return 1 if bad else 0
    if inp.get("sequence"):
        fs = [f for f in probe_sequences(g)[1] if f["site"] == data["site"]]
        print("observed", json.dumps(fs, default=str)[:600], "recorded", data["observed"])
        return 1 if fs else 0
    try:
        import torch
    except Exception:
        torch = None

    fs = [f for f in oracle(g, inp["seed"], torch=torch, full=True) + oracle(g, inp["seed"], torch=None, full=False) if f["site"] == data["site"]]
    print("observed", json.dumps(fs, default=str)[:600], "recorded", data["observed"])
    return 1 if fs else 0
