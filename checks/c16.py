"""C16 — im2col/col2im variants agree and col2im is the exact adjoint of im2col.

Obligations : coq/Props/C16.v  (index maps of the six functions and of extract_windows/place_windows as the code computes
              them, proved equal to one closed form for every geometry with >= 1 window per axis; scatter = adjoint of
              gather; fold(unfold) multiplicity; pad positions; output-size formula and pooling window geometry)
Ties        : K  every function probed on a geometry grid (arange data + sentinel pad value for the forward maps,
                 distinct powers of 4 for the scatter multisets) and the tables compared with NumPy/Im2col.v inside Coq
              K  1-D extract_windows / place_windows on the exhaustive per-axis grid
              K  acceptance of empty / negative output geometries per function (malformed stream)
              K  int vs tuple geometry arguments (documented as interchangeable) accepted and equal
Oracle      : direct NumPy statements on the implementation (no Coq): the three im2col outputs are array_equal, the three
              col2im outputs are equal, vdot(im2col x, y) == vdot(x, col2im y) on integer data, fold(unfold(ones)) equals
              the brute-force coverage count, a 15-line loop specification of unfold / windows, torch.nn.functional.unfold/fold.

Exports for the C06 check: geometry_cases(rng, quick), geometry_1d_cases(quick), axis_grid(...), spec_unfold(...).
"""
import json, os, re, time
from lib import common
from lib.common import cb, clist

KEYS = ("N", "C", "H", "W", "kH", "kW", "sH", "sW", "pH", "pW", "dH", "dW")
FWD = ("im2col", "im2col_v2", "im2col_fast")
BWD = ("col2im", "col2im_v2", "col2im_fast")
FN_NAMES = {0: "im2col(as_unfold=True)", 1: "im2col_v2(as_unfold=True)", 2: "im2col_fast(as_unfold=True)",
            3: "im2col", 4: "im2col_v2", 5: "im2col_fast", 6: "extract_windows",
            7: "col2im(3-D)", 8: "col2im_v2(3-D)", 9: "col2im_fast(3-D)", 10: "col2im(2-D)", 11: "col2im_v2(2-D)",
            12: "col2im_fast(2-D)", 13: "place_windows", 14: "nn.functional.unfold", 15: "nn.functional.fold",
            20: "extract_windows(1-D)", 21: "place_windows(1-D)"}
BAD = [-999]          # table of a call that raised / returned a wrong shape


def _impl():
    from lib import impl
    return impl


# ------------------------------------------------------------------ geometry generation
def out_size(L, k, s, p, d):
    return (L + 2 * p - d * (k - 1) - 1) // s + 1


def axis_grid(kmax=3, smax=3, pmax=2, dmax=2, Lmax=7, Lmin=1):
    """every per-axis geometry (L, k, s, p, d) of the grid with at least one window"""
    return [(L, k, s, p, d)
            for L in range(Lmin, Lmax + 1) for k in range(1, kmax + 1) for s in range(1, smax + 1)
            for p in range(0, pmax + 1) for d in range(1, dmax + 1) if out_size(L, k, s, p, d) >= 1]


def mk(n, c, ah, aw):
    return dict(N=n, C=c, H=ah[0], W=aw[0], kH=ah[1], kW=aw[1], sH=ah[2], sW=aw[2], pH=ah[3], pW=aw[3], dH=ah[4], dW=aw[4])


NC = [(1, 2), (2, 1), (1, 1), (2, 2), (2, 1), (1, 2)]


def geometry_cases(rng, quick=True):
    """2-D geometries {N,C,H,W,kH,kW,sH,sW,pH,pW,dH,dW}, all with >= 1 window per axis.
    quick   : every per-axis geometry of the grid k,s in 1..3, p in 0..2, d in 1..2, size 1..7 occurs on the H axis and on
              the W axis (paired with a shuffled partner), plus 100 random pairs  (445 geometries, N,C in {1,2})
    thorough: the same for the grid k,s in 1..4, size 1..9 with four independent pairings (~3000 geometries)"""
    if quick:
        ax = axis_grid()
        rounds, extra = 1, 100
    else:
        ax = axis_grid(kmax=4, smax=4, Lmax=9)
        rounds, extra = 4, 400
    out = []
    for _ in range(rounds):
        perm = list(ax)
        rng.shuffle(perm)
        for a, b in zip(ax, perm):
            n, c = NC[len(out) % len(NC)]
            out.append(mk(n, c, a, b))
    for _ in range(extra):
        n, c = NC[len(out) % len(NC)]
        out.append(mk(n, c, rng.choice(ax), rng.choice(ax)))
    return out


def small_product_cases(quick=True):
    """full product of the per-axis grid for small inputs (judged by the oracle only): quick H,W <= 4 with N=C=1"""
    ax = axis_grid(Lmax=4) if quick else axis_grid(Lmax=7)
    for a in ax:
        for b in ax:
            yield mk(1, 1, a, b)


def geometry_1d_cases(quick=True):
    ax = axis_grid() if quick else axis_grid(kmax=4, smax=4, Lmax=9)
    return [dict(N=NC[i % 6][0], C=NC[i % 6][1], W=a[0], k=a[1], s=a[2], p=a[3], d=a[4]) for i, a in enumerate(ax)]


def malformed_cases():
    """geometries whose output is empty or 'negative' on at least one axis (kernel span larger than the padded input)"""
    out = []
    for (h, w) in [(3, 3), (2, 4), (1, 5)]:
        for kh, kw, dh, dw in [(4, 4, 1, 1), (5, 5, 1, 1), (4, 2, 1, 1), (2, 4, 1, 1), (5, 2, 1, 1), (2, 6, 1, 1), (3, 3, 2, 2),
                               (2, 2, 3, 3), (3, 3, 3, 1), (6, 6, 1, 1), (4, 4, 2, 2), (2, 2, 5, 1), (2, 2, 1, 5)]:
            for s in (1, 2, 3):
                g = dict(N=1, C=2, H=h, W=w, kH=kh, kW=kw, sH=s, sW=s, pH=0, pW=0, dH=dh, dW=dw)
                if out_size(h, kh, s, 0, dh) < 1 or out_size(w, kw, s, 0, dw) < 1:
                    out.append(g)
    return out


def args_of(g):
    return dict(kernel=(g["kH"], g["kW"]), dilation=(g["dH"], g["dW"]), stride=(g["sH"], g["sW"]), padding=(g["pH"], g["pW"]))


def dims(g):
    lH = out_size(g["H"], g["kH"], g["sH"], g["pH"], g["dH"])
    lW = out_size(g["W"], g["kW"], g["sW"], g["pW"], g["dW"])
    return lH, lW, g["C"] * g["kH"] * g["kW"], lH * lW


# ------------------------------------------------------------------ probing the implementation
def to_codes(arr):
    """result of a probe as exact integers; anything that is not a small integer (garbage read through a wrong stride,
    NaN, inf) becomes -998 so that the comparison fails instead of the harness"""
    np = _impl().np
    a = np.array(arr, dtype=np.float64).ravel()
    ok = np.isfinite(a) & (np.abs(a) < 2.0 ** 40)
    ok &= (np.where(ok, a, 0.0) == np.round(np.where(ok, a, 0.0)))
    return [int(v) if o else -998 for v, o in zip(a.tolist(), ok.tolist())]


def probe_forward(fn, g, unfold):
    impl = _impl(); np = impl.np
    N, C, H, W = g["N"], g["C"], g["H"], g["W"]
    a = args_of(g)
    lH, lW, R, L = dims(g)
    x = (1 + np.arange(N * C * H * W, dtype=np.float64)).reshape(N, C, H, W)
    try:
        out = fn(x, a["kernel"], dilation=a["dilation"], stride=a["stride"], padding=a["padding"], pad_value=-1.0, as_unfold=unfold)
    except Exception:
        return BAD
    want = (N, R, L) if unfold else (R, N * L)
    if tuple(out.shape) != want:
        return BAD
    return to_codes(out)


def probe_windows(g):
    impl = _impl(); np = impl.np
    N, C, H, W = g["N"], g["C"], g["H"], g["W"]
    a = args_of(g)
    lH, lW, R, L = dims(g)
    x = (1 + np.arange(N * C * H * W, dtype=np.float64)).reshape(N, C, H, W)
    try:
        out = impl.conv_tools.extract_windows(x, a["kernel"], a["stride"], a["padding"], a["dilation"], pad_value=-1.0)
    except Exception:
        return BAD
    if tuple(out.shape) != (lH, lW, N, C, g["kH"], g["kW"]):
        return BAD
    return to_codes(out)


def pow4(n):
    np = _impl().np
    y = np.empty(n, dtype=object)
    for i in range(n):
        y[i] = 4 ** i
    return y


def decode_scatter(img, n_src, npix):
    """image of big integers (entry s carries 4**s) -> sorted codes  s*(npix+1) + (1+pixel | 0 when s reached no pixel)"""
    seen = [0] * n_src
    out = []
    for pix, v in enumerate(img):
        try:
            v = int(v)
        except (ValueError, OverflowError, TypeError):
            return BAD
        if v < 0:
            return BAD
        s = 0
        while v:
            m = v & 3
            if m:
                if s >= n_src:
                    return BAD
                out.extend([s * (npix + 1) + 1 + pix] * m)
                seen[s] += m
            v >>= 2
            s += 1
    out.extend(s * (npix + 1) for s in range(n_src) if not seen[s])
    return sorted(out)


def probe_scatter(call, shape, g):
    """call(y) -> image (N,C,H,W); y has the given shape and carries distinct powers of 4"""
    impl = _impl(); np = impl.np
    n = 1
    for d in shape:
        n *= d
    y = pow4(n).reshape(shape)
    try:
        img = call(y)
    except Exception:
        return BAD
    img = np.asarray(img)
    N, C, H, W = g["N"], g["C"], g["H"], g["W"]
    if tuple(img.shape) != (N, C, H, W):
        return BAD
    return decode_scatter(img.ravel().tolist(), n, N * C * H * W)


def probe_all(g, with_functional=True):
    """{function id: table} for one geometry"""
    impl = _impl(); ct = impl.conv_tools
    a = args_of(g)
    N, C, H, W = g["N"], g["C"], g["H"], g["W"]
    lH, lW, R, L = dims(g)
    t = {}
    for k, name in enumerate(FWD):
        fn = getattr(ct, name)
        t[k] = probe_forward(fn, g, True)
        t[3 + k] = probe_forward(fn, g, False)
    t[6] = probe_windows(g)
    for k, name in enumerate(BWD):
        fn = getattr(ct, name)
        t[7 + k] = probe_scatter(lambda y: fn(y, (N, C, H, W), a["kernel"], a["dilation"], a["stride"], a["padding"]), (N, R, L), g)
        t[10 + k] = probe_scatter(lambda y: fn(y, (N, C, H, W), a["kernel"], a["dilation"], a["stride"], a["padding"]), (R, N * L), g)
    t[13] = probe_scatter(lambda y: ct.place_windows(y, (N, C, H, W), a["kernel"], a["stride"], a["padding"], a["dilation"]),
                          (lH, lW, N, C, g["kH"], g["kW"]), g)
    if with_functional:
        sg, NF = impl.synapgrad, impl.NF
        t[14] = probe_forward(lambda x, k, dilation, stride, padding, pad_value, as_unfold:
                              NF.unfold(sg.Tensor(x), k, dilation, stride, padding, pad_value).data, g, True)
        t[15] = probe_scatter(lambda y: NF.fold(sg.Tensor(y), (H, W), a["kernel"], a["dilation"], a["stride"], a["padding"]).data, (N, R, L), g)
    return t


def probe_1d(g):
    impl = _impl(); np = impl.np; ct = impl.conv_tools
    N, C, W, k, s, p, d = g["N"], g["C"], g["W"], g["k"], g["s"], g["p"], g["d"]
    l = out_size(W, k, s, p, d)
    x = (1 + np.arange(N * C * W, dtype=np.float64)).reshape(N, C, W)
    try:
        out = ct.extract_windows(x, k, s, p, d, pad_value=-1.0)
        tw = to_codes(out) if tuple(out.shape) == (l, N, C, k) else BAD
    except Exception:
        tw = BAD
    n = l * N * C * k
    y = pow4(n).reshape(l, N, C, k)
    try:
        img = np.asarray(ct.place_windows(y, (N, C, W), k, s, p, d))
        tc = decode_scatter(img.ravel().tolist(), n, N * C * W) if tuple(img.shape) == (N, C, W) else BAD
    except Exception:
        tc = BAD
    return tw, tc


# ------------------------------------------------------------------ oracle: judged on the implementation only
def spec_unfold(x, g, pv):
    """loop specification of unfold (torch.nn.Unfold's documented layout): out[n, (c*kH+a)*kW+b, i*lW+j] = padded[n,c,i*sH+a*dH,j*sW+b*dW]"""
    np = _impl().np
    N, C, H, W = x.shape
    lH, lW, R, L = dims(g)
    out = np.full((N, R, L), pv, dtype=x.dtype)
    for c in range(C):
        for a in range(g["kH"]):
            for b in range(g["kW"]):
                r = (c * g["kH"] + a) * g["kW"] + b
                for i in range(lH):
                    h = i * g["sH"] + a * g["dH"] - g["pH"]
                    if not 0 <= h < H:
                        continue
                    for j in range(lW):
                        w = j * g["sW"] + b * g["dW"] - g["pW"]
                        if 0 <= w < W:
                            out[:, r, i * lW + j] = x[:, c, h, w]
    return out


def spec_coverage(g):
    np = _impl().np
    lH, lW, R, L = dims(g)
    cov = np.zeros((g["H"], g["W"]), dtype=np.int64)
    for i in range(lH):
        for a in range(g["kH"]):
            h = i * g["sH"] + a * g["dH"] - g["pH"]
            if not 0 <= h < g["H"]:
                continue
            for j in range(lW):
                for b in range(g["kW"]):
                    w = j * g["sW"] + b * g["dW"] - g["pW"]
                    if 0 <= w < g["W"]:
                        cov[h, w] += 1
    return cov


def to2d(u):
    """(N,R,L) -> (R, L*N) with column l*N + n"""
    return u.transpose(1, 2, 0).reshape(u.shape[1], -1)


def oracle(g, seed, torch=None, full=True):
    """list of failures {site, klass, expected, observed, seed}; empty = the property holds on this geometry.
    full=False (used for the big product sweep): 3-D layout only, pad value 0, multiplicity for the *_fast pair only."""
    impl = _impl(); np = impl.np; ct = impl.conv_tools
    a = args_of(g)
    N, C, H, W = g["N"], g["C"], g["H"], g["W"]
    lH, lW, R, L = dims(g)
    rs = np.random.RandomState(seed)
    x = rs.randint(-9, 10, size=(N, C, H, W)).astype(np.float64)
    y3 = rs.randint(-9, 10, size=(N, R, L)).astype(np.float64)
    pv = float(rs.randint(-20, 21)) if full else 0.0
    layouts = (True, False) if full else (True,)
    fails = []

    def fail(site, klass, expected, observed):
        fails.append(dict(site=site, klass=klass, expected=expected, observed=observed, seed=seed))

    def run(fn, *p, **k):
        try:
            return np.asarray(fn(*p, **k)), None
        except Exception as ex:
            return None, "%s: %s" % (type(ex).__name__, str(ex)[:120])

    ref_u = spec_unfold(x, g, pv)
    fw = {}
    for name in FWD:
        fn = getattr(ct, name)
        for unfold in layouts:
            want = ref_u if unfold else to2d(ref_u)
            o, err = run(fn, x, a["kernel"], dilation=a["dilation"], stride=a["stride"], padding=a["padding"], pad_value=pv, as_unfold=unfold)
            if err or o.shape != want.shape or not np.array_equal(o, want):
                fail("conv_tools.%s" % name, "forward-differs-from-unfold-spec(as_unfold=%s)" % unfold,
                     "out[n,(c*kH+a)*kW+b,i*lW+j] = padded[n,c,i*sH+a*dH,j*sW+b*dW]" + ("" if unfold else ", column l*N+n"),
                     err or {"shape": list(o.shape), "first_diff": first_diff(o, want)})
            fw[(name, unfold)] = o
    # the three variants agree with each other
    for unfold in layouts:
        o0 = fw[(FWD[0], unfold)]
        for name in FWD[1:]:
            o = fw[(name, unfold)]
            if (o0 is None) != (o is None) or (o is not None and (o.shape != o0.shape or not np.array_equal(o, o0))):
                fail("conv_tools.%s vs im2col" % name, "im2col-variants-disagree(as_unfold=%s)" % unfold, "array_equal", "different")
    # col2im variants: equal to each other and to the brute-force scatter of the spec
    cover = spec_coverage(g)
    bw = {}
    for name in BWD:
        fn = getattr(ct, name)
        for lay, yy in ((("3-D", y3), ("2-D", to2d(y3))) if full else (("3-D", y3),)):
            o, err = run(fn, yy, (N, C, H, W), a["kernel"], a["dilation"], a["stride"], a["padding"])
            bw[(name, lay)] = o
            if err or o.shape != (N, C, H, W):
                fail("conv_tools.%s" % name, "col2im-raises-or-shape(%s)" % lay, "image of shape (N,C,H,W)", err or list(o.shape))
                bw[(name, lay)] = None
    for lay in (("3-D", "2-D") if full else ("3-D",)):
        o0 = bw[(BWD[0], lay)]
        for name in BWD[1:]:
            o = bw[(name, lay)]
            if o0 is not None and o is not None and not np.array_equal(o, o0):
                fail("conv_tools.%s vs col2im" % name, "col2im-variants-disagree(%s)" % lay, "equal images", {"first_diff": first_diff(o, o0)})
    # adjointness on integer data (exact in float64), pad value 0
    for fname, bname in zip(FWD, BWD):
        if full:
            fo, e1 = run(getattr(ct, fname), x, a["kernel"], dilation=a["dilation"], stride=a["stride"], padding=a["padding"], pad_value=0, as_unfold=True)
        else:
            fo, e1 = fw[(fname, True)], None
            if fo is None:
                continue
        bo = bw[(bname, "3-D")]
        if e1 is None and bo is not None and fo.shape == y3.shape:
            lhs, rhs = float(np.vdot(fo, y3)), float(np.vdot(x, bo))
            if lhs != rhs:
                fail("conv_tools.%s/%s" % (fname, bname), "not-adjoint", "vdot(im2col(x), y) == vdot(x, col2im(y))", {"lhs": lhs, "rhs": rhs})
        # fold(unfold(ones)) = coverage count
        if not full and fname != "im2col_fast":
            continue
        ones = np.ones((N, C, H, W))
        u, e2 = run(getattr(ct, fname), ones, a["kernel"], dilation=a["dilation"], stride=a["stride"], padding=a["padding"], pad_value=0, as_unfold=True)
        if e2 is None:
            f, e3 = run(getattr(ct, bname), u, (N, C, H, W), a["kernel"], a["dilation"], a["stride"], a["padding"])
            if e3 or f.shape != (N, C, H, W) or not np.array_equal(f, np.broadcast_to(cover, (N, C, H, W))):
                fail("conv_tools.%s(%s(ones))" % (bname, fname), "fold-unfold-multiplicity", "coverage count of each pixel",
                     e3 or {"first_diff": first_diff(f, np.broadcast_to(cover, (N, C, H, W)).astype(float))})
    if full:
        # windows
        w, err = run(ct.extract_windows, x, a["kernel"], a["stride"], a["padding"], a["dilation"], pad_value=pv)
        wref = ref_u.reshape(N, C, g["kH"], g["kW"], lH, lW).transpose(4, 5, 0, 1, 2, 3)
        if err or w.shape != wref.shape or not np.array_equal(w, wref):
            fail("conv_tools.extract_windows", "windows-differ-from-spec", "windows[i,j,n,c,a,b] = padded[n,c,i*sH+a*dH,j*sW+b*dW]", err or "different")
        yw = y3.reshape(N, C, g["kH"], g["kW"], lH, lW).transpose(4, 5, 0, 1, 2, 3)
        pwo, err = run(ct.place_windows, np.ascontiguousarray(yw), (N, C, H, W), a["kernel"], a["stride"], a["padding"], a["dilation"])
        o0 = bw[(BWD[0], "3-D")]
        if err or (o0 is not None and (pwo.shape != o0.shape or not np.array_equal(pwo, o0))):
            fail("conv_tools.place_windows", "place_windows-differs-from-col2im", "equal images", err or "different")
        if torch is not None:
            TF = torch.nn.functional
            tu = TF.unfold(torch.from_numpy(x), a["kernel"], dilation=a["dilation"], padding=a["padding"], stride=a["stride"]).numpy()
            fo, e1 = run(ct.im2col_fast, x, a["kernel"], dilation=a["dilation"], stride=a["stride"], padding=a["padding"], pad_value=0, as_unfold=True)
            if e1 or fo.shape != tu.shape or not np.array_equal(fo, tu):
                fail("conv_tools.im2col_fast", "differs-from-torch-unfold", "torch.nn.functional.unfold", e1 or "different")
            tf_ = TF.fold(torch.from_numpy(y3), (H, W), a["kernel"], dilation=a["dilation"], padding=a["padding"], stride=a["stride"]).numpy()
            bo = bw[("col2im_fast", "3-D")]
            if bo is not None and not np.array_equal(bo, tf_):
                fail("conv_tools.col2im_fast", "differs-from-torch-fold", "torch.nn.functional.fold", {"first_diff": first_diff(bo, tf_)})
    return fails


def _lite(job):
    g, seed = job
    return g, oracle(g, seed, torch=None, full=False)


def sweep(jobs, workers=8):
    """oracle (lite) over many geometries, in forked worker processes; falls back to the calling process"""
    import multiprocessing as mp
    try:
        ctxm = mp.get_context("fork")
        with ctxm.Pool(workers) as pool:
            return [r for r in pool.imap(_lite, jobs, chunksize=256) if r[1]]
    except Exception:
        return [r for r in map(_lite, jobs) if r[1]]


def first_diff(a, b):
    np = _impl().np
    if a is None or b is None or a.shape != b.shape:
        return "shape"
    idx = np.argwhere(~((a == b) | (np.isnan(a) & np.isnan(b))))
    if len(idx) == 0:
        return None
    i = tuple(int(v) for v in idx[0])
    return {"index": list(i), "observed": repr(float(a[i])), "expected": repr(float(b[i]))}


def int_tuple_stream():
    """(geometry with equal per-axis parameters, which arguments are passed as int)"""
    out = []
    for (h, w) in [(4, 5), (5, 3), (6, 6)]:
        for k, s, p, d in [(2, 1, 0, 1), (3, 2, 1, 1), (2, 2, 1, 2), (1, 1, 0, 1), (3, 1, 2, 1), (2, 3, 0, 2)]:
            if out_size(h, k, s, p, d) < 1 or out_size(w, k, s, p, d) < 1:
                continue
            g = dict(N=2, C=2, H=h, W=w, kH=k, kW=k, sH=s, sW=s, pH=p, pW=p, dH=d, dW=d)
            for mask in ("kspd", "k", "spd", "ks", "pd"):
                out.append((g, mask))
    return out


def run_int_tuple(g, mask):
    """call every function with int arguments where mask says so; expected: accepted, result equal to the all-tuple call.
    returns list of (function, outcome) with outcome None (fine) or a description"""
    impl = _impl(); np = impl.np; ct = impl.conv_tools; sg = impl.synapgrad; NF = impl.NF
    a = args_of(g)
    b = dict(kernel=g["kH"] if "k" in mask else a["kernel"], stride=g["sH"] if "s" in mask else a["stride"],
             padding=g["pH"] if "p" in mask else a["padding"], dilation=g["dH"] if "d" in mask else a["dilation"])
    N, C, H, W = g["N"], g["C"], g["H"], g["W"]
    lH, lW, R, L = dims(g)
    rs = np.random.RandomState(7)
    x = rs.randint(-5, 6, size=(N, C, H, W)).astype(np.float64)
    y3 = rs.randint(-5, 6, size=(N, R, L)).astype(np.float64)
    calls = []
    for name in FWD:
        fn = getattr(ct, name)
        for u in (True, False):
            calls.append(("conv_tools.%s(as_unfold=%s)" % (name, u),
                          lambda q, fn=fn, u=u: fn(x, q["kernel"], dilation=q["dilation"], stride=q["stride"], padding=q["padding"], pad_value=3.0, as_unfold=u)))
    for name in BWD:
        fn = getattr(ct, name)
        calls.append(("conv_tools.%s(3-D)" % name, lambda q, fn=fn: fn(y3, (N, C, H, W), q["kernel"], q["dilation"], q["stride"], q["padding"])))
        calls.append(("conv_tools.%s(2-D)" % name, lambda q, fn=fn: fn(to2d(y3), (N, C, H, W), q["kernel"], q["dilation"], q["stride"], q["padding"])))
    calls.append(("conv_tools.extract_windows", lambda q: np.array(ct.extract_windows(x, q["kernel"], q["stride"], q["padding"], q["dilation"], pad_value=3.0))))
    yw = np.ascontiguousarray(y3.reshape(N, C, g["kH"], g["kW"], lH, lW).transpose(4, 5, 0, 1, 2, 3))
    calls.append(("conv_tools.place_windows", lambda q: ct.place_windows(yw, (N, C, H, W), q["kernel"], q["stride"], q["padding"], q["dilation"])))
    calls.append(("nn.functional.unfold", lambda q: NF.unfold(sg.Tensor(x), q["kernel"], q["dilation"], q["stride"], q["padding"], 3.0).data))
    calls.append(("nn.functional.fold", lambda q: NF.fold(sg.Tensor(y3), (H, W), q["kernel"], q["dilation"], q["stride"], q["padding"]).data))
    res = []
    for name, call in calls:
        try:
            ref = np.asarray(call(a))
        except Exception:             # the all-tuple call itself fails: not an int-vs-tuple matter, the other ties report it
            res.append((name, None)); continue
        try:
            got = np.asarray(call(b))
            ok = got.shape == ref.shape and np.array_equal(got, ref)
            res.append((name, None if ok else "result differs from the all-tuple call"))
        except Exception as ex:
            res.append((name, "rejected: %s: %s" % (type(ex).__name__, str(ex)[:100])))
    return res


def accept_row(g):
    impl = _impl(); np = impl.np; ct = impl.conv_tools
    a = args_of(g)
    x = np.ones((g["N"], g["C"], g["H"], g["W"]))
    row = []
    detail = {}
    for name in FWD:
        acc = []
        for u in (True, False):
            try:
                getattr(ct, name)(x, a["kernel"], dilation=a["dilation"], stride=a["stride"], padding=a["padding"], as_unfold=u)
                acc.append(True)
            except Exception as ex:
                acc.append(False); detail[name] = type(ex).__name__
        row.append(acc[0])             # acceptance of the as_unfold=True call (the 2-D reshape of an empty result may add its own error)
    return row, detail


# ------------------------------------------------------------------ Coq text
HEADER = ("From Coq Require Import List ZArith Bool.\nImport ListNotations.\n"
          "From SG Require Import Base.Cmp NumPy.Window NumPy.Im2col NumPy.Im2colCorr.\nOpen Scope Z_scope.\n")


def zl(xs):
    return "[" + ";".join(str(int(v)) if v >= 0 else "(%d)" % int(v) for v in xs) + "]"


def geom_coq(g):
    return ("{| gN:=%(N)d; gC:=%(C)d; gH:=%(H)d; gW:=%(W)d; kH:=%(kH)d; kW:=%(kW)d; sH:=%(sH)d; sW:=%(sW)d; "
            "pH:=%(pH)d; pW:=%(pW)d; dH:=%(dH)d; dW:=%(dW)d |}" % g)


def geom1_coq(g):
    return "{| N1:=%(N)d; C1:=%(C)d; W1:=%(W)d; k1:=%(k)d; s1:=%(s)d; p1:=%(p)d; d1:=%(d)d |}" % g


def case_coq(g, tables):
    groups = {}
    for fid, t in sorted(tables.items()):
        groups.setdefault(tuple(t), []).append(fid)
    body = "; ".join("([%s], %s)" % (";".join("%d%%nat" % f for f in fids), zl(t)) for t, fids in groups.items())
    return "(%s, [%s])" % (geom_coq(g), body)


def parse_zlist(out):
    flat = " ".join(out.split())
    res = []
    for m in re.finditer(r"= \[(.*?)\]\s*:\s*list (Z|nat)", flat):
        body = m.group(1).replace("%nat", "").replace("%Z", "").strip()
        res.append([int(x) for x in body.split(";") if x.strip()])
    return res


# ------------------------------------------------------------------ the check
def run(ctx):
    rng = ctx.rng
    impl = _impl()
    ok_build, fails = ctx.build_props(extra_targets=["NumPy/Im2colCorr.vo"])
    oracle_fails = []          # (geometry, failure)

    # ---- oracle sweep over the full small product (no Coq) --------------------------------------------------------------
    t0 = time.time()
    small = list(small_product_cases(ctx.quick))
    n_small = len(small)
    base = rng.randrange(1 << 29)
    for g, fs in sweep([(g, base + i) for i, g in enumerate(small)]):
        for f in fs:
            oracle_fails.append((g, f))
    ctx.log("oracle on the full product grid: %d geometries in %.1fs" % (n_small, time.time() - t0))
    ctx.extra["oracle_geometries_judged_product"] = n_small
    ctx.extra["oracle_full_product"] = "every pair of per-axis geometries with H,W <= %d (N=C=1): %d geometries" % (4 if ctx.quick else 7, n_small)

    try:
        import torch
        torch.set_num_threads(1)
    except Exception:
        torch = None
        ctx.notes.append("torch not importable: the torch.nn.functional.unfold/fold reference was skipped")

    def judge(g, full=True):
        fs = oracle(g, rng.randrange(1 << 30), torch=torch, full=full)
        for f in fs:
            oracle_fails.append((g, f))
        return fs

    # ---- tie 1: index tables of every function on the geometry grid -------------------------------------------
    geoms = geometry_cases(rng, ctx.quick)
    CH = 60
    cases = []
    nontrivial = set()
    t0 = time.time()
    for i, g in enumerate(geoms):
        tb = probe_all(g)
        cases.append((g, tb))
        n_in = g["N"] * g["C"] * g["H"] * g["W"]
        if tb[0] != list(range(1, n_in + 1)):
            nontrivial.add(tuple(g[k] for k in KEYS))
        judge(g)
    ctx.log("probed+judged %d geometries in %.1fs" % (len(geoms), time.time() - t0))
    g_s, t_s = cases[len(cases) // 3]
    ctx.sample({"geometry": g_s, "im2col_fast(as_unfold=True) on 1+arange, pad -1": t_s[2][:24], "col2im scatter codes": t_s[7][:12]})
    files = []
    for k in range(0, len(cases), CH):
        chunk = cases[k:k + CH]
        txt = HEADER + "Definition cases : list case :=\n [%s].\n" % ";\n  ".join(case_coq(g, tb) for g, tb in chunk)
        txt += "Eval vm_compute in (check_cases cases).\n"
        files.append(("maps_%d" % (k // CH), txt))
    res = ctx.coq_eval_many(files, timeout=900)
    mism = []
    for (name, _), k in zip(files, range(0, len(cases), CH)):
        ok, out = res[name]
        lists = parse_zlist(out)
        if not ok or len(lists) != 1:
            mism.append({"file": name, "error": out[-400:]}); continue
        for code in lists[0]:
            ci, fid = divmod(code, 100)
            g, tb = cases[k + ci]
            mism.append({"function": FN_NAMES[fid], "geometry": g, "implementation_table": tb[fid][:40]})
    ctx.tie("conv_tools index maps (16 functions x geometry grid)", "correspondence", len(cases) * 16, len(nontrivial), mism,
            exhaustive=True,
            note="every per-axis geometry (k,s in 1..%d, p in 0..2, d in 1..2, size 1..%d, >= 1 window) occurs on the H axis and on the W axis; "
                 "forward maps read with 1+arange data and pad value -1, scatter multisets with distinct powers of 4 (object dtype); "
                 "N,C in {1,2}; non-trivial = forward map of im2col is not the identity" % ((3, 7) if ctx.quick else (4, 9)))
    ctx.extra["geometries"] = len(geoms)

    # ---- tie 2: 1-D windows on the exhaustive per-axis grid -----------------------------------------------------
    g1 = geometry_1d_cases(ctx.quick)
    c1 = [(g, probe_1d(g)) for g in g1]
    files = []
    CH1 = 120
    for k in range(0, len(c1), CH1):
        chunk = c1[k:k + CH1]
        txt = HEADER + "Definition cases : list case1 :=\n [%s].\n" % ";\n  ".join("(%s, (%s, %s))" % (geom1_coq(g), zl(tw), zl(tc)) for g, (tw, tc) in chunk)
        txt += "Eval vm_compute in (check_cases1 cases).\n"
        files.append(("win1d_%d" % (k // CH1), txt))
    res = ctx.coq_eval_many(files, timeout=900)
    mism = []
    for (name, _), k in zip(files, range(0, len(c1), CH1)):
        ok, out = res[name]
        lists = parse_zlist(out)
        if not ok or len(lists) != 1:
            mism.append({"file": name, "error": out[-400:]}); continue
        for code in lists[0]:
            ci, fid = divmod(code, 100)
            g, (tw, tc) = c1[k + ci]
            mism.append({"function": FN_NAMES[fid], "geometry": g, "implementation_table": (tw if fid == 20 else tc)[:40]})
    ctx.tie("extract_windows / place_windows on (N,C,W), exhaustive per-axis grid", "correspondence", 2 * len(c1),
            sum(1 for g in g1 if g["k"] > 1 or g["p"] > 0 or g["s"] > 1), mism, exhaustive=True,
            note="all (W,k,s,p,d) of the grid with >= 1 window; non-trivial = not the identity window (k=1,s=1,p=0)")

    # ---- tie 3: malformed stream — empty / negative output geometries --------------------------------------------
    mal = malformed_cases()
    rows = []
    details = {}
    for g in mal:
        row, det = accept_row(g)
        rows.append((g, row))
        for k, v in det.items():
            details.setdefault(k, set()).add(v)
    txt = HEADER + "Definition cases : list (geom * list bool) :=\n [%s].\n" % ";\n  ".join(
        "(%s, %s)" % (geom_coq(g), clist([cb(b) for b in row])) for g, row in rows)
    txt += "Eval vm_compute in (check_accepts cases).\n"
    ok, out = ctx.coq_eval("accepts", txt)
    lists = parse_zlist(out)
    mism = []
    if not ok or len(lists) != 1:
        mism.append({"error": out[-400:]})
    else:
        for i in lists[0]:
            mism.append({"geometry": rows[i][0], "accepted [im2col, im2col_v2, im2col_fast]": rows[i][1]})
    n_acc = sum(1 for g, row in rows if any(row))
    ctx.tie("acceptance of empty/negative output geometries", "correspondence", len(rows), len(rows), mism, exhaustive=False,
            note="malformed stream: %d geometries without a window on some axis; %d of them are ACCEPTED by im2col/im2col_v2 "
                 "(both output sizes negative, L = lH*lW > 0) — outside C16's non-empty scope, reported for C06; exception types seen: %s"
                 % (len(rows), n_acc, {k: sorted(v) for k, v in details.items()}))
    if n_acc:
        ex = next(g for g, row in rows if any(row))
        ctx.notes.append("C06 note (outside C16's scope): the variants reject empty geometries differently — get_im2col_indices/im2col_v2 test L = lH*lW <= 0, "
                         "so a kernel larger than the input on BOTH axes (lH,lW < 0, L > 0) is accepted and returns an empty / all-zero matrix, e.g. %s; "
                         "extract_windows raises UnboundLocalError (its error message uses `stride` before assignment) for L = 0 and ValueError for a negative extent" % json.dumps(ex))

    # ---- tie 4: int vs tuple arguments -------------------------------------------------------------------------------
    stream = int_tuple_stream()
    mism = []
    n_calls = 0
    for g, mask in stream:
        for name, outcome in run_int_tuple(g, mask):
            n_calls += 1
            if outcome:
                mism.append({"function": name, "geometry": g, "int_arguments": mask, "outcome": outcome})
                if len([m for m in mism if m["function"] == name]) == 1:
                    ctx.witness(name, "int-geometry-argument", {"geometry": g, "int_arguments": mask},
                                "accepted, result equal to the call with tuples (documented `int or tuple`)", outcome)
    ctx.tie("int vs tuple geometry arguments", "correspondence", n_calls, n_calls, mism,
            note="each of the 18 entry points called with int kernel/stride/padding/dilation (5 masks) on %d square-parameter geometries; "
                 "expected: accepted and array_equal to the all-tuple call" % (len(stream) // 5))

    # ---- witnesses -----------------------------------------------------------------------------------------------------
    seen = set()
    oracle_fails.sort(key=lambda gf: (gf[0]["N"] * gf[0]["C"] * gf[0]["H"] * gf[0]["W"], gf[0]["kH"] * gf[0]["kW"]))
    for g, f in oracle_fails:
        key = (f["site"], f["klass"].split("(")[0])
        if key in seen:
            continue
        seen.add(key)
        ctx.witness(f["site"], f["klass"], {"geometry": g, "seed": f["seed"]}, f["expected"], f["observed"])
    ctx.extra["oracle_failures"] = len(oracle_fails)


FINISH = dict(rule="index tables compared exactly inside Coq (vm_compute) for 16 entry points per geometry; geometry grid: every per-axis "
                   "geometry on both axes (exhaustive per axis), 1-D grid fully exhaustive; distinct non-trivial = distinct geometries "
                   "whose im2col map is not the identity; oracle additionally judges the full product of small per-axis geometries")


def replay(ctx, data):
    """Re-run a stored witness on the implementation."""
    import random
    if data.get("kind") != "failing-input":
        print(json.dumps(data.get("broken"), indent=1)); return 1
    inp = data["input"]
    g = inp["geometry"]
    if data["class"] == "int-geometry-argument":
        bad = [(n, o) for n, o in run_int_tuple(g, inp["int_arguments"]) if o and n == data["site"]]
        print("observed", bad, "recorded", data["observed"])
        return 1 if bad else 0
    try:
        import torch
    except Exception:
        torch = None

    fs = [f for f in oracle(g, inp["seed"], torch=torch, full=True) + oracle(g, inp["seed"], torch=None, full=False) if f["site"] == data["site"]]
    print("observed", json.dumps(fs, default=str)[:600], "recorded", data["observed"])
    return 1 if fs else 0
