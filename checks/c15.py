"""C15 — weight initialisers fill tensors with the documented distribution, in place.

Obligations : coq/Props/C15.v  (generated scale expressions = documented formulas over R for every shape of rank >= 2,
              every gain / mode / nonlinearity / slope; PyTorch's fan definition and gain table; layer resets; effect
              summaries of the five plain fillers)
Ties        : T  lib/py2coq/gen_init.py regenerates Gen/GenInit.v from nn/init.py + nn/layers.py; its IR is evaluated in
                 Python and compared with the arguments the real functions pass to numpy.random.uniform / normal
                 (observed from outside by temporarily replacing the two attributes of the numpy.random module)
              K  the same observations against the documented formulas (exact rationals + math.sqrt, relative 1e-12) and
                 against torch.nn.init._calculate_fan_in_and_fan_out / calculate_gain; identity, shape, dtype,
                 requires_grad of the tensor; values inside the bounds; constant fillers exactly
Oracle      : the K comparison is itself independent of Coq (documentation formulas, PyTorch).
Sampled     : (thorough tier) that the drawn samples have the documented mean / standard deviation — this depends on
              NumPy's generators and is outside the model: 1e5 draws, 6-sigma band, reported as sampled.
"""
import json, math, os
from fractions import Fraction
from lib import common

REL = 1e-12


def _impl():
    from lib import impl
    return impl


def _gen():
    from lib.py2coq import gen_init
    return gen_init


class Recorder:
    """records the arguments of numpy.random.uniform / normal while active (restores the attributes afterwards)"""

    def __init__(self, np):
        self.np = np
        self.calls = []

    def __enter__(self):
        np = self.np
        self.u, self.n = np.random.uniform, np.random.normal
        rec = self

        def uniform(low=0.0, high=1.0, size=None):
            rec.calls.append(("uniform", low, high, size))
            return rec.u(low, high, size)

        def normal(loc=0.0, scale=1.0, size=None):
            rec.calls.append(("normal", loc, scale, size))
            return rec.n(loc, scale, size)
        np.random.uniform, np.random.normal = uniform, normal
        return self

    def __exit__(self, *a):
        self.np.random.uniform, self.np.random.normal = self.u, self.n


# ------------------------------------------------------------------ documentation (independent of the code and of Coq)
GAINS = {"linear": lambda s: 1.0, "conv1d": lambda s: 1.0, "conv2d": lambda s: 1.0, "sigmoid": lambda s: 1.0,
         "tanh": lambda s: float(Fraction(5, 3)), "relu": lambda s: math.sqrt(2.0),
         "leaky_relu": lambda s: math.sqrt(2.0 / (1.0 + (0.01 if s is None else s) ** 2)), "selu": lambda s: 0.75}


def doc_fans(shape):
    if len(shape) < 2:
        raise ValueError("rank")
    r = 1
    for d in shape[2:]:
        r *= d
    return shape[1] * r, shape[0] * r


def doc_call(name, shape, kw):
    fi, fo = doc_fans(shape)
    if name == "xavier_uniform_":
        a = kw.get("gain", 1.0) * math.sqrt(Fraction(6, fi + fo))
        return ("uniform", -a, a)
    if name == "xavier_normal_":
        return ("normal", 0.0, kw.get("gain", 1.0) * math.sqrt(Fraction(2, fi + fo)))
    mode = kw.get("mode", "fan_in")
    if mode not in ("fan_in", "fan_out"):
        raise ValueError("mode")
    fan = fi if mode == "fan_in" else fo
    nl = kw.get("nonlinearity", "leaky_relu")
    if nl not in GAINS:
        raise ValueError("nonlinearity")
    gain = GAINS[nl](kw.get("a", 0))
    if name == "kaiming_uniform_":
        b = gain * math.sqrt(Fraction(3, fan))
        return ("uniform", -b, b)
    return ("normal", 0.0, gain / math.sqrt(fan))


def close(a, b):
    return a == b or abs(a - b) <= REL * max(abs(a), abs(b))


def same_call(x, y):
    return x[0] == y[0] and close(float(x[1]), float(y[1])) and close(float(x[2]), float(y[2]))


# ------------------------------------------------------------------ grids
def shapes(quick):
    base = [(3, 5), (1, 1), (5, 1), (1, 7), (4, 2, 3), (2, 3, 1), (2, 3, 2, 2), (8, 3, 5, 5), (1, 2, 1, 3), (2, 1, 3, 2, 2), (3, 2, 1, 1, 4)]
    if not quick:
        base += [(16, 32), (7, 7), (6, 4, 9), (3, 3, 3, 3), (2, 2, 2, 2, 2), (10, 1, 2, 1, 2), (64, 3, 7, 7)]
    return base


GAIN_VALUES = [1.0, 0.5, 5.0 / 3, math.sqrt(2.0), 2.0]
SLOPES = [0, 0.01, 0.2, 1, -0.5, 2, 1.5]
NONLIN = ["linear", "conv1d", "conv2d", "sigmoid", "tanh", "relu", "leaky_relu", "selu"]


def scaled_cases(quick, rng):
    cases = []
    for sh in shapes(quick):
        for g in GAIN_VALUES:
            cases.append(("xavier_uniform_", sh, {"gain": g}))
            cases.append(("xavier_normal_", sh, {"gain": g}))
        cases.append(("xavier_uniform_", sh, {}))
        cases.append(("xavier_normal_", sh, {}))
        for name in ("kaiming_uniform_", "kaiming_normal_"):
            cases.append((name, sh, {}))
            for mode in ("fan_in", "fan_out"):
                for nl in NONLIN:
                    slopes = SLOPES if nl == "leaky_relu" else [rng.choice(SLOPES)]
                    for a in slopes:
                        cases.append((name, sh, {"a": a, "mode": mode, "nonlinearity": nl}))
    return cases


MALFORMED = [("xavier_uniform_", (4,), {}), ("xavier_normal_", (), {}), ("kaiming_uniform_", (3,), {}), ("kaiming_normal_", (5,), {}),
             ("kaiming_uniform_", (3, 4), {"mode": "fan_avg"}), ("kaiming_normal_", (3, 4), {"mode": "FAN_IN"}),
             ("kaiming_uniform_", (3, 4), {"nonlinearity": "gelu"}), ("kaiming_normal_", (3, 4), {"nonlinearity": ""})]


# ------------------------------------------------------------------ running the real functions
def run_real(impl, name, shape, kw, dtype, req):
    """returns dict(call=..., problems=[...]) or dict(raised=...)"""
    np, sg = impl.np, impl.synapgrad
    t = sg.Tensor(np.full(shape, 7.0, dtype=dtype), requires_grad=req)
    before = dict(t.__dict__)
    old_data = t.data
    fn = getattr(impl.nn.init, name)
    with Recorder(np) as rec:
        try:
            out = fn(t, **kw)
        except ValueError as ex:
            return {"raised": "ValueError", "calls": rec.calls}
    problems = []
    if out is not t:
        problems.append("returns a different object")
    if t.data.shape != tuple(shape):
        problems.append("shape %s -> %s" % (shape, t.data.shape))
    if t.data.dtype != np.dtype(dtype):
        problems.append("dtype %s -> %s" % (np.dtype(dtype), t.data.dtype))
    if bool(t.requires_grad) != req:
        problems.append("requires_grad changed")
    for k, v in before.items():
        if k != "data" and t.__dict__.get(k) is not v and t.__dict__.get(k) != v:
            problems.append("attribute %s changed" % k)
    if set(t.__dict__) != set(before):
        problems.append("attributes added/removed: %s" % sorted(set(t.__dict__) ^ set(before)))
    if t.data is old_data:
        problems.append("data not replaced (expected a freshly drawn array)")
    return {"calls": rec.calls, "problems": problems, "data": t.data}


# ------------------------------------------------------------------ initialisers under every grad-mode context
CONTEXTS = {"plain": [], "no_grad": ["no_grad"], "retain_grads": ["retain_grads"],
            "no_grad>retain_grads": ["no_grad", "retain_grads"], "retain_grads>no_grad": ["retain_grads", "no_grad"],
            "no_grad>no_grad": ["no_grad", "no_grad"]}
NINE = [("uniform_", {"a": -0.5, "b": 0.5}), ("normal_", {"mean": 0.0, "std": 0.5}), ("constant_", {"val": 0.25}), ("ones_", {}), ("zeros_", {}),
        ("xavier_uniform_", {"gain": 2.0}), ("xavier_normal_", {}), ("kaiming_uniform_", {"a": 0.2}), ("kaiming_normal_", {"mode": "fan_out", "nonlinearity": "relu"})]


def tensor_state(impl, t):
    """everything but the contents of .data: compared before/after an initialiser"""
    np = impl.np
    st = {"id": id(t), "class": type(t).__name__, "shape": tuple(t.data.shape), "dtype": str(t.data.dtype), "requires_grad": bool(t.requires_grad),
          "_grad_id": id(t._grad) if t._grad is not None else None, "_grad_val": None if t._grad is None else t._grad.copy(),
          "grad_fn_id": id(t.grad_fn) if t.grad_fn is not None else None, "_children_ids": tuple(id(c) for c in t._children),
          "name": t.name, "is_leaf": bool(t.is_leaf), "attrs": sorted(t.__dict__)}
    for k, v in t.__dict__.items():
        if k not in ("data", "_grad", "_grad_fn", "_children", "_requires_grad", "_name"):
            st["attr:" + k] = v if isinstance(v, (bool, int, float, str, type(None))) else id(v)
    return st


def state_diff(np, a, b):
    out = []
    for k in a:
        if k == "_grad_val":
            if (a[k] is None) != (b[k] is None) or (a[k] is not None and not np.array_equal(a[k], b[k])):
                out.append("_grad contents changed")
        elif a[k] != b.get(k):
            out.append("%s: %r -> %r" % (k, a[k], b.get(k)))
    return out


def make_subject(impl, kind, shape, dtype, req):
    """returns (tensor, module or None, keepalive)"""
    np, sg, nn = impl.np, impl.synapgrad, impl.nn
    data = np.full(shape, 3.0, dtype=dtype)
    if kind == "tensor":
        t = sg.Tensor(data, requires_grad=req, name="w0")
        mod = None
    elif kind == "parameter":
        class M(nn.Module):
            def __init__(self):
                super().__init__()
                self.w = nn.Parameter(data, requires_grad=req, name="w0")
        mod = M()
        t = mod.w
    else:   # non-leaf result with grad_fn and children (only meaningful when it requires grad)
        x = sg.Tensor(data.copy(), requires_grad=True, name="x")
        t = x * 2.0
        t._name = "w0"
        return t, None, x
    if req:     # give it a gradient through a real backward
        (t * 1.0).sum().backward()
    return t, mod, None


def context_case(impl, fname, kw, cname, kind, req, dtype):
    """one initialiser call inside the grad-mode context `cname`; returns the list of things that changed but must not"""
    import contextlib
    np, sg = impl.np, impl.synapgrad
    impl.reset_modes()
    t, mod, keep = make_subject(impl, kind, (3, 4), dtype, req)
    before = tensor_state(impl, t)
    old_data = t.data
    bad = []
    try:
        with contextlib.ExitStack() as st:
            for c in CONTEXTS[cname]:
                st.enter_context(getattr(sg, c)())
            modes_in = (impl.grad_mode(), impl.retain_mode())
            out = getattr(impl.nn.init, fname)(t, **kw)
            if (impl.grad_mode(), impl.retain_mode()) != modes_in:
                bad.append("the initialiser changed the global grad mode")
    except Exception as ex:
        bad.append("raised %r" % ex)
        out = t
    if (impl.grad_mode(), impl.retain_mode()) != (True, False):
        bad.append("grad mode not restored")
    if out is not t:
        bad.append("returns a different object")
    bad += state_diff(np, before, tensor_state(impl, t))
    if t.data is old_data and not bad:
        bad.append(".data not rebound")
    if mod is not None:
        if mod._parameters.get("w") is not t or mod.w is not t or not any(p is t for p in mod.parameters()):
            bad.append("module registration of the parameter changed")
    impl.reset_modes()
    return bad


def run_contexts(impl, ctx_quick):
    """every initialiser x grad-mode context x requires_grad x dtype x kind of tensor. Returns (cases, mismatches, witnesses)"""
    import contextlib
    np, sg = impl.np, impl.synapgrad
    mism, wit, n = [], [], 0
    for cname in CONTEXTS:
        for fname, kw in NINE:
            for kind in ("tensor", "parameter", "nonleaf"):
                for req in ((True,) if kind == "nonleaf" else (True, False)):
                    for dtype in (np.float32, np.float64):
                        n += 1
                        bad = context_case(impl, fname, kw, cname, kind, req, dtype)
                        if bad:
                            desc = {"fn": fname, "kwargs": kw, "context": cname, "kind": kind, "requires_grad": req, "dtype": str(np.dtype(dtype)), "shape": [3, 4]}
                            mism.append(dict(desc, problems=bad))
                            wit.append(("nn.init." + fname, desc, "only .data is rebound; identity, shape, dtype, requires_grad, _grad, grad_fn, _children, name, registration unchanged", bad))
    # layers: reset_parameters under every context
    for cname, stack in CONTEXTS.items():
        for lname, args in (("Linear", (3, 4)), ("Conv1d", (2, 3, 3)), ("Conv2d", (2, 3, 2))):
            for bias in (True, False):
                for frozen in (False, True):
                    n += 1
                    impl.reset_modes()
                    layer = getattr(impl.nn, lname)(*args, bias=bias)
                    ps = [("weight", layer.weight)] + ([("bias", layer.bias)] if bias else [])
                    if frozen:
                        layer.freeze()
                    else:
                        x = sg.Tensor(np.ones((2, 3) if lname == "Linear" else ((1, 2, 5) if lname == "Conv1d" else (1, 2, 4, 4)), dtype=np.float32))
                        layer(x).sum().backward()
                    before = {k: tensor_state(impl, p) for k, p in ps}
                    bad = []
                    try:
                        with contextlib.ExitStack() as st:
                            for c in stack:
                                st.enter_context(getattr(sg, c)())
                            layer.reset_parameters()
                    except Exception as ex:
                        bad.append("raised %r" % ex)
                    for k, p in ps:
                        if getattr(layer, k) is not p or layer._parameters.get(k) is not p:
                            bad.append("%s is no longer the registered parameter" % k)
                        bad += ["%s.%s" % (k, d) for d in state_diff(np, before[k], tensor_state(impl, p))]
                    if [id(p) for p in layer.parameters()] != [id(p) for _, p in ps]:
                        bad.append("layer.parameters() changed")
                    if bad:
                        desc = {"layer": lname, "args": list(args), "bias": bias, "frozen": frozen, "context": cname}
                        mism.append(dict(desc, problems=bad))
                        wit.append(("nn.%s.reset_parameters" % lname, desc, "parameters keep identity, flags, gradient and registration; only .data is rebound", bad))
    impl.reset_modes()
    wit.sort(key=lambda w: (0 if any(str(b).startswith("requires_grad") or ".requires_grad" in str(b) for b in w[3]) else 1, len(w[3])))
    return n, mism, wit


# ------------------------------------------------------------------ large tensors (block-wise fills, tails)
BLOCK = 65536
LARGE_SHAPES = [(1, 65537), (70, 1000), (300, 300), (96, 32, 5, 5), (2, 65538), (256, 256)]     # 65536k + r, and one exact multiple


def _count(size):
    if size is None:
        return 1
    if isinstance(size, (int,)) or hasattr(size, "__index__"):
        return int(size)
    n = 1
    for d in size:
        n *= int(d)
    return n


def judge_large(np, name, doc, calls, t, out, data_before_id, shape, dtype):
    """doc = (kind, x, y) documented numpy call. Returns the list of problems."""
    bad = []
    x = t.data
    if out is not t:
        bad.append("returns a different object")
    if tuple(x.shape) != tuple(shape) or x.dtype != np.dtype(dtype):
        bad.append("shape/dtype %s %s -> %s %s" % (shape, np.dtype(dtype), x.shape, x.dtype))
        return bad
    n = x.size
    drawn = sum(_count(c[3]) for c in calls)
    if drawn != n:
        bad.append("%d samples were requested from numpy.random for a tensor of %d elements" % (drawn, n))
    for c in calls:
        if not same_call(c, doc):
            bad.append("numpy.random.%s(%r, %r), documented %s(%r, %r)" % (c[0], c[1], c[2], doc[0], doc[1], doc[2]))
            break
    v = x.reshape(-1).astype(np.float64)
    if not np.all(np.isfinite(v)) or np.any(np.abs(v) >= 1e29):
        k = int(np.argmax(~np.isfinite(v) | (np.abs(v) >= 1e29)))
        bad.append("element %d of %d is %r (NaN / poison pattern survives: not initialised)" % (k, n, float(v[k])))
        return bad
    if doc[0] == "uniform":
        lo, hi = float(doc[1]), float(doc[2])
        eps = 1e-6 * max(1.0, abs(hi), abs(lo))
        if v.min() < lo - eps or v.max() > hi + eps:
            bad.append("values outside [low, high]: min %r max %r" % (float(v.min()), float(v.max())))
        mu, sd, kurt = (lo + hi) / 2, (hi - lo) / math.sqrt(12), 1.8
    else:
        mu, sd, kurt = float(doc[1]), float(doc[2]), 3.0
    start = BLOCK * (n // BLOCK)
    blocks = [("tail block [%d:%d]" % (start, n), v[start:])] if n - start >= 64 else []
    blocks += [("first block", v[:min(n, BLOCK)]), ("last 4096 elements", v[-4096:])]
    for what, w in blocks:
        m = w.size
        vals, cnt = np.unique(w, return_counts=True)
        if cnt.max() > max(3, 0.01 * m):
            bad.append("%s: value %r repeated %d times in %d elements" % (what, float(vals[cnt.argmax()]), int(cnt.max()), m))
            continue
        zm = (w.mean() - mu) / (sd / math.sqrt(m))
        zs = (w.std() - sd) / (sd * math.sqrt((kurt - 1) / (4 * m)))
        if abs(zm) > 6 or abs(zs) > 6:
            bad.append("%s: sample mean %r / std %r, documented %r / %r (z = %.1f / %.1f)" % (what, float(w.mean()), float(w.std()), mu, sd, zm, zs))
    return bad


def run_large(impl, seed):
    """a few LARGE tensors per initialiser and dtype. Returns (cases, mismatches, witnesses, report)"""
    np, sg = impl.np, impl.synapgrad
    mism, wit, n, report = [], [], 0, []
    fns = [("uniform_", {"a": -0.5, "b": 1.5}), ("normal_", {"mean": 0.25, "std": 0.5}), ("xavier_uniform_", {"gain": 2.0}), ("xavier_normal_", {"gain": 2.0}),
           ("kaiming_uniform_", {"a": 0.2}), ("kaiming_normal_", {"mode": "fan_out", "nonlinearity": "relu"})]
    for name, kw in fns:
        for sh in LARGE_SHAPES + ([(65537,), (131077,)] if name in ("uniform_", "normal_") else []):
            for dtype in (np.float32, np.float64):
                n += 1
                np.random.seed((seed + n) % (2 ** 31))
                t = sg.Tensor(np.full(sh, np.nan, dtype=dtype), requires_grad=(n % 2 == 0))
                junk = np.full(t.data.size, 1e30, dtype=dtype)      # poison memory that a fresh np.empty may recycle
                del junk
                if name in ("uniform_", "normal_"):
                    doc = ("uniform", kw["a"], kw["b"]) if name == "uniform_" else ("normal", kw["mean"], kw["std"])
                else:
                    doc = doc_call(name, sh, kw)
                with Recorder(np) as rec:
                    try:
                        out = getattr(impl.nn.init, name)(t, **kw)
                        bad = judge_large(np, name, doc, rec.calls, t, out, None, sh, dtype)
                    except Exception as ex:
                        bad = ["raised %r" % ex]
                if bad:
                    desc = {"fn": name, "kwargs": kw, "shape": list(sh), "dtype": str(np.dtype(dtype)), "numpy_seed": (seed + n) % (2 ** 31), "prefill": "NaN"}
                    mism.append(dict(desc, problems=bad))
                    wit.append(("nn.init." + name, desc, "every element drawn from %s(%r, %r)" % doc, bad))
    # layer defaults on large weights
    for lname, args, wshape in (("Linear", (300, 300), (300, 300)), ("Conv2d", (32, 96, 5), (96, 32, 5, 5))):
        n += 1
        np.random.seed((seed + n) % (2 ** 31))
        layer = getattr(impl.nn, lname)(*args)
        w = layer.weight
        w.data[...] = np.nan
        fi, _ = doc_fans(wshape)
        doc = ("uniform", -1.0 / math.sqrt(fi), 1.0 / math.sqrt(fi))
        dt = w.data.dtype
        with Recorder(np) as rec:
            layer.reset_parameters()
        wcalls = [c for c in rec.calls if _count(c[3]) != wshape[0]] or rec.calls[:1]     # calls for the weight (the bias has out_features samples)
        bad = judge_large(np, lname, doc, wcalls, w, w, None, wshape, dt) if layer.weight is w else ["weight replaced"]
        if bad:
            desc = {"layer": lname, "args": list(args), "weight_shape": list(wshape), "dtype": str(dt), "numpy_seed": (seed + n) % (2 ** 31)}
            mism.append(dict(desc, problems=bad))
            wit.append(("nn.%s.reset_parameters" % lname, desc, "every weight drawn from uniform(%r, %r)" % (doc[1], doc[2]), bad))
    return n, mism, wit


def run(ctx):
    rng = ctx.rng
    gen = _gen()
    impl = _impl()
    np, sg = impl.np, impl.synapgrad
    import torch

    # ---- T: regenerate
    G, terr = None, None
    try:
        G = gen.generate()
    except gen.Untranslatable as ex:
        terr = str(ex)
        ctx.log("translator refused:", terr)
        common.write_if_changed(gen.OUT, "(* lib/py2coq/gen_init.py refused to translate: %s *)\nFrom Coq Require Import String.\n"
                                "Definition translator_refused : False := \"%s\"%%string.\n" % (terr.replace("*)", "* )"), terr.replace('"', "'")))
        ctx.tie("translator/nn.init", "translator", 1, 0, [{"untranslatable": terr}],
                note="the fail-closed translator does not accept the current sources")
    ctx.build_props()

    witnesses = []      # (site, input, expected, observed)

    # ---- gain table and fans: real vs IR vs documentation vs torch
    gm, gcases = [], 0
    tm = []
    for nl in NONLIN + ["gelu", "", "Linear"]:
        for param in [None, 0, 0.01, 0.2, 1, -0.5, 2, True, "0.2"]:
            gcases += 1
            try:
                real = impl.nn.init.calculate_gain(nl, param)
            except ValueError:
                real = "raises"
            if nl in GAINS and not (nl == "leaky_relu" and (isinstance(param, (bool, str)))):
                doc = GAINS[nl](param)
            else:
                doc = "raises"
            try:
                tg = torch.nn.init.calculate_gain(nl, param) if nl not in ("conv1d", "conv2d") else torch.nn.init.calculate_gain(nl, param)
            except (ValueError, TypeError):
                tg = "raises"
            if G is not None:
                try:
                    ir = gen.eval_gain(G["gain"], nl, param)
                except ValueError:
                    ir = "raises"
                if not (ir == real or (ir != "raises" and real != "raises" and ir == real)):
                    tm.append({"calculate_gain": [nl, repr(param)], "implementation": real, "translator_IR": ir})
            ok = (real == doc) if "raises" in (real, doc) else close(float(real), float(doc))
            okt = (real == tg) if "raises" in (real, tg) else close(float(real), float(tg))
            if not ok or not okt:
                gm.append({"calculate_gain": [nl, repr(param)], "implementation": real, "documented": doc, "torch": tg})
                witnesses.append(("nn.init.calculate_gain", {"nonlinearity": nl, "param": repr(param)}, {"documented": doc, "torch": tg}, real))
    fm, fcases = [], 0
    for sh in shapes(ctx.quick) + [(4,), (), (0, 3), (3, 0, 2)]:
        fcases += 1
        t = sg.Tensor(np.zeros(sh, dtype=np.float32))
        try:
            real = tuple(int(x) for x in impl.nn.init._calculate_fan_in_and_fan_out(t))
        except ValueError:
            real = "raises"
        try:
            doc = doc_fans(sh)
        except ValueError:
            doc = "raises"
        try:
            tf = tuple(int(x) for x in torch.nn.init._calculate_fan_in_and_fan_out(torch.empty(sh)))
        except ValueError:
            tf = "raises"
        if G is not None:
            try:
                ir = tuple(int(x) for x in gen.eval_fans(G["fans"], list(sh)))
            except ValueError:
                ir = "raises"
            if ir != real:
                tm.append({"fans": list(sh), "implementation": real, "translator_IR": ir})
        if real != doc or real != tf:
            fm.append({"shape": list(sh), "implementation": real, "documented": doc, "torch": tf})
            witnesses.append(("nn.init._calculate_fan_in_and_fan_out", {"shape": list(sh)}, {"documented": doc, "torch": tf}, real))
    ctx.tie("init/gain table", "correspondence", gcases, gcases, gm, exhaustive=True,
            note="every nonlinearity name (+3 unknown) x slope parameter in {None, ints, floats, bool, str}: documentation table and torch.nn.init.calculate_gain")
    ctx.tie("init/fans", "correspondence", fcases, fcases - 4, fm, note="ranks 0-5 incl. degenerate dims: PyTorch's definition and torch.nn.init._calculate_fan_in_and_fan_out")

    # ---- scaled initialisers
    cases = scaled_cases(ctx.quick, rng)
    sm, distinct = [], set()
    n_in_bounds = 0
    for k, (name, sh, kw) in enumerate(cases):
        dtype = np.float32 if k % 2 == 0 else np.float64
        req = (k % 3 == 0)
        r = run_real(impl, name, sh, kw, dtype, req)
        doc = doc_call(name, sh, kw)
        desc = {"fn": name, "shape": list(sh), "kwargs": kw, "dtype": str(np.dtype(dtype)), "requires_grad": req}
        distinct.add(json.dumps([name, list(sh), kw], sort_keys=True))
        if "raised" in r or len(r["calls"]) != 1:
            sm.append(dict(desc, implementation=r.get("raised", [c[:3] for c in r["calls"]]), documented=doc))
            witnesses.append(("nn.init." + name, desc, list(doc), r.get("raised", "calls: %r" % (r["calls"],))))
            continue
        call = r["calls"][0]
        if G is not None:
            ir = gen.eval_scaled(G, name, list(sh), kw)
            irk = ("uniform" if ir[0] == "uniform_" else "normal", ir[1], ir[2])
            if not (irk[0] == call[0] and float(irk[1]) == float(call[1]) and float(irk[2]) == float(call[2])):
                tm.append(dict(desc, implementation=[call[0], call[1], call[2]], translator_IR=list(irk)))
        bad = []
        if not same_call(call, doc):
            bad.append("numpy.random.%s(%r, %r) but documented %s(%r, %r)" % (call[0], call[1], call[2], doc[0], doc[1], doc[2]))
        if call[0] == "uniform" and not (float(call[1]) == -float(call[2])):
            bad.append("lower bound is not the negated upper bound")
        if tuple(call[3]) != tuple(sh):
            bad.append("size argument %r" % (call[3],))
        if call[0] == "uniform":
            lo, hi = float(call[1]), float(call[2])
            d = r["data"].astype(np.float64)
            eps = 1e-6 * max(1.0, abs(hi))     # float32 rounding of the bounds
            if d.size and not (d.min() >= lo - eps and d.max() <= hi + eps):
                bad.append("values outside [low, high]")
            else:
                n_in_bounds += 1
        bad += r["problems"]
        if bad:
            sm.append(dict(desc, problems=bad))
            witnesses.append(("nn.init." + name, desc, {"documented_call": list(doc), "identity/shape/dtype/requires_grad": "preserved"},
                              {"numpy_call": [call[0], float(call[1]), float(call[2])], "problems": bad}))
    ctx.tie("init/scaled initialisers", "correspondence", len(cases), len(distinct), sm,
            note="arguments actually passed to numpy.random.uniform/normal for shapes of rank 2-5 x gains x modes x nonlinearities x slopes, both dtypes, "
                 "requires_grad on/off, vs the documented formulas in exact arithmetic + math.sqrt (relative 1e-12); identity, shape, dtype, flags; "
                 "%d uniform fills checked to lie inside the bounds" % n_in_bounds)
    ctx.sample({"fn": cases[7][0], "shape": list(cases[7][1]), "kwargs": cases[7][2], "documented": list(doc_call(*cases[7]))})

    # ---- malformed stream: expected outcome is 'raises'
    mm = []
    for name, sh, kw in MALFORMED:
        r = run_real(impl, name, sh, kw, np.float32, False)
        if "raised" not in r:
            mm.append({"fn": name, "shape": list(sh), "kwargs": kw, "expected": "ValueError", "observed": "accepted"})
            witnesses.append(("nn.init." + name, {"shape": list(sh), "kwargs": kw}, "ValueError", "accepted"))
        if G is not None:
            try:
                gen.eval_scaled(G, name, list(sh), kw)
                tm.append({"fn": name, "shape": list(sh), "kwargs": kw, "translator_IR": "accepted", "implementation": "raised" if "raised" in r else "accepted"})
            except ValueError:
                pass
    ctx.tie("init/malformed", "correspondence", len(MALFORMED), len(MALFORMED), mm, exhaustive=True, note="rank < 2, unknown mode, unknown nonlinearity: ValueError")

    # ---- plain fillers
    pm, pcases = [], 0
    for sh in [(3,), (2, 3), (2, 1, 2), ()]:
        for dtype in (np.float32, np.float64):
            for req in (False, True):
                for name, kw, src in (("uniform_", {"a": -0.25, "b": 0.5}, ("uniform", -0.25, 0.5)), ("uniform_", {}, ("uniform", 0.0, 1.0)),
                                      ("normal_", {"mean": 1.5, "std": 0.25}, ("normal", 1.5, 0.25)), ("normal_", {}, ("normal", 0.0, 1.0)),
                                      ("constant_", {"val": 2.5}, None), ("ones_", {}, None), ("zeros_", {}, None)):
                    pcases += 1
                    r = run_real(impl, name, sh, kw, dtype, req)
                    bad = list(r.get("problems", ["raised"]))
                    if "raised" not in r:
                        if src is not None:
                            if len(r["calls"]) != 1 or not same_call(r["calls"][0], src) or tuple(r["calls"][0][3]) != tuple(sh):
                                bad.append("numpy call %r, expected %r" % ([c[:3] for c in r["calls"]], src))
                            elif src[0] == "uniform" and r["data"].size and not (r["data"].min() >= src[1] and r["data"].max() <= src[2]):
                                bad.append("values outside [a, b]")
                        else:
                            want = {"constant_": 2.5, "ones_": 1.0, "zeros_": 0.0}[name]
                            if r["calls"] or not np.array_equal(r["data"], np.full(sh, want, dtype=dtype)):
                                bad.append("contents are not the constant %s" % want)
                    if G is not None:
                        e = G["plain"][name]
                        if not (e["assigns"] == ["data"] and e["returns"] == "tensor") and not bad:
                            tm.append({"fn": name, "effect_summary": e, "observed": "only data replaced, same tensor returned"})
                    if bad:
                        pm.append({"fn": name, "shape": list(sh), "dtype": str(np.dtype(dtype)), "requires_grad": req, "problems": bad})
                        witnesses.append(("nn.init." + name, {"shape": list(sh), "kwargs": kw, "dtype": str(np.dtype(dtype)), "requires_grad": req},
                                          "same tensor, same shape/dtype/flags, documented contents", bad))
    ctx.tie("init/plain fillers", "correspondence", pcases, pcases, pm, exhaustive=True,
            note="uniform_/normal_/constant_/ones_/zeros_ on ranks 0-3, both dtypes, requires_grad on/off: numpy arguments, identity (`is`), shape, dtype, every other attribute")

    # ---- layers
    lm, lcases = [], 0
    specs = []
    for (i, o) in [(3, 4), (1, 1), (7, 2)]:
        for b in (True, False):
            specs.append(("Linear", (i, o), {"bias": b}, (o, i)))
    for (i, o, k) in [(3, 4, 3), (1, 2, 1), (2, 2, 5)]:
        for b in (True, False):
            specs.append(("Conv1d", (i, o, k), {"bias": b}, (o, i, k)))
    for (i, o, k) in [(3, 4, 3), (1, 2, (1, 2)), (2, 3, (3, 2))]:
        for b in (True, False):
            kk = (k, k) if isinstance(k, int) else k
            specs.append(("Conv2d", (i, o, k), {"bias": b}, (o, i) + tuple(kk)))
    for cname, args, kw, wshape in specs:
        lcases += 1
        with Recorder(np) as rec:
            layer = getattr(impl.nn, cname)(*args, **kw)
        fi, _ = doc_fans(wshape)
        bnd = 1.0 / math.sqrt(fi)
        want = [("uniform", -bnd, bnd, tuple(wshape))] + ([("uniform", -bnd, bnd, (wshape[0],))] if kw["bias"] else [])
        got = [(c[0], float(c[1]), float(c[2]), tuple(c[3])) for c in rec.calls]
        ok = len(got) == len(want) and all(same_call(g, w) and g[3] == w[3] for g, w in zip(got, want))
        if ok:
            w = layer.weight.data
            ok = w.shape == tuple(wshape) and float(np.abs(w).max()) <= bnd * (1 + 1e-6)
        if G is not None:
            ir = gen.eval_reset(G["layers"][cname], G, list(wshape), kw["bias"])
            irc = [("uniform" if c[1] == "uniform_" else "normal", float(c[2]), float(c[3])) for c in ir]
            if irc != [(g[0], g[1], g[2]) for g in got]:
                tm.append({"layer": cname, "args": list(map(str, args)), "implementation": got, "translator_IR": irc})
        if not ok:
            lm.append({"layer": cname, "args": list(map(str, args)), "bias": kw["bias"], "implementation": got, "documented": want})
            witnesses.append(("nn.%s.reset_parameters" % cname, {"args": list(map(str, args)), "bias": kw["bias"]}, [list(map(str, w)) for w in want], [list(map(str, g)) for g in got]))
    ctx.tie("init/layer reset", "correspondence", lcases, lcases, lm,
            note="Linear / Conv1d / Conv2d constructors: numpy.random.uniform calls for weight and bias vs U(-1/sqrt(fan_in), 1/sqrt(fan_in)) and the weight's shape")

    # ---- every initialiser / layer reset under every grad-mode context
    ncx, cmm, cwit = run_contexts(impl, ctx.quick)
    witnesses += cwit
    ctx.tie("init/grad-mode contexts", "correspondence", ncx, ncx, cmm, exhaustive=True,
            note="9 initialisers x {plain, no_grad, retain_grads, nested both ways, no_grad twice} x {Tensor, Parameter registered in a Module, non-leaf result} x "
                 "requires_grad on/off x float32/float64, and Linear/Conv1d/Conv2d.reset_parameters x contexts x bias x frozen: identity, shape, dtype, requires_grad, "
                 "_grad (object and contents), grad_fn, _children, name, every other attribute, module registration unchanged; global modes restored; only .data rebound")

    # ---- large tensors
    nlg, lgm, lgw = run_large(impl, ctx.seed)
    witnesses += lgw
    ctx.tie("init/large tensors", "correspondence", nlg, nlg, lgm,
            note="6 sampling initialisers x shapes of 65536k+r elements ((1,65537), (70,1000), (300,300), (96,32,5,5), (2,65538), (256,256); rank-1 65537 / 131077 for "
                 "uniform_/normal_) x float32/float64 on tensors pre-filled with NaN, and Linear(300,300) / Conv2d(32,96,5) defaults: number of samples requested from "
                 "numpy.random == number of elements, every call with the documented arguments, no NaN / poison value survives, dtype/shape/identity kept, uniform values "
                 "inside the bounds (deterministic); per block (tail block beyond the last multiple of 65536, first block, last 4096 elements): no value repeated in more than "
                 "1% of the block, sample mean / std within 6 sigma of the documented ones (sampled, seeded numpy generator)")

    # ---- translator self-check summary
    if G is not None:
        ctx.tie("translator/IR vs real functions", "translator-selfcheck", gcases + fcases + len(cases) + len(MALFORMED) + pcases + lcases,
                len(distinct) + lcases, tm, note="IR evaluated with Python floats must reproduce bit-identically the numbers the real functions pass to NumPy")

    # ---- sampled: distribution of the draws (outside the model)
    if not ctx.quick:
        sampled = []
        N = (100, 1000)
        for name, kw in (("xavier_uniform_", {"gain": 2.0}), ("xavier_normal_", {"gain": 2.0}), ("kaiming_uniform_", {"a": 0.2}), ("kaiming_normal_", {"mode": "fan_out", "nonlinearity": "relu"}),
                         ("uniform_", {"a": -1.0, "b": 3.0}), ("normal_", {"mean": 0.5, "std": 0.125})):
            np.random.seed(ctx.seed % (2 ** 31))
            t = sg.Tensor(np.zeros(N, dtype=np.float64))
            getattr(impl.nn.init, name)(t, **kw)
            x = t.data.astype(np.float64).reshape(-1)
            n = x.size
            if name in gen.SCALED:
                doc = doc_call(name, N, kw)
            else:
                doc = ("uniform", kw["a"], kw["b"]) if name == "uniform_" else ("normal", kw["mean"], kw["std"])
            if doc[0] == "uniform":
                mu, sd, kurt = (doc[1] + doc[2]) / 2, (doc[2] - doc[1]) / math.sqrt(12), 1.8
            else:
                mu, sd, kurt = doc[1], doc[2], 3.0
            se_mean = sd / math.sqrt(n)
            se_sd = sd * math.sqrt((kurt - 1) / (4 * n))
            zm, zs = (x.mean() - mu) / se_mean, (x.std() - sd) / se_sd
            ok = abs(zm) <= 6 and abs(zs) <= 6
            sampled.append({"fn": name, "kwargs": kw, "draws": n, "documented_mean": mu, "documented_std": sd, "sample_mean": float(x.mean()), "sample_std": float(x.std()),
                            "z_mean": float(zm), "z_std": float(zs), "within_6_sigma": bool(ok)})
            if not ok:
                witnesses.append(("nn.init." + name, {"shape": list(N), "kwargs": kw, "seed": ctx.seed}, {"mean": mu, "std": sd}, {"sample_mean": float(x.mean()), "sample_std": float(x.std())}))
                ctx.broken.append({"kind": "sampled", "what": "moments of " + name, "detail": json.dumps(sampled[-1])})
        ctx.extra["sampled_moments"] = {"level": "sampled (not proved): depends on NumPy's generators", "results": sampled}

    # ---- witnesses
    seen = set()
    for site, inp, exp, obs in witnesses:
        if site in seen:
            continue
        seen.add(site)
        ctx.witness(site, "arguments", inp, exp, obs)


FINISH = dict(rule="gain table / plain fillers / malformed stream / layers: every row of the stated grids; scaled initialisers: distinct (function, shape, kwargs) "
                   "combinations of the grid; non-trivial = all of them (each exercises a different scale)")


def replay(ctx, data):
    if data.get("kind") != "failing-input":
        print(json.dumps(data.get("broken"), indent=1)); return 1
    impl = _impl()
    np = impl.np
    site, inp = data["site"], data["input"]
    print("site:", site, "input:", json.dumps(inp))
    name = site.split(".")[-1]
    if "prefill" in inp:
        sg = impl.synapgrad
        sh, kw, fn = tuple(inp["shape"]), inp["kwargs"], inp["fn"]
        np.random.seed(inp["numpy_seed"])
        t = sg.Tensor(np.full(sh, np.nan, dtype=np.dtype(inp["dtype"])))
        junk = np.full(t.data.size, 1e30, dtype=t.data.dtype)
        del junk
        doc = ("uniform", kw["a"], kw["b"]) if fn == "uniform_" else (("normal", kw["mean"], kw["std"]) if fn == "normal_" else doc_call(fn, sh, kw))
        with Recorder(np) as rec:
            out = getattr(impl.nn.init, fn)(t, **kw)
        bad = judge_large(np, fn, doc, rec.calls, t, out, None, sh, np.dtype(inp["dtype"]))
        print("problems:", bad if bad else "none (every element drawn with the documented arguments)")
        return 1 if bad else 0
    if "context" in inp and "fn" in inp:
        bad = context_case(impl, inp["fn"], inp["kwargs"], inp["context"], inp["kind"], inp["requires_grad"], np.dtype(inp["dtype"]).type)
        print("changed although it must not:", bad if bad else "nothing (only .data was rebound)")
        return 1 if bad else 0
    if name in ("xavier_uniform_", "xavier_normal_", "kaiming_uniform_", "kaiming_normal_"):
        r = run_real(impl, name, tuple(inp["shape"]), inp.get("kwargs", {}), np.dtype(inp.get("dtype", "float32")).type, inp.get("requires_grad", False))
        try:
            doc = doc_call(name, tuple(inp["shape"]), inp.get("kwargs", {}))
        except ValueError:
            doc = "raises"
        got = r.get("raised") or [(c[0], float(c[1]), float(c[2])) for c in r["calls"]]
        print("documented:", doc, "observed:", got, "problems:", r.get("problems"))
        bad = ("raised" in r) != (doc == "raises") or ("raised" not in r and (len(r["calls"]) != 1 or not same_call(r["calls"][0], doc) or r["problems"]))
        return 1 if bad else 0
    print("expected:", data["expected"], "recorded observation:", data["observed"])
    return 1
