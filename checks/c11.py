"""C11 — forward and backward never modify operands, targets or the caller's gradient.

Obligations : coq/Props/C11.v  (analysis_sound: all heaps / overlapping arguments / all paths; kernels_pure, forward_wrappers_pure,
              closures_write_only_grad_buffers, seed_not_aliased, clone_detach_fresh, documented_mutators over the GENERATED IR)
Ties        : T  lib/py2coq/gen_effects.py -> Gen/GenEffects.v (fail-closed), re-proved on every run
              T  self-check: every kernel of cpu_ops / conv_tools observed while the catalogue runs: argument bytes before/after,
                 which arguments the result shares memory with  vs  the summaries computed in Coq (compared inside Coq)
              T  the NumPy view/copy classification table probed with np.shares_memory
              K  byte snapshots (tobytes + dtype + shape) of every operand, target and supplied upstream gradient before/after
                 forward and backward: every catalogued op x {float32,float64} x {separate, overlapping views of one buffer,
                 non-contiguous views, the same tensor twice}, layers/losses, random multi-op programs with several backward
                 calls through shared nodes, bystander tensors, clone/detach independence, bit-identical repetition
Oracle      : the snapshot comparisons themselves (they are direct statements of the property; no Coq model involved).
"""
import inspect, json, os, re
from lib import common
from lib.py2coq import main as py2coq


def _impl():
    from lib import impl
    return impl


# ------------------------------------------------------------------------------------------------ snapshots
def snap(a):
    return (str(a.dtype), tuple(a.shape), a.tobytes())


def snap_t(t):
    return (snap(t.data), None if t._grad is None else snap(t._grad))


def describe(s):
    return {"dtype": s[0], "shape": list(s[1]), "sha": common.hashlib.sha256(s[2]).hexdigest()[:16]}


def diff(np, before, after):
    """human readable difference of two array snapshots"""
    if before[0] != after[0] or before[1] != after[1]:
        return {"before": describe(before), "after": describe(after)}
    a = np.frombuffer(before[2], dtype=before[0]); b = np.frombuffer(after[2], dtype=after[0])
    idx = [int(i) for i in np.nonzero(a != b)[0][:4]]
    return {"changed_elements": idx, "before": [float(a[i]) for i in idx], "after": [float(b[i]) for i in idx]}


# ------------------------------------------------------------------------------------------------ operand construction
def base_values(rng, n, dtype, np):
    # values in (0.5, 0.9): inside every float domain of the catalogue (any / pos / prob / nonzero), pairwise distinct
    vals = sorted(rng.uniform(0.5, 0.9) for _ in range(n))
    rng.shuffle(vals)
    return np.array(vals, dtype=dtype)


def make_operands(impl, op, dtype, mode, rng):
    """numpy arrays for the operands of a catalogue entry.
    mode: 'separate' | 'overlap' (float operands are overlapping views of ONE buffer) | 'strided' (non-contiguous views)"""
    from lib import opcatalog
    np = impl.np
    sizes = []
    for shape, dom, _ in op.operands:
        n = 1
        for d in shape:
            n *= d
        sizes.append(n)
    arrs = []
    if mode == "separate":
        return [opcatalog.make_operand(impl, rng, s, dtype) for s in op.operands], None
    if mode == "zeros":
        # exact zeros, -0.0 and the boundary values of the operand's domain (0 for pos/any/nonzero, 0 and 1 for prob)
        arrs = []
        for spec in op.operands:
            a = opcatalog.make_operand(impl, rng, spec, dtype)
            if not spec[1].startswith("labels") and a.size:
                flat = a.reshape(-1)
                flat[0] = 0.0
                if flat.size > 1:
                    flat[1] = -0.0
                if flat.size > 2 and spec[1] == "prob":
                    flat[2] = 1.0
                if flat.size > 3:
                    flat[-1] = 0.0
            arrs.append(a)
        return arrs, None
    if mode == "overlap":
        tot = max(sizes) + 2 * len(sizes)
        base = base_values(rng, tot, dtype, np)
        for k, (spec, n) in enumerate(zip(op.operands, sizes)):
            if spec[1].startswith("labels"):
                arrs.append(opcatalog.make_operand(impl, rng, spec, dtype))
            else:
                arrs.append(base[2 * k: 2 * k + n].reshape(spec[0]))
        return arrs, base
    if mode == "strided":
        bases = []
        for spec, n in zip(op.operands, sizes):
            if spec[1].startswith("labels"):
                arrs.append(opcatalog.make_operand(impl, rng, spec, dtype)); continue
            shape = spec[0]
            if len(shape) >= 2:
                # a transposed view of a C-contiguous array: same shape, Fortran-like strides
                b = base_values(rng, n, dtype, np).reshape(tuple(reversed(shape)))
                arrs.append(b.transpose())
            else:
                b = base_values(rng, 2 * n + 1, dtype, np)
                arrs.append(b[1::2][:n].reshape(shape))
            bases.append(b)
        return arrs, bases
    raise ValueError(mode)


def upstream(impl, outs, dtype, rng):
    np, sg = impl.np, impl.synapgrad
    gs = []
    for o in outs:
        g = np.array([rng.choice([-2.0, -1.0, 0.5, 1.0, 3.0]) for _ in range(max(1, o.data.size))], dtype=dtype).reshape(o.shape)
        gs.append(sg.Tensor(g))
    return gs


def run_op_case(impl, op, dtype, mode, rng, same_twice=False):
    """one forward/backward of a catalogue op with snapshots.  Returns (problems, record) — problems = list of dicts."""
    np, sg = impl.np, impl.synapgrad
    impl.reset_modes()
    arrs, base = make_operands(impl, op, dtype, mode, rng)
    ts = [sg.Tensor(a, requires_grad=bool(spec[2])) for a, spec in zip(arrs, op.operands)]
    if same_twice:
        ts = [ts[0]] * len(ts)
        arrs = [arrs[0]] * len(arrs)
    bystander = sg.Tensor(np.arange(6, dtype=dtype).reshape(2, 3), requires_grad=True)
    bystander._grad = np.full((2, 3), 7.0, dtype=dtype)
    probs = []
    before = [snap(a) for a in arrs]
    full0 = [snap_full(t)[:4] for t in ts]
    before_base = None
    if base is not None:
        before_base = [snap(b) for b in (base if isinstance(base, list) else [base])]
    by0 = snap_t(bystander)
    with np.errstate(all="ignore"):
        out = op.call(ts)
    outs = list(out) if op.multi else [out]
    for i, (a, b0) in enumerate(zip(arrs, before)):
        if snap(a) != b0:
            probs.append({"phase": "forward", "what": "operand %d data changed" % i, "diff": diff(np, b0, snap(a))})
    res1 = [snap(o.data) for o in outs]
    if not outs[0].requires_grad:
        return probs, {"results": res1, "grads": None}
    gs = upstream(impl, outs, dtype, rng)
    g0 = [snap(g.data) for g in gs]
    res_before_bw = [snap(o.data) for o in outs]
    with np.errstate(all="ignore"):
        for o, g in zip(outs, gs):
            o.backward(g)
    for i, (a, b0) in enumerate(zip(arrs, before)):
        if snap(a) != b0:
            probs.append({"phase": "backward", "what": "operand %d data changed" % i, "diff": diff(np, b0, snap(a))})
    if before_base is not None:
        for b, b0 in zip(base if isinstance(base, list) else [base], before_base):
            if snap(b) != b0:
                probs.append({"phase": "backward", "what": "the buffer the operands are views of changed", "diff": diff(np, b0, snap(b))})
    for i, (g, s0) in enumerate(zip(gs, g0)):
        if snap(g.data) != s0:
            probs.append({"phase": "backward", "what": "the caller's upstream gradient %d changed" % i, "diff": diff(np, s0, snap(g.data))})
        if g._grad is not None:
            probs.append({"phase": "backward", "what": "the caller's upstream gradient tensor acquired a .grad"})
    for i, (o, s0) in enumerate(zip(outs, res_before_bw)):
        if snap(o.data) != s0:
            probs.append({"phase": "backward", "what": "result %d data changed during backward" % i, "diff": diff(np, s0, snap(o.data))})
    for i, (t, f0) in enumerate(zip(ts, full0)):
        if snap_full(t)[:4] != f0:
            probs.append({"phase": "backward", "what": "operand %d: the tensor's .data was rebound / reshaped (array object, shape, strides or dtype changed)" % i,
                          "diff": describe_full(f0, snap_full(t)[:4])})
    for o, g in zip(outs, gs):
        # the root's gradient buffer is the engine's own storage and holds exactly the seed
        if o._grad is not None:
            if np.shares_memory(o._grad, g.data):
                probs.append({"phase": "backward", "what": "root gradient buffer shares memory with the caller's gradient"})
            if len(outs) == 1 and not any(o is t for t in ts) and not np.array_equal(o._grad, g.data):
                probs.append({"phase": "backward", "what": "root gradient buffer was modified by its own backward closure (differs from the seed)"})
    if snap_t(bystander) != by0:
        probs.append({"phase": "backward", "what": "a tensor outside the graph changed (data or grad)"})
    for i, (t, spec) in enumerate(zip(ts, op.operands)):
        if not spec[2] and t._grad is not None and not same_twice:
            probs.append({"phase": "backward", "what": "non-differentiable operand %d acquired a gradient" % i})
    grads = [None if t._grad is None else snap(t._grad) for t in ts]
    return probs, {"results": res1, "grads": grads, "arrs": arrs, "gs": gs}


# ------------------------------------------------------------------------------------------------ kernel observation (T self-check)
class KernelSpy:
    """wraps every function of cpu_ops / conv_tools; records for each call whether array arguments changed and which
    arguments the result shares memory with"""

    def __init__(self, impl):
        self.impl = impl
        self.saved = []
        self.obs = {}        # qual -> {"calls": n, "shares": set(param index), "changed": [..]}

    def arrays_of(self, v):
        np = self.impl.np
        if isinstance(v, np.ndarray):
            return [v]
        if isinstance(v, (tuple, list)):
            r = []
            for x in v:
                r += self.arrays_of(x)
            return r
        return []

    def wrap(self, modkey, name, fn):
        spy = self
        np = self.impl.np
        sig = inspect.signature(fn)
        pnames = list(sig.parameters)

        def wrapped(*a, **k):
            try:
                ba = sig.bind(*a, **k)
            except TypeError:
                return fn(*a, **k)
            per = {}
            for pn, v in ba.arguments.items():
                arrs = spy.arrays_of(v)
                if arrs:
                    per[pnames.index(pn)] = (arrs, [snap(x) for x in arrs])
            res = fn(*a, **k)
            rec = spy.obs.setdefault(modkey + "." + name, {"calls": 0, "shares": set(), "changed": []})
            rec["calls"] += 1
            for pi, (arrs, snaps) in per.items():
                for x, s0 in zip(arrs, snaps):
                    if snap(x) != s0:
                        rec["changed"].append({"param": pnames[pi], "diff": diff(np, s0, snap(x))})
                for r in spy.arrays_of(res):
                    if any(np.shares_memory(r, x) for x in arrs):
                        rec["shares"].add(pi)
            return res
        wrapped.__wrapped__ = fn
        return wrapped

    def __enter__(self):
        impl = self.impl
        mods = {"cpu_ops": impl.cpu_ops, "conv_tools": impl.conv_tools}
        for key, mod in mods.items():
            for name, fn in list(vars(mod).items()):
                if inspect.isfunction(fn) and fn.__module__ in ("synapgrad.cpu_ops", "synapgrad.conv_tools"):
                    home = fn.__module__.split(".")[-1]
                    self.saved.append((mod, name, fn))
                    setattr(mod, name, self.wrap(home, name, fn))
        return self

    def __exit__(self, *a):
        for mod, name, fn in self.saved:
            setattr(mod, name, fn)


# ------------------------------------------------------------------------------------------------ NumPy table probes
def numpy_probes(np):
    a = np.arange(24, dtype=np.float64).reshape(2, 3, 4)
    v = np.arange(6, dtype=np.float64)
    m = np.arange(6, dtype=np.float64).reshape(2, 3)
    i2 = np.array([[0], [1]])
    P = {
        "zeros": lambda: (np.zeros((2, 3)), []), "ones": lambda: (np.ones(a.shape, dtype=a.dtype), [a]),
        "zeros_like": lambda: (np.zeros_like(a), [a]), "ones_like": lambda: (np.ones_like(a), [a]), "empty": lambda: (np.empty((2,)), []),
        "full": lambda: (np.full((2,), 1.0), []), "eye": lambda: (np.eye(3), []), "arange": lambda: (np.arange(3), []),
        "array": lambda: (np.array(a), [a]), "exp": lambda: (np.exp(a), [a]), "log": lambda: (np.log(a + 1), [a]), "sqrt": lambda: (np.sqrt(a), [a]),
        "tanh": lambda: (np.tanh(a), [a]), "abs": lambda: (np.abs(a), [a]), "maximum": lambda: (np.maximum(0, a), [a]),
        "minimum": lambda: (np.minimum(a, a), [a]), "where": lambda: (np.where(a > 3, a, a), [a]),
        "sum": lambda: (np.sum(a, axis=0, keepdims=True), [a]), "mean": lambda: (np.mean(a, axis=(), keepdims=True), [a]),
        "max": lambda: (np.max(a, axis=(), keepdims=True), [a]), "min": lambda: (np.min(a, axis=(), keepdims=True), [a]),
        "prod": lambda: (np.prod(a, axis=()), [a]), "var": lambda: (np.var(a, axis=0), [a]),
        "argmax": lambda: (np.argmax(a, axis=0), [a]), "argmin": lambda: (np.argmin(a, axis=0), [a]),
        "unravel_index": lambda: (np.unravel_index(np.array([1, 2]), (2, 3))[0], []),
        "concatenate": lambda: (np.concatenate([m], axis=0), [m]), "stack": lambda: (np.stack([m], axis=0), [m]),
        "tensordot": lambda: (np.tensordot(m, m.T, axes=1), [m]), "pad": lambda: (np.pad(m, ((0, 0), (0, 0))), [m]),
        "repeat": lambda: (np.repeat(v, 1), [v]), "tile": lambda: (np.tile(v, 1), [v]), "cumprod": lambda: (np.cumprod(v), [v]),
        "floor": lambda: (np.floor(v), [v]), "broadcast_shapes": lambda: (np.zeros(np.broadcast_shapes((2, 1), (3,))), []),
        "ndindex": lambda: (np.array(list(np.ndindex(2, 2))), []), "unique": lambda: (np.unique(v), [v]),
        "copy": lambda: (np.copy(a), [a]), "matmul": lambda: (np.matmul(m, m.T), [m]), "dot": lambda: (np.dot(m, m.T), [m]),
        "float32": lambda: (np.asarray(np.float32(1)), []), "float64": lambda: (np.asarray(np.float64(1)), []),
        "int32": lambda: (np.asarray(np.int32(1)), []), "int16": lambda: (np.asarray(np.int16(1)), []), "int64": lambda: (np.asarray(np.int64(1)), []),
        "argsort": lambda: (np.argsort(v), [v]), "cumsum": lambda: (np.cumsum(v), [v]), "power": lambda: (np.power(v, 1), [v]),
        "sign": lambda: (np.sign(v), [v]), "clip": lambda: (np.clip(v, 0, 9), [v]), "ceil": lambda: (np.ceil(v), [v]), "round": lambda: (np.round(v), [v]),
        "log1p": lambda: (np.log1p(v), [v]), "isnan": lambda: (np.isnan(v), [v]), "isinf": lambda: (np.isinf(v), [v]),
        "any": lambda: (np.asarray(np.any(v)), [v]), "all": lambda: (np.asarray(np.all(v)), [v]),
        "empty_like": lambda: (np.empty_like(v), [v]), "full_like": lambda: (np.full_like(v, 1), [v]),
        "array2string": lambda: (np.zeros(1), [a]), "issubdtype": lambda: (np.zeros(1), []),
        # may-view functions (no constraint; we record whether they do share)
        "reshape": lambda: (np.reshape(a, (6, 4)), [a]), "transpose": lambda: (np.transpose(a), [a]), "moveaxis": lambda: (np.moveaxis(a, 0, 2), [a]),
        "swapaxes": lambda: (np.swapaxes(a, 0, 1), [a]), "rollaxis": lambda: (np.rollaxis(a, 1), [a]), "expand_dims": lambda: (np.expand_dims(a, 0), [a]),
        "squeeze": lambda: (np.squeeze(a[None]), [a]), "broadcast_to": lambda: (np.broadcast_to(v, (2, 6)), [v]),
        "split": lambda: (np.split(v, [2])[1], [v]), "ascontiguousarray": lambda: (np.ascontiguousarray(a), [a]),
        "asarray": lambda: (np.asarray(a), [a]), "ravel": lambda: (np.ravel(a), [a]),
        "as_strided": lambda: (np.lib.stride_tricks.as_strided(v, shape=(2, 2), strides=(8, 8)), [v]),
        "sliding_window_view": lambda: (np.lib.stride_tricks.sliding_window_view(v, 2), [v]),
    }
    M = {
        "copy": lambda: (a.copy(), [a]), "astype": lambda: (a.astype(a.dtype), [a]), "sum": lambda: (a.sum(axis=(), keepdims=True), [a]),
        "max": lambda: (a.max(axis=(), keepdims=True), [a]), "min": lambda: (a.min(axis=(), keepdims=True), [a]),
        "mean": lambda: (a.mean(axis=(), keepdims=True), [a]), "var": lambda: (a.var(axis=0), [a]), "item": lambda: (np.asarray(v[:1].item()), [v]),
        "flatten": lambda: (a.flatten(), [a]), "tolist": lambda: (np.array(a.tolist()), [a]), "index": lambda: (np.zeros(1), []),
        "name": lambda: (np.zeros(1), []), "numel": lambda: (np.zeros(1), []), "has_grad": lambda: (np.zeros(1), []), "matches_shape": lambda: (np.zeros(1), []),
        "reshape": lambda: (a.reshape(6, 4), [a]), "transpose": lambda: (a.transpose(2, 0, 1), [a]), "squeeze": lambda: (a[None].squeeze(), [a]),
        "ravel": lambda: (a.ravel(), [a]), "swapaxes": lambda: (a.swapaxes(0, 1), [a]),
    }
    return P, M


def run_numpy_table(ctx, dump):
    from lib.py2coq import gen_effects as G
    np = _impl().np
    P, M = numpy_probes(np)
    mism, cases, sharing = [], 0, 0
    for kind, used, table, fresh, view in (("np", dump["used_np"], P, G.NP_FRESH, G.NP_VIEW), ("method", dump["used_methods"], M, G.M_FRESH, G.M_VIEW)):
        for name in used:
            if name in G.NP_WRITE_FIRST or name in G.M_WRITE or name in G.M_CONTAINER_ADD or name in G.M_CONTAINER_TAKE or name in ("grad_fn", "__enter__", "__exit__"):
                continue
            if name not in table:
                mism.append({"function": "%s.%s" % (kind, name), "error": "classified NumPy call used in the source has no probe"}); continue
            cases += 1
            try:
                res, args = table[name]()
            except Exception as ex:
                mism.append({"function": "%s.%s" % (kind, name), "error": "probe raised %r" % (ex,)}); continue
            sh = any(np.shares_memory(res, x) for x in args)
            if sh:
                sharing += 1
            if name in fresh and name not in view and sh:
                mism.append({"function": "%s.%s" % (kind, name), "classified": "Fresh", "observed": "result shares memory with an argument"})
    ctx.tie("NumPy view/copy classification table vs np.shares_memory", "translator-selfcheck", cases, sharing, mism, exhaustive=True,
            note="every NumPy function / ndarray method that the translator classified in the translated sources is probed: Fresh => the result never shares memory with an argument (identity-shaped arguments, the most view-prone case); non-trivial = probes whose result does share (the ViewOf class)")
    return mism


# ------------------------------------------------------------------------------------------------ extra programs
def extra_programs(impl):
    """operands that are views of one another / used twice, several backward calls through shared nodes"""
    sg, np, TF, NF = impl.synapgrad, impl.np, impl.TF, impl.NF
    P = []

    def prog(name):
        def deco(f):
            P.append((name, f)); return f
        return deco

    @prog("x * x.T (tensor views of one square buffer)")
    def p1(dt, rng, T):
        b = np.array([[1.5, -2.0, 0.5], [3.0, 1.0, -1.0], [2.0, 4.0, -0.5]], dtype=dt)
        x = T(b, True); xt = T(b.T, True)
        y = x * xt + TF.matmul(x, xt)
        return [y], [x, xt]

    @prog("same tensor as both operands of add / mul / matmul / mse_loss")
    def p2(dt, rng, T):
        x = T(np.array([[1.0, 2.0], [3.0, -4.0]], dtype=dt), True)
        return [TF.add(x, x), TF.mul(x, x), TF.matmul(x, x), NF.mse_loss(x, x)], [x]

    @prog("overlapping slices of one base array as operands")
    def p3(dt, rng, T):
        base = np.arange(1, 13, dtype=dt) / 4
        a = T(base[0:8].reshape(2, 4), True); b = T(base[4:12].reshape(2, 4), True); c = T(base[2:6], True)
        return [(a * b + c).exp().sum(dim=1), NF.relu(a - b), TF.concat([a, b], 0), TF.stack([a, b], 1)], [a, b, c]

    @prog("two graphs through one node: y.backward(g); (y*3).backward(h)  (stale root buffer)")
    def p4(dt, rng, T):
        x = T(np.array([1.0, -2.0, 3.0], dtype=dt), True)
        y = x * 2.0
        return [x, y, y * 3.0, (y + x).sum(), x * 5.0], [x]      # a leaf used as root, then graphs that accumulate into it

    @prog("view ops whose result shares memory with the operand, then arithmetic")
    def p5(dt, rng, T):
        x = T(np.arange(1, 25, dtype=dt).reshape(2, 3, 4) / 8, True)
        r = x.reshape((6, 4)); t = x.transpose(0, 2); m = x.movedim(0, 2); s = x[:, 1:, ::2]; u = x.unsqueeze(0).squeeze(0); f = x.flatten(1, -1)
        return [r * 2.0, t.exp(), m.sum(dim=0), s * s, u + 1.0, f.mean(), TF.unbind(x, 1)[1], x.unfold(2, 2, 1).sum(dim=-1)], [x]

    @prog("losses: targets and labels are never written")
    def p6(dt, rng, T):
        logits = T(np.array([[0.5, -1.0, 2.0], [1.5, 0.25, -0.75]], dtype=dt), True)
        labels = T(np.array([2, 0], dtype=np.int64), False)
        probs = T(np.array([[0.25, 0.5, 0.75], [0.5, 0.125, 0.875]], dtype=dt), True)
        tgt = T(np.array([[1.0, 0.0, 1.0], [0.0, 1.0, 0.5]], dtype=dt), False)
        lsm = NF.log_softmax(logits, 1)
        return [NF.cross_entropy(logits, labels).mean(), NF.nll_loss(lsm, labels).sum(), NF.binary_cross_entropy(probs, tgt).mean(),
                NF.binary_cross_entropy_with_logits(logits, tgt).sum(), NF.mse_loss(probs, tgt).mean(), NF.softmax(logits, 0).sum()], [logits, labels, probs, tgt]

    @prog("constants computed under no_grad() from another graph (leaf with grad None, retained intermediate) used in a tracked graph")
    def p8(dt, rng, T):
        p = T(np.array([1.0, 2.0, 3.0], dtype=dt), True)               # outside leaf, never differentiated: .grad stays None
        a = T(np.array([1.0, -2.0, 0.5], dtype=dt), True)              # outside graph with a retained intermediate
        h = a * 3.0
        h.retain_grad()
        h.sum().backward()
        with sg.no_grad():
            target = p * 2.0 + h.exp()
            c = h * 2.0
        q = T(np.array([4.0, 5.0, 6.0], dtype=dt), True)
        r = T(np.array([1.0, 1.0, 1.0], dtype=dt), True)
        d = h.detach() * p.detach()
        return [((q + (-target)) ** 2).sum(), (r * c).sum(), (q * d + r).sum()], [q, r, "outside", p, a, h]

    @prog("layers: conv / pool / batch-norm / linear / dropout on one input used twice")
    def p7(dt, rng, T):
        nn = impl.nn
        np.random.seed(5)
        x = T(np.arange(1, 2 * 2 * 6 * 6 + 1, dtype=dt).reshape(2, 2, 6, 6) / 50, True)
        conv = nn.Conv2d(2, 3, 3, padding=1); pool = nn.MaxPool2d(2); ap = nn.AvgPool2d(2); bn = nn.BatchNorm2d(3); fl = nn.Flatten()
        lin = nn.Linear(27, 4); dr = nn.Dropout(0.5)
        for m in (conv, bn, lin):
            for p in m.parameters():
                p.data = p.data.astype(dt)
        h = bn(conv(x))
        y1 = lin(fl(pool(h))); y2 = dr(fl(ap(h)))
        x3 = T(np.arange(1, 2 * 2 * 8 + 1, dtype=dt).reshape(2, 2, 8) / 10, True)
        c1 = nn.Conv1d(2, 2, 3, stride=1, padding=1, dilation=2)
        for p in c1.parameters():
            p.data = p.data.astype(dt)
        y3 = nn.AvgPool1d(2)(nn.MaxPool1d(2)(c1(x3)))
        return [y1, y2, y3, NF.fold(NF.unfold(x, 2, 1, 2, 0), (6, 6), 2, 1, 2, 0)], [x, x3] + conv.parameters() + bn.parameters() + lin.parameters() + c1.parameters()
    return P


def run_extra(ctx, impl, dtype, rng):
    sg, np = impl.synapgrad, impl.np
    probs_all, cases = [], 0

    def T(a, req):
        return sg.Tensor(a, requires_grad=req)
    for name, f in extra_programs(impl):
        for retain in (False, True):
            impl.reset_modes()
            impl.tensor_mod.retain_grads__ = retain
            try:
                roots, leaves = f(dtype, rng, T)
                outside = []
                if "outside" in leaves:
                    k_ = leaves.index("outside")
                    outside = leaves[k_ + 1:]; leaves = leaves[:k_] + outside
                out0 = [snap_t(t) for t in outside]
                bystander = T(np.ones((2, 2), dtype=dtype), True); bystander._grad = np.full((2, 2), 3.0, dtype=dtype)
                by0 = snap_t(bystander)
                data0 = [snap(t.data) for t in leaves]
                rdata0 = [snap(r.data) for r in roots]
                gs = upstream(impl, roots, dtype, rng)
                g0 = [snap(g.data) for g in gs]
                order = list(range(len(roots)))
                for k in order:
                    if not roots[k].requires_grad:
                        continue
                    roots[k].backward(gs[k])
                    cases += 1
                    bad = []
                    for i, (t, s0) in enumerate(zip(leaves, data0)):
                        if snap(t.data) != s0:
                            bad.append({"what": "data of leaf %d changed" % i, "diff": diff(np, s0, snap(t.data))})
                    for i, (g, s0) in enumerate(zip(gs, g0)):
                        if snap(g.data) != s0:
                            bad.append({"what": "caller's gradient of root %d changed (after backward of root %d)" % (i, k), "diff": diff(np, s0, snap(g.data))})
                    for i, (r, s0) in enumerate(zip(roots, rdata0)):
                        if snap(r.data) != s0:
                            bad.append({"what": "data of result %d changed" % i, "diff": diff(np, s0, snap(r.data))})
                    if snap_t(bystander) != by0:
                        bad.append({"what": "bystander tensor changed"})
                    for i, (t, s0) in enumerate(zip(outside, out0)):
                        s1 = snap_t(t)
                        if s1 != s0:
                            bad.append({"what": "tensor %d outside the differentiated graph (behind a no_grad constant) changed: grad %s -> %s"
                                                % (i, "None" if s0[1] is None else "bytes", "None" if s1[1] is None else ("other bytes" if s1[1] != s0[1] else "same")),
                                        "grad_after": None if t._grad is None else [float(v) for v in t._grad.reshape(-1)[:4]]})
                    for b in bad:
                        b.update({"program": name, "retain_grads": retain, "after_backward_of_root": k})
                    probs_all += bad
            except Exception as ex:
                probs_all.append({"program": name, "error": repr(ex)[:300]})
            finally:
                impl.reset_modes()
    return probs_all, cases


def clone_detach(ctx, impl, dtype):
    """clone()/detach() return storage independent of their source, whatever the source is: tracked, untracked, a frozen
    parameter, the result of a no_grad() computation, a view"""
    sg, np, nn = impl.synapgrad, impl.np, impl.nn
    bad, cases = [], 0

    def sources():
        base = np.arange(1, 13, dtype=dtype).reshape(3, 4)
        yield "tracked leaf", sg.Tensor(base.copy(), requires_grad=True)
        yield "tracked view", sg.Tensor(base.copy().T, requires_grad=True)
        yield "untracked tensor", sg.Tensor(base.copy(), requires_grad=False)
        yield "untracked view", sg.Tensor(base.copy().T[1:], requires_grad=False)
        p = nn.Parameter(sg.Tensor(base.copy(), requires_grad=True)); p.requires_grad = False
        yield "frozen parameter", p
        lin = nn.Linear(4, 3); lin.weight.data = lin.weight.data.astype(dtype); lin.freeze()
        yield "frozen layer weight", lin.weight
        t = sg.Tensor(base.copy(), requires_grad=True)
        with sg.no_grad():
            r = t * 2.0
        yield "result computed under no_grad", r
        yield "tracked non-leaf", sg.Tensor(base.copy(), requires_grad=True) * 2.0
        yield "0-d tensor", sg.Tensor(np.array(3.5, dtype=dtype), requires_grad=False)
    for how in ("clone", "detach"):
        for sname, x in sources():
            c = x.clone() if how == "clone" else x.detach()
            cases += 1
            tag = {"op": how, "source": sname}
            if np.shares_memory(c.data, x.data) or c.data is x.data:
                bad.append(dict(tag, what="result shares memory with its source"))
            s0 = snap(x.data)
            c.data += 100
            if snap(x.data) != s0:
                bad.append(dict(tag, what="in-place update of the copy changed the source"))
            s1 = snap(c.data)
            x.data *= 2                      # what an optimizer step / unfreeze + update does to the source
            if snap(c.data) != s1:
                bad.append(dict(tag, what="in-place update of the source changed the copy (snapshot taken with %s())" % how))
    # gradient flows back through clone without touching the seed
    x2 = sg.Tensor(np.arange(4, dtype=dtype), requires_grad=True)
    g = sg.Tensor(np.ones(4, dtype=dtype)); g0 = snap(g.data)
    x2.clone().backward(g)
    cases += 1
    if snap(g.data) != g0 or np.shares_memory(x2._grad, g.data):
        bad.append({"op": "clone", "what": "clone backward aliased / changed the seed"})
    return bad, cases


def snap_full(t):
    """everything observable about a tensor's storage: identity of the array object, shape, strides, dtype, bytes, gradient"""
    d = t.data
    return (id(d), tuple(d.shape), tuple(d.strides), str(d.dtype), d.tobytes(), None if t._grad is None else snap(t._grad))


def describe_full(s0, s1):
    names = ("array object", "shape", "strides", "dtype", "bytes", "grad")
    return {n: ([a, b] if n not in ("bytes", "grad", "array object") else "changed") for n, a, b in zip(names, s0, s1) if a != b}


def loss_modules(impl, dtype):
    """loss MODULES and functional forms on (N,1)-vs-(N,) / (N,)-vs-(N,) / (N,1)-vs-(N,1) pairs: whatever the call does
    (broadcasts, raises), the caller's prediction and target tensors keep array object, shape, strides, dtype and bytes"""
    sg, np, nn, NF = impl.synapgrad, impl.np, impl.nn, impl.NF
    bad, cases = [], 0
    forms = [("MSELoss", lambda red: nn.MSELoss(red), "any"), ("BCELoss", lambda red: nn.BCELoss(red), "prob"),
             ("BCEWithLogitsLoss", lambda red: nn.BCEWithLogitsLoss(red), "any"),
             ("F.mse_loss", lambda red: NF.mse_loss, "any"), ("F.binary_cross_entropy", lambda red: NF.binary_cross_entropy, "prob"),
             ("F.binary_cross_entropy_with_logits", lambda red: NF.binary_cross_entropy_with_logits, "any")]
    N = 4
    for name, mk, dom in forms:
        for red in (("mean", "sum", "none") if not name.startswith("F.") else ("-",)):
            for ps, ts_ in (((N, 1), (N,)), ((N,), (N,)), ((N, 1), (N, 1)), ((N,), (N, 1)), ((2, N, 1), (2, N))):
                for treq in (False, True):
                    impl.reset_modes()
                    pv = np.linspace(0.2, 0.8, int(np.prod(ps)), dtype=dtype).reshape(ps) if dom == "prob" else np.linspace(-1, 1, int(np.prod(ps)), dtype=dtype).reshape(ps)
                    tv = (np.arange(int(np.prod(ts_))) % 2).astype(dtype).reshape(ts_)
                    y_pred = sg.Tensor(pv, requires_grad=True); y_true = sg.Tensor(tv, requires_grad=treq)
                    p0, t0 = snap_full(y_pred), snap_full(y_true)
                    cases += 1
                    phase = "forward"
                    try:
                        with np.errstate(all="ignore"):
                            out = mk(red)(y_pred, y_true)
                            if snap_full(y_pred)[:5] != p0[:5] or snap_full(y_true)[:5] != t0[:5]:
                                raise AssertionError("changed")
                            phase = "backward"
                            out.backward(sg.Tensor(np.ones(out.shape, dtype=dtype)))
                    except AssertionError:
                        pass
                    except Exception:
                        pass                    # shape mismatch rejected: fine, but the arguments must be untouched all the same
                    for who, tt, s0 in (("prediction", y_pred, p0), ("target", y_true, t0)):
                        s1 = snap_full(tt)
                        if s1[:5] != s0[:5]:
                            bad.append({"op": name, "reduction": red, "pred_shape": list(ps), "target_shape": list(ts_), "target_requires_grad": treq,
                                        "phase": phase, "what": "the caller's %s tensor changed (%s)" % (who, ", ".join(describe_full(s0[:5], s1[:5]))),
                                        "diff": describe_full(s0[:5], s1[:5])})
    impl.reset_modes()
    return bad, cases


def flag_flips(impl, dtype, rng):
    """requires_grad flags changed BETWEEN forward and backward (freeze / manual flips) on tensors that already hold a gradient:
    a tensor that does not require grad when backward runs is outside the graph being differentiated - its gradient bytes and
    its data must not change.  (Every closure of the unchanged code tests `<t>.requires_grad` at backward time - theorem
    frozen_tensors_not_written - and the walk of backward reads the live flag too.)"""
    from lib import opcatalog
    sg, np, nn = impl.synapgrad, impl.np, impl.nn
    bad, cases = [], 0
    for op in opcatalog.catalog(impl):
        diff_idx = [i for i, spec in enumerate(op.operands) if spec[2]]
        if not diff_idx:
            continue
        for frozen_set in [[j] for j in diff_idx] + ([diff_idx] if len(diff_idx) > 1 else []):
            impl.reset_modes()
            arrs = [opcatalog.make_operand(impl, rng, spec, dtype) for spec in op.operands]
            ts = [sg.Tensor(a, requires_grad=bool(spec[2])) for a, spec in zip(arrs, op.operands)]
            for t in ts:
                if t.requires_grad:
                    t._grad = np.full(t.shape, 7.0, dtype=dtype)         # gradients already present
            try:
                out = op.call(ts)
                outs = list(out) if op.multi else [out]
                for j in frozen_set:
                    ts[j].requires_grad = False                          # e.g. layer.freeze() after the forward pass
                s0 = {j: snap_full(ts[j]) for j in frozen_set}
                gs = upstream(impl, outs, dtype, rng)
                with np.errstate(all="ignore"):
                    for o, g in zip(outs, gs):
                        if o.requires_grad:
                            o.backward(g)
                cases += 1
                for j in frozen_set:
                    s1 = snap_full(ts[j])
                    if s1 != s0[j]:
                        bad.append({"op": op.name, "frozen_operands": frozen_set, "operand": j, "phase": "backward",
                                    "what": "operand %d did not require grad when backward ran, yet its %s changed" % (j, "gradient" if s1[5] != s0[j][5] else "data"),
                                    "grad_before": [7.0], "grad_after": None if ts[j]._grad is None else [float(v) for v in ts[j]._grad.reshape(-1)[:4]]})
            except Exception as ex:
                bad.append({"op": op.name, "frozen_operands": frozen_set, "what": "raised %r" % (ex,)})
    # module form: forward through layers, freeze(), backward towards the input
    for lname, mk, xshape in (("Linear", lambda: nn.Linear(3, 2), (4, 3)), ("Conv1d", lambda: nn.Conv1d(2, 2, 2), (2, 2, 5)),
                              ("Conv2d", lambda: nn.Conv2d(1, 2, 2), (2, 1, 4, 4)), ("BatchNorm1d", lambda: nn.BatchNorm1d(3), (4, 3)),
                              ("Sequential(Linear,ReLU,Linear)", lambda: nn.Sequential(nn.Linear(3, 4), nn.ReLU(), nn.Linear(4, 2)), (4, 3))):
        impl.reset_modes()
        np.random.seed(11)
        layer = mk()
        for p in layer.parameters():
            p.data = p.data.astype(dtype); p._grad = np.full(p.shape, 7.0, dtype=dtype)
        x = sg.Tensor(np.linspace(-1, 1, int(np.prod(xshape)), dtype=dtype).reshape(xshape), requires_grad=True)
        out = layer(x)
        layer.freeze()
        s0 = [snap_full(p) for p in layer.parameters()]
        out.backward(sg.Tensor(np.ones(out.shape, dtype=dtype)))
        cases += 1
        for i, (p, a) in enumerate(zip(layer.parameters(), s0)):
            if snap_full(p) != a:
                bad.append({"op": "nn." + lname, "what": "parameter %d was frozen (layer.freeze()) after the forward pass, yet backward changed its gradient" % i,
                            "phase": "backward", "grad_after": [float(v) for v in p._grad.reshape(-1)[:4]], "grad_before": [7.0]})
        if x._grad is None or not np.any(x._grad != 0):
            bad.append({"op": "nn." + lname, "what": "the input (still requiring grad) received no gradient"})
    impl.reset_modes()
    return bad, cases


def optimizer_effects(impl, dtype):
    """the documented effect of step() is on p.data only: gradient buffers, frozen parameters and bystanders keep their bytes"""
    sg, np, optim = impl.synapgrad, impl.np, impl.optim
    bad, cases = [], 0
    mk = {"SGD": lambda ps: optim.SGD(ps, lr=0.1, momentum=0.9, weight_decay=0.01),
          "SGD-nesterov": lambda ps: optim.SGD(ps, lr=0.1, momentum=0.9, nesterov=True, weight_decay=0.01),
          "Adam": lambda ps: optim.Adam(ps, lr=0.1, weight_decay=0.01), "AdamW": lambda ps: optim.AdamW(ps, lr=0.1, weight_decay=0.01)}
    for name, ctor in mk.items():
        impl.reset_modes()
        ps = [sg.Tensor(np.arange(1, 7, dtype=dtype).reshape(2, 3) / 4, requires_grad=True), sg.Tensor(np.array([0.5, -1.5], dtype=dtype), requires_grad=True)]
        frozen = sg.Tensor(np.array([2.0, 3.0], dtype=dtype), requires_grad=False)
        by = sg.Tensor(np.ones(2, dtype=dtype), requires_grad=True); by._grad = np.ones(2, dtype=dtype)
        opt = ctor(ps + [frozen])
        for it in range(3):
            for p in ps:
                p._grad = (np.arange(p.data.size, dtype=dtype).reshape(p.shape) - 1.5) * (it + 1)
            g0 = [snap(p._grad) for p in ps]; f0 = snap_t(frozen); b0 = snap_t(by); d0 = [snap(p.data) for p in ps]
            opt.step()
            cases += 1
            if [snap(p._grad) for p in ps] != g0:
                bad.append({"op": "optimizer " + name, "what": "step() changed a gradient buffer", "step": it})
            if snap_t(frozen) != f0:
                bad.append({"op": "optimizer " + name, "what": "step() changed a frozen parameter", "step": it})
            if snap_t(by) != b0:
                bad.append({"op": "optimizer " + name, "what": "step() changed a bystander tensor", "step": it})
            if [snap(p.data) for p in ps] == d0:
                bad.append({"op": "optimizer " + name, "what": "step() did not update the parameters (documented effect missing)", "step": it})
    impl.reset_modes()
    return bad, cases


# ------------------------------------------------------------------------------------------------ the check
HEADER = "From Coq Require Import List Bool Arith String.\nImport ListNotations.\nOpen Scope string_scope.\nFrom SG Require Import Base.Cmp IR.Effects Gen.GenEffects.\n"


def parse_natlist(out):
    flat = " ".join(out.split())
    res = []
    for m in re.finditer(r"= \[(.*?)\]\s*:\s*list nat", flat):
        body = m.group(1).replace("%nat", "").strip()
        res.append([int(x) for x in body.split(";") if x.strip()])
    return res


def run(ctx):
    impl = _impl()
    np = impl.np
    rng = ctx.rng
    # ---- T: regenerate + build ----------------------------------------------------------------------------
    res = py2coq.run(["effects"])
    dump = None
    if res["effects"] is not None:
        ctx.broken.append({"kind": "translator", "what": "gen_effects fail-closed: %r" % (res["effects"],),
                           "detail": "a construct of cpu_ops / conv_tools / functional / nn.functional / tensor.py is not classified by the effect translator"})
        ctx.log("TRANSLATOR FAILED", repr(res["effects"])[:300])
    else:
        dump = json.load(open(os.path.join(common.ROOT, "work", "effects.json")))
    ok_build, fails = ctx.build_props(extra_targets=["IR/Effects.vo", "Proofs/EffectsProofs.vo", "Gen/GenEffects.vo", "Proofs/C11Proofs.vo"])
    failing_fns = []
    if dump is not None:
        ok, out = ctx.coq_eval("failing", HEADER + "Eval vm_compute in (failing program).\n" +
                               "Eval vm_compute in (filter (fun r => match row_category r with Some _ => false | None => true end) mutator_census).\n" +
                               "Eval vm_compute in (documented_all_present mutator_census).\n")
        flat = " ".join(out.split())
        blocks = re.findall(r"= (.*?) : (list string|list census_row|bool)(?= =|$)", flat)
        if ok and len(blocks) == 3:
            failing_fns = [x.strip().strip('"') for x in blocks[0][0].strip("[]").split(";") if x.strip()]
            ctx.extra["functions_failing_the_analysis"] = failing_fns
            if blocks[1][0].strip() != "[]":
                ctx.extra["undocumented_mutators"] = blocks[1][0][:1500]
                ctx.log("UNDOCUMENTED in-place effects:", blocks[1][0][:400])
            if blocks[2][0].strip() != "true":
                ctx.log("a documented mutator no longer occurs in the source")
        else:
            ctx.log("diagnostic evaluation failed", out[-300:])
        if failing_fns:
            ctx.log("functions failing the effect analysis:", failing_fns)
        ctx.sample({"ir_functions": len(dump["functions"]), "census_rows": len(dump["census"]),
                    "example": {k: dump["functions"][12][k] for k in ("qual", "body")}})

    # ---- T self-check 1: NumPy table ---------------------------------------------------------------------------
    if dump is not None:
        run_numpy_table(ctx, dump)

    # ---- K: snapshots over the catalogue, with the kernel spy running (T self-check 2) ------------------------------
    from lib import opcatalog
    ops = opcatalog.catalog(impl)
    dtypes = (np.float32, np.float64)
    modes = ("separate", "overlap", "strided", "zeros")
    problems, cases, distinct = [], 0, set()
    repeat_bad = []
    spy = KernelSpy(impl)
    with spy:
        for op in ops:
            for dt in dtypes:
                for mode in modes:
                    variants = [False]
                    floats = [s for s in op.operands if not s[1].startswith("labels")]
                    if mode == "separate" and len(op.operands) == 2 and len(floats) == 2 and op.operands[0][0] == op.operands[1][0] and op.name not in ("div",):
                        variants.append(True)
                    for same in variants:
                        cases += 1
                        distinct.add((op.name, mode, same))
                        st = rng.getstate()
                        try:
                            probs, rec = run_op_case(impl, op, dt, mode, rng, same_twice=same)
                            # repetition on unchanged operands: bit-identical results and gradients
                            rng.setstate(st)
                            probs2, rec2 = run_op_case(impl, op, dt, mode, rng, same_twice=same)
                            if rec["results"] != rec2["results"] or rec["grads"] != rec2["grads"]:
                                repeat_bad.append({"op": op.name, "dtype": str(np.dtype(dt)), "mode": mode})
                        except Exception as ex:
                            # boundary values may legitimately be rejected by the forward; anything else must run
                            probs = [] if mode == "zeros" else [{"phase": "run", "what": "raised %r" % (ex,)}]
                        for p in probs:
                            p.update({"op": op.name, "dtype": str(np.dtype(dt)), "operands": mode, "same_tensor_twice": same})
                            problems.append(p)
        for dt in dtypes:
            pe, ce = run_extra(ctx, impl, dt, rng)
            for p in pe:
                p["dtype"] = str(np.dtype(dt))
            problems += pe; cases += ce
            distinct |= {("extra", n, str(dt)) for n, _ in extra_programs(impl)}
            for fn_ in (clone_detach, optimizer_effects, loss_modules, flag_flips):
                bad, cc = fn_(ctx, impl, dt) if fn_ is clone_detach else (fn_(impl, dt, rng) if fn_ is flag_flips else fn_(impl, dt))
                for p in bad:
                    p["dtype"] = str(np.dtype(dt))
                problems += bad; cases += cc
        # the im2col / col2im variants are not reached by the public ops: call them directly under the spy
        ct = impl.conv_tools
        for dt in dtypes:
            a = (np.arange(1, 2 * 2 * 4 * 4 + 1, dtype=dt).reshape(2, 2, 4, 4) / 7).transpose(0, 1, 3, 2)
            for f_im, f_col in ((ct.im2col, ct.col2im), (ct.im2col_v2, ct.col2im_v2), (ct.im2col_fast, ct.col2im_fast)):
                for as_unfold in (False, True):
                    a0 = snap(a)
                    cols = f_im(a, (2, 2), 1, 1, 1, 0, as_unfold=as_unfold) if f_im is not ct.im2col else f_im(a, (2, 2), 1, 1, 1, 0, None, False, as_unfold)
                    c0 = snap(cols)
                    back = f_col(cols, a.shape, (2, 2), 1, 1, 1)
                    cases += 1
                    if snap(a) != a0 or snap(cols) != c0:
                        problems.append({"op": f_im.__name__ + "/" + f_col.__name__, "what": "argument changed", "dtype": str(np.dtype(dt))})
        # random multi-op programs
        nprog = 60 if ctx.quick else 600
        pr, pc = random_programs(impl, rng, nprog)
        problems += pr; cases += pc
    impl.reset_modes()
    for p in repeat_bad:
        problems.append({"what": "repeating the operation on unchanged operands gave different bytes", **p})
    ctx.tie("byte snapshots of operands / targets / upstream gradients / bystanders (forward, backward, repetition)", "correspondence",
            cases, len(distinct) + (60 if ctx.quick else 600), problems,
            note="every catalogued op x {f32,f64} x {separate, overlapping views of one buffer, non-contiguous views, same tensor twice}; "
                 "extra programs with views of one another, shared nodes and several backward calls; clone/detach; random programs; each case run twice")
    problems.sort(key=lambda p: 0 if "changed" in str(p.get("what")) else 1)      # byte changes first
    for p in problems[:5]:
        site = p.get("op") or p.get("program") or "program"
        ctx.witness(str(site), "operand-or-gradient-mutated", {k: v for k, v in p.items() if k not in ("diff",)},
                    "bytes of every operand, target, caller gradient and bystander are unchanged; repetition is bit-identical",
                    {"what": p.get("what"), "diff": p.get("diff"), "error": p.get("error")})

    # ---- T self-check 2: observed kernel behaviour vs the summaries computed in Coq ------------------------------
    if dump is not None:
        quals = {f["qual"]: f for f in dump["functions"]}
        rows, mism = [], []
        observed = 0
        for q, rec in sorted(spy.obs.items()):
            if q not in quals:
                mism.append({"kernel": q, "error": "executed kernel has no IR"}); continue
            observed += 1
            if rec["changed"]:
                mism.append({"kernel": q, "observed": "an array argument was modified in place", "detail": rec["changed"][:2]})
                ctx.witness(q, "kernel-writes-argument", {"kernel": q, "calls": rec["calls"]}, "kernel leaves its array arguments unchanged", rec["changed"][:2])
            rows.append((q, sorted(rec["shares"])))
        never = [q for q, f in quals.items() if f["kind"] == "kernel" and q not in spy.obs]
        txt = HEADER + """
Definition summ_of (n : string) : list nat :=
  match find_fun program n with Some (fi, _) => sget (summaries program) fi | None => [] end.
Definition cases : list (string * list nat) := [%s].
Eval vm_compute in (mismatches summ_of (fun s obs => subset obs s) cases).
""" % ";\n ".join('("%s", [%s])' % (q, "; ".join(str(i) for i in sh)) for q, sh in rows)
        ok, out = ctx.coq_eval("kernels", txt)
        lists = parse_natlist(out)
        if not ok or len(lists) != 1:
            mism.append({"error": out[-400:]})
        else:
            for i in lists[0]:
                mism.append({"kernel": rows[i][0], "observed_result_shares_memory_with_params": rows[i][1],
                             "note": "the IR summary says the result cannot share storage with these parameters"})
        ctx.tie("kernel IR summaries vs observed sharing / purity (all kernels executed by the catalogue)", "translator-selfcheck",
                sum(r["calls"] for r in spy.obs.values()), observed, mism, exhaustive=False,
                note="%d of %d translated kernels executed (never executed, covered statically only: %s); comparison `observed sharing subset of summary` done in Coq"
                     % (observed, sum(1 for f in quals.values() if f["kind"] == "kernel"), ", ".join(n.split(".")[-1] for n in never)))
        ctx.sample({"kernel_observation": {q: sorted(r["shares"]) for q, r in list(sorted(spy.obs.items()))[:6]}})

    ctx.trusted.append("NumPy view/copy classification table of lib/py2coq/gen_effects.py (which calls allocate, which may return views); probed with np.shares_memory on every run")
    ctx.trusted.append("type annotations int/float/bool of parameters (an augmented assignment to such a name is a rebinding, not an array write)")
    ctx.assumptions.append("user code does not itself write into arrays it handed to the library while the library runs; the `.grad` setter stores the caller's array by design (documented assignment)")
    ctx.extra["oracle"] = "byte snapshots before/after; np.shares_memory; bit-identical repetition"


def random_programs(impl, rng, n):
    """random DAG programs over shared leaves with several backward calls; all leaves, seeds and bystanders are snapshotted"""
    sg, np, TF, NF = impl.synapgrad, impl.np, impl.TF, impl.NF
    un = [lambda t: t.exp(), lambda t: NF.tanh(t), lambda t: NF.relu(t), lambda t: t * 2.0, lambda t: -t, lambda t: t ** 2, lambda t: NF.sigmoid(t),
          lambda t: t.transpose(0, 1).transpose(0, 1), lambda t: t.reshape((-1,)).reshape(t.shape), lambda t: t.clone(), lambda t: t + 1.0,
          lambda t: t[:, :], lambda t: NF.softmax(t, 1), lambda t: t / 2.0, lambda t: NF.log_softmax(t, 0)]
    bi = [lambda a, b: a + b, lambda a, b: a * b, lambda a, b: a - b, lambda a, b: TF.matmul(a, b.transpose(0, 1)).sum() * a, lambda a, b: NF.mse_loss(a, b),
          lambda a, b: TF.stack([a, b], 0).sum(dim=0), lambda a, b: TF.concat([a, b], 1)[:, :a.shape[1]]]
    problems, cases = [], 0
    for k in range(n):
        dt = rng.choice([np.float32, np.float64])
        impl.reset_modes()
        impl.tensor_mod.retain_grads__ = rng.random() < 0.3
        seedstate = rng.getstate()
        try:
            base = np.array([rng.uniform(-1, 1) for _ in range(16)], dtype=dt)
            leaves = []
            for j in range(rng.randint(1, 3)):
                how = rng.randrange(3)
                if how == 0:
                    arr = np.array([rng.uniform(-1, 1) for _ in range(6)], dtype=dt).reshape(2, 3)
                elif how == 1:
                    off = rng.randrange(0, 8)
                    arr = base[off:off + 6].reshape(2, 3)          # overlapping views of one buffer
                else:
                    arr = base[:6].reshape(3, 2).T
                leaves.append(sg.Tensor(arr, requires_grad=True))
            nodes = list(leaves)
            desc = []
            # tensors of ANOTHER graph, reached only through constants computed under no_grad()
            outside = []
            if rng.random() < 0.6:
                o1 = sg.Tensor(np.array([rng.uniform(-1, 1) for _ in range(6)], dtype=dt).reshape(2, 3), requires_grad=True)
                o2 = sg.Tensor(np.array([rng.uniform(-1, 1) for _ in range(6)], dtype=dt).reshape(2, 3), requires_grad=True)
                mid = un[rng.randrange(len(un))](o2)
                mid.retain_grad()
                mid.sum().backward()
                outside = [o1, o2, mid]
                with sg.no_grad():
                    const = bi[rng.randrange(3)](un[rng.randrange(len(un))](o1), mid)
                nodes.append(const); desc.append(("no_grad-const",))
                if const.requires_grad:
                    raise AssertionError("value computed under no_grad requires grad")
            out0 = [snap_t(t) for t in outside]
            for s in range(rng.randint(1, 6)):
                if rng.random() < 0.5:
                    i = rng.randrange(len(nodes)); f = rng.randrange(len(un))
                    nodes.append(un[f](nodes[i])); desc.append(("un", f, i))
                else:
                    i, j = rng.randrange(len(nodes)), rng.randrange(len(nodes)); f = rng.randrange(len(bi))
                    nodes.append(bi[f](nodes[i], nodes[j])); desc.append(("bi", f, i, j))
            bystander = sg.Tensor(np.ones(3, dtype=dt), requires_grad=True); bystander._grad = np.ones(3, dtype=dt)
            by0 = snap_t(bystander); d0 = [snap(t.data) for t in leaves]; b0 = snap(base)
            cand = [t for t in nodes[len(leaves):] if t.requires_grad]
            roots = [rng.choice(cand) for _ in range(rng.randint(1, 3))] if cand else []
            seeds = []
            for r in roots:
                g = sg.Tensor(np.array([rng.choice([1.0, -1.0, 0.5, 2.0]) for _ in range(max(1, r.data.size))], dtype=rng.choice([np.float32, np.float64])).reshape(r.shape))
                seeds.append((g, snap(g.data)))
                r.backward(g)
                cases += 1
                bad = None
                if [snap(t.data) for t in leaves] != d0 or snap(base) != b0:
                    bad = "leaf data changed"
                elif any(snap(g2.data) != s2 for g2, s2 in seeds):
                    bad = "a caller's gradient changed"
                elif snap_t(bystander) != by0:
                    bad = "bystander changed"
                elif [snap_t(t) for t in outside] != out0:
                    j = [i for i, t in enumerate(outside) if snap_t(t) != out0[i]][0]
                    bad = "tensor outside the differentiated graph (behind a no_grad constant) changed: %s grad %s -> %s" % (
                        ["leaf", "leaf", "retained intermediate"][j], "None" if out0[j][1] is None else "bytes", "None" if outside[j]._grad is None else "other bytes")
                elif any(r2._grad is not None and any(np.shares_memory(r2._grad, g2.data) for g2, _ in seeds) for r2 in nodes):
                    bad = "a gradient buffer shares memory with a caller's gradient"
                if bad:
                    problems.append({"program": "random#%d" % k, "what": bad, "dtype": str(np.dtype(dt)), "ops": desc, "nleaves": len(leaves)})
                    break
        except Exception as ex:
            problems.append({"program": "random#%d" % k, "error": repr(ex)[:300]})
        finally:
            impl.reset_modes()
    return problems, cases


FINISH = dict(rule="catalogue: every op x 2 dtypes x 3 operand layouts (+ same tensor twice where shapes allow), each run twice; distinct non-trivial = distinct "
                   "(op, layout) pairs + extra programs + random programs; kernel self-check: kernels actually executed")


def replay(ctx, data):
    """Re-run a stored witness on the implementation."""
    if data.get("kind") != "failing-input":
        print(json.dumps(data.get("broken"), indent=1)); return 1
    impl = _impl()
    np = impl.np
    inp = data["input"]
    from lib import opcatalog
    import random
    if "op" in inp and "operands" in inp:
        op = [o for o in opcatalog.catalog(impl) if o.name == inp["op"]][0]
        dt = np.float32 if inp["dtype"] == "float32" else np.float64
        for seed in range(20):
            probs, _ = run_op_case(impl, op, dt, inp["operands"], random.Random(seed), same_twice=inp.get("same_tensor_twice", False))
            if probs:
                print("REPRODUCED", json.dumps(probs[0], default=str)[:600]); return 1
        print("not reproduced"); return 0
    for dt in (np.float32, np.float64):
        bad = clone_detach(ctx, impl, dt)[0] + optimizer_effects(impl, dt)[0] + loss_modules(impl, dt)[0] + flag_flips(impl, dt, random.Random(3))[0]
        if bad:
            print("REPRODUCED", json.dumps(bad[0], default=str)[:600]); return 1
        pe, _ = run_extra(ctx, impl, dt, random.Random(1))
        if pe:
            print("REPRODUCED", json.dumps(pe[0], default=str)[:600]); return 1
    pr, _ = random_programs(impl, random.Random(ctx.seed), 60)
    if pr:
        print("REPRODUCED", json.dumps(pr[0], default=str)[:600]); return 1
    print("not reproduced"); return 0
