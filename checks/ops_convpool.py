"""Conv / pool / unfold / fold parts of properties C02 (backward = exact VJP) and C14 (fused = composition).

`run_part(ctx)` is called by checks/c02.py and checks/c14.py (dispatch on ctx.pid); `run_part_c02(ctx)` / `run_part_c14(ctx)` directly.

C02 part   obligations: coq/Props/C02_convpool.v
           tie (K)   : x / weight / bias gradients of conv1d/conv2d, input gradients of max/avg pools, unfold, fold through the functional
                       wrappers and Tensor.backward with distinct integer upstream gradients, compared exactly inside Coq with the backward
                       kernels of NumPy/ConvPool.v on the geometry grid (ties in max pooling included: first maximum)
           oracle    : torch autograd on every case; float64 central differences of the loop spec on flagged cases and a sample
                       (a witness needs both to disagree with the implementation)
C14 part   obligations: coq/Props/C14_convpool.v
           tie (K)   : the composition computed by the implementation (w.reshape(Co,-1) @ F.unfold(x) + b; unfold(pad -inf / 0) -> max / mean)
                       vs the model's composition, and fused vs model
           oracle    : the identity itself on the implementation: fused == composition, values and all gradients, exactly
"""
import json
from lib import common
from lib.common import cz, clist
from checks import convpool_common as cc

OPS2 = ["conv2d", "max_pool2d", "avg_pool2d", "unfold", "fold"]
OPS1 = ["conv1d", "max_pool1d", "avg_pool1d"]


def _impl():
    from lib import impl
    return impl


def not_ok(r, expected):
    """verdict for a call that did not return: a Python exception on a valid case, or an interpreter crash"""
    if r[0] == "crash":
        return {"expected": cc.CRASH_EXPECTED, "observed": r[1], "note": r[1]}
    return {"expected": expected, "observed": "raises " + str(r[1]), "note": "%s: raises %s" % (expected, r[1])}


def fd_eps(op):
    return 0.25 if op.startswith("max") else 1.0


# ------------------------------------------------------------------------------------------------- C02
def backward_cases(ctx, n2=None):
    rng = ctx.rng
    cases = []
    g2 = cc.geometry_2d(rng, ctx.quick)
    g1 = cc.geometry_1d(rng, ctx.quick)
    k = 0
    for gi, g in enumerate(g2):
        for op in OPS2:
            k += 1
            data = "distinct"
            if op.startswith("max") and gi % 2 == 0:
                data = (("ints",) + cc.TIE_KINDS)[(gi // 2) % 6]           # repeated values: ties inside windows
            P = cc.make_payload(rng, op, g, bias=(k % 2 == 0), form="tuple" if k % 3 else "int", data=data, layout=cc.LAYOUTS[gi % 8],
                                dtypes=cc.DTYPES[(gi // 8) % 4], zero_bias=(gi % 7 == 3))
            if P["form"] == "int" and (g["kH"], g["sH"], g["pH"], g["dH"]) != (g["kW"], g["sW"], g["pW"], g["dW"]):
                P["form"] = "tuple"
            cases.append((P, (op,) + cc.descr2(g), cc.nontrivial2(g), data))
    for gi, g in enumerate(g1):
        for op in OPS1:
            k += 1
            data = (("ints",) + cc.TIE_KINDS)[(gi // 2) % 6] if (op.startswith("max") and gi % 2 == 0) else "distinct"
            P = cc.make_payload(rng, op, g, bias=(k % 2 == 0), data=data, layout=cc.LAYOUTS[gi % 8], dtypes=cc.DTYPES[(gi // 8) % 4], zero_bias=(gi % 7 == 3))
            cases.append((P, (op, g["k"], g["s"], g["p"], g["d"], g["W"]), cc.nontrivial1(g), data))
    return cases, len(g2), len(g1)


def subgradient_ok(P, gx):
    """max pooling at ties: necessary conditions of a valid subgradient, judged on the loop spec: the gradients sum up to the upstream
    gradient of the windows that contain a real cell, and only positions attaining the maximum of a window they belong to receive any"""
    np = _impl().np
    g = cc._g2(P)
    one_d = not cc.is2d(P["op"])
    x = np.array(P["x"], dtype=np.float64); up = np.array(P["up"], dtype=np.float64); gx = np.array(gx, dtype=np.float64)
    if one_d:
        x, up, gx = x[:, :, None, :], up[:, :, None, :], gx[:, :, None, :]
    xp = cc._pad(x, g, -np.inf)
    lH = cc.out_size(g["H"], g["kH"], g["sH"], g["pH"], g["dH"]); lW = cc.out_size(g["W"], g["kW"], g["sW"], g["pW"], g["dW"])
    if up.shape[2:] != (lH, lW) or gx.shape != x.shape:
        return False
    allowed = np.zeros_like(xp, dtype=bool)
    total = 0.0
    for i in range(lH):
        for j in range(lW):
            rows = [i * g["sH"] + a * g["dH"] for a in range(g["kH"])]
            cols = [j * g["sW"] + b * g["dW"] for b in range(g["kW"])]
            win = xp[:, :, rows][:, :, :, cols]
            m = win.max(axis=(2, 3), keepdims=True)
            hit = (win == m) & np.isfinite(win)
            for ai, r in enumerate(rows):
                for bi, c in enumerate(cols):
                    allowed[:, :, r, c] |= hit[:, :, ai, bi]
            total += float((up[:, :, i, j] * np.isfinite(m[:, :, 0, 0])).sum())
    al = allowed[:, :, g["pH"]:g["pH"] + g["H"], g["pW"]:g["pW"] + g["W"]]
    return bool(np.all((gx == 0) | al)) and abs(float(gx.sum()) - total) < 1e-9


def run_part_c02(ctx):
    rng = ctx.rng
    np = _impl().np
    ok_build, fails = ctx.build_props(props_rel="Props/C02_convpool.v", extra_targets=cc.EXTRA_TARGETS)
    cases, n2, n1 = backward_cases(ctx)
    terms, payloads, descr, nontriv, verdicts, torch_flag = [], [], set(), set(), [], []
    for (P, d, nt, data) in cases:
        r = cc.call(cc.run_impl, P)
        if r[0] != "ok":
            terms.append("false"); payloads.append(P); descr.add(d)
            verdicts.append((len(terms) - 1, not_ok(r, "forward accepted on a valid geometry")))
            continue
        cc.add_upstream(rng, P, r[1]["out"].shape)
        rb = cc.call(cc.run_impl, P, True)
        if rb[0] != "ok":
            terms.append("false"); payloads.append(P); descr.add(d)
            verdicts.append((len(terms) - 1, not_ok(rb, "backward(g) completes")))
            continue
        grads = rb[1]["grads"]
        # the forward result is part of the case: the backward kernels are the VJP of the *modelled* forward
        terms.append("(%s) && (%s)" % (cc.term_forward(P, ("ok", r[1]["out"])), cc.term_backward(P, grads))); payloads.append(P); descr.add(d)
        if nt:
            nontriv.add(d)
        # cheap oracle on every case: torch autograd (where torch has the configuration); at ties: subgradient conditions
        tied = P["op"].startswith("max") and data != "distinct"
        if tied:
            if not subgradient_ok(P, grads["x"]):
                torch_flag.append(len(terms) - 1)
        elif cc.torch_applicable(P):
            try:
                tg = cc.run_torch(P, backward=True)["grads"]
                if any(not cc.close(grads[n], tg[n]) for n in grads):
                    torch_flag.append(len(terms) - 1)
            except Exception:      # noqa: BLE001
                pass
    ctx.sample({"backward_case": {k: v for k, v in payloads[3].items()}, "coq_term": terms[3][:400]})
    bad, errors = cc.run_bool_cases(ctx, "bwd", terms)
    mism = list(errors) + [{"case": i, "input": payloads[i]} for i in bad[:50]] + [{"case": i} for i in bad[50:]]
    ctx.tie("convpool/backward kernels (x, weight, bias gradients)", "correspondence", len(terms), len(nontriv), mism, exhaustive=True,
            note="same geometry grid as C06 (%d 2-D, %d 1-D geometries) x ops; distinct integer upstream gradients (multiples of the kernel size for the "
                 "average pools); every second max-pool geometry has a tie-rich image (small integers, ReLU output, constant blocks, flat, negative; ties: the model must put the gradient on the first maximum); float64 / float32 with a preceding call of the other dtype on the same geometry" % (n2, n1))
    # violation search: finite differences + torch on the flagged cases (tie mismatches, torch disagreements), smallest first, and on a sample
    flagged = sorted(set(bad) | set(torch_flag), key=lambda i: len(json.dumps(payloads[i])))
    sample = [i for i in rng.sample(range(len(terms)), min(len(terms), 25 if ctx.quick else 150)) if i not in flagged]
    nfd = 0
    for i in flagged[:8] + sample:
        P = payloads[i]
        if "up" not in P:
            continue
        if P["op"].startswith("max") and not cc.is_integral(np.array(P["x"])):
            continue
        grads = cc.call(cc.run_impl, P, True)
        if grads[0] != "ok":
            continue
        xs = np.array(P["x"] if "x" in P else P["y"]).ravel()
        if P["op"].startswith("max") and len(set(xs.tolist())) != len(xs):
            if not subgradient_ok(P, grads[1]["grads"]["x"]):
                verdicts.append((i, {"expected": "a valid subgradient: every window's upstream gradient on one position attaining its maximum",
                                     "observed": cc.tolist(grads[1]["grads"]["x"]), "note": "max-pool gradient at a tie is not a subgradient"}))
            continue
        v = cc.oracle_backward(P, grads[1]["grads"], fd_eps(P["op"]))
        nfd += 1
        if v is not None:
            verdicts.append((i, v))
    ctx.extra["oracle"] = {"torch_autograd_cases": len(terms), "torch_disagreements": len(torch_flag), "finite_difference_cases": nfd}
    for i, v in sorted(verdicts, key=lambda iv: len(json.dumps(payloads[iv[0]])))[:3]:
        P = payloads[i]
        ctx.witness("nn.functional.%s/backward" % P["op"], "vjp", P, v["expected"], v["observed"], v.get("note", ""))
    run_two_branch(ctx, "C02")


# ------------------------------------------------------------------------------------------------- C14
def compose_conv(P, backward):
    """w.reshape(C_out, -1) @ unfold(x) + b, reshaped to the output grid, with synapgrad's own tensor ops"""
    impl = _impl()
    np, NF, sg = impl.np, impl.NF, impl.synapgrad
    g = P["g"]
    ks, st, pd, dl = cc.geo_args(P)
    cc.prewarm(P)
    dt = P.get("dtype", "f64")
    x, w = cc.T(P["x"], backward, P.get("layout", "C"), dt), cc.T(P["w"], backward, "C", dt)
    b = cc.T(P["b"], backward, "C", dt) if P.get("b") is not None else None
    Co = w.shape[0]
    U = NF.unfold(x, ks, dl, st, pd)                      # (N, R, L)
    out = w.reshape((Co, -1)) @ U                         # (N, Co, L)
    if b is not None:
        out = out + b.reshape((1, Co, 1))
    lH = cc.out_size(g["H"], g["kH"], g["sH"], g["pH"], g["dH"]); lW = cc.out_size(g["W"], g["kW"], g["sW"], g["pW"], g["dW"])
    out = out.reshape((g["N"], Co, lH, lW))
    res = {"out": np.array(out.data, dtype=np.float64)}
    if backward:
        out.backward(sg.Tensor(np.array(P["up"], dtype=cc.np_dtype(dt))))
        res["grads"] = {"x": np.array(x.grad.data, dtype=np.float64), "w": np.array(w.grad.data, dtype=np.float64)}
        if b is not None:
            res["grads"]["b"] = np.array(b.grad.data, dtype=np.float64)
    return res


def compose_pool(P, backward):
    """unfold(x, pad_value = -inf | 0).reshape(N, C, kH*kW, L) -> max / mean over the kernel axis -> (N, C, lH, lW)"""
    impl = _impl()
    np, NF, sg = impl.np, impl.NF, impl.synapgrad
    g = P["g"]
    ks, st, pd, dl = cc.geo_args(P)
    cc.prewarm(P)
    dt = P.get("dtype", "f64")
    x = cc.T(P["x"], backward, P.get("layout", "C"), dt)
    ismax = P["op"].startswith("max")
    U = NF.unfold(x, ks, dl, st, pd, -np.inf if ismax else 0)
    K = g["kH"] * g["kW"]
    lH = cc.out_size(g["H"], g["kH"], g["sH"], g["pH"], g["dH"]); lW = cc.out_size(g["W"], g["kW"], g["sW"], g["pW"], g["dW"])
    V = U.reshape((g["N"], g["C"], K, lH * lW))
    out = (V.max(dim=2) if ismax else V.mean(dim=2)).reshape((g["N"], g["C"], lH, lW))
    res = {"out": np.array(out.data, dtype=np.float64)}
    if backward:
        out.backward(sg.Tensor(np.array(P["up"], dtype=cc.np_dtype(dt))))
        res["grads"] = {"x": np.array(x.grad.data, dtype=np.float64)}
    return res


# ------------------------------------------------------------------------------------------------- two applications before backward
def fused_t(P, x, w, b):
    impl = _impl()
    NF = impl.NF
    ks, st, pd, dl = cc.geo_args(P)
    op = P["op"]
    if op == "conv2d":
        return NF.conv2d(x, w, b, st, pd, dl)
    if op == "conv1d":
        return NF.conv1d(x, w, b, st, pd, dl)
    return getattr(NF, op)(x, ks, st, pd, dl)


def composed_t(P, x, w, b):
    """the documented composition, on tensors (2-D ops)"""
    impl = _impl()
    np, NF = impl.np, impl.NF
    g = P["g"]
    ks, st, pd, dl = cc.geo_args(P)
    lH = cc.out_size(g["H"], g["kH"], g["sH"], g["pH"], g["dH"]); lW = cc.out_size(g["W"], g["kW"], g["sW"], g["pW"], g["dW"])
    if P["op"] == "conv2d":
        Co = w.shape[0]
        out = w.reshape((Co, -1)) @ NF.unfold(x, ks, dl, st, pd)
        if b is not None:
            out = out + b.reshape((1, Co, 1))
        return out.reshape((g["N"], Co, lH, lW))
    ismax = P["op"].startswith("max")
    U = NF.unfold(x, ks, dl, st, pd, -np.inf if ismax else 0)
    V = U.reshape((g["N"], g["C"], g["kH"] * g["kW"], lH * lW))
    return (V.max(dim=2) if ismax else V.mean(dim=2)).reshape((g["N"], g["C"], lH, lW))


def two_branch(P, f):
    """y1 = f(x1), y2 = f(x2) with shared weights, both forwards first, then y1.backward(up1), y2.backward(up2)"""
    impl = _impl()
    np, sg = impl.np, impl.synapgrad
    x1, x2 = cc.T(P["x"], True, P.get("layout", "C")), cc.T(P["x2"], True, P.get("layout", "C"))
    w = cc.T(P["w"], True) if "w" in P else None
    b = cc.T(P["b"], True) if P.get("b") is not None else None
    y1 = f(P, x1, w, b)
    y2 = f(P, x2, w, b)
    res = {"out1": np.array(y1.data, dtype=np.float64), "out2": np.array(y2.data, dtype=np.float64)}
    if "up" in P:
        y1.backward(sg.Tensor(np.array(P["up"], dtype=np.float64)))
        y2.backward(sg.Tensor(np.array(P["up2"], dtype=np.float64)))
        res["grads"] = {"x1": np.array(x1.grad.data, dtype=np.float64), "x2": np.array(x2.grad.data, dtype=np.float64)}
        if w is not None:
            res["grads"]["w"] = np.array(w.grad.data, dtype=np.float64)
        if b is not None:
            res["grads"]["b"] = np.array(b.grad.data, dtype=np.float64)
    return res


def independent_runs(P):
    """the same two applications as two independent forward/backward runs; shared-operand gradients added"""
    np = _impl().np
    P1 = dict(P); P2 = dict(P, x=P["x2"], up=P["up2"])
    r1, r2 = cc.run_impl(P1, True), cc.run_impl(P2, True)
    g = {"x1": r1["grads"]["x"], "x2": r2["grads"]["x"]}
    for nm in ("w", "b"):
        if nm in r1["grads"]:
            g[nm] = r1["grads"][nm] + r2["grads"][nm]
    return {"out1": r1["out"], "out2": r2["out"], "grads": g}


def two_branch_payloads(ctx, ops, n):
    """geometries with padding (so that a padded buffer exists), two different inputs of the same shape"""
    rng = ctx.rng
    res = []
    g2 = [g for g in cc.geometry_2d(rng, True) if g["pH"] + g["pW"] > 0]
    g1 = [g for g in cc.geometry_1d(rng, True) if g["p"] > 0]
    rng.shuffle(g2); rng.shuffle(g1)
    for op in ops:
        for g in (g2 if cc.is2d(op) else g1)[:n]:
            P = cc.make_payload(rng, op, g, bias=True, data="distinct", layout=cc.LAYOUTS[len(res) % 8])
            P["x2"] = cc.make_payload(rng, op, g, bias=True, data="distinct")["x"]
            res.append(P)
    return res


def two_branch_term(P, grads):
    op, g = P["op"], P["g"]
    np = _impl().np
    G = cc.geom2_coq(g) if cc.is2d(op) else cc.geom1_coq(g)
    if op in ("conv2d", "conv1d"):
        Co = np.array(P["w"]).shape[0]
        return "quad_eqb (run_%s_bwd2 %s %d %s %s %s %s %s) (%s, %s, %s, %s)" % (
            op, G, Co, cc.zl(P["x"]), cc.zl(P["x2"]), cc.zl(P["w"]), cc.zl(P["up"]), cc.zl(P["up2"]),
            cc.zl(grads["x1"]), cc.zl(grads["x2"]), cc.zl(grads["w"]), cc.zl(grads["b"]))
    r = "run_%s_bwd" % op.replace("_", "")
    return "zl_eqb (%s %s %s %s) %s && zl_eqb (%s %s %s %s) %s" % (r, G, cc.zl(P["x"]), cc.zl(P["up"]), cc.zl(grads["x1"]),
                                                                   r, G, cc.zl(P["x2"]), cc.zl(P["up2"]), cc.zl(grads["x2"]))


def run_two_branch(ctx, pid):
    """C02: gradients of two applications with shared weights = the model's per-application gradients added up;
    C14: the same for the composition, and fused == composition on the implementation"""
    rng = ctx.rng
    np = _impl().np
    ops = ("conv2d", "max_pool2d", "conv1d", "max_pool1d") if pid == "C02" else ("conv2d", "max_pool2d")
    payloads = two_branch_payloads(ctx, ops, 25 if ctx.quick else 100)
    terms, verdicts, kept = [], [], []
    for P in payloads:
        r0 = cc.call(cc.run_impl, P)
        if r0[0] != "ok":
            terms.append("false"); kept.append(P)
            verdicts.append((len(kept) - 1, not_ok(r0, "forward accepted on a valid geometry")))
            continue
        cc.add_upstream(rng, P, r0[1]["out"].shape)
        P["up2"] = cc.distinct_ints(rng, r0[1]["out"].shape).tolist()
        rf = cc.call(two_branch, P, fused_t)
        if rf[0] != "ok":
            terms.append("false"); kept.append(P)
            verdicts.append((len(kept) - 1, not_ok(rf, "two applications then two backward passes complete")))
            continue
        if pid == "C02":
            terms.append(two_branch_term(P, rf[1]["grads"])); kept.append(P)
            ri = cc.call(independent_runs, P)
            if ri[0] == "ok" and any(not np.array_equal(rf[1]["grads"][n], ri[1]["grads"][n]) for n in rf[1]["grads"]):
                bad = [n for n in rf[1]["grads"] if not np.array_equal(rf[1]["grads"][n], ri[1]["grads"][n])][0]
                verdicts.append((len(kept) - 1, {"expected": {"gradient": bad, "two independent forward/backward runs": cc.tolist(ri[1]["grads"][bad])},
                                                  "observed": cc.tolist(rf[1]["grads"][bad]),
                                                  "note": "two applications of the op before backward: gradient of '%s' differs from the independent runs" % bad}))
        else:
            rc = cc.call(two_branch, P, composed_t)
            if rc[0] != "ok":
                terms.append("false"); kept.append(P)
                verdicts.append((len(kept) - 1, not_ok(rc, "composition defined")))
                continue
            terms.append(two_branch_term(P, rc[1]["grads"])); kept.append(P)
            diff = None
            for key in ("out1", "out2"):
                if not np.array_equal(rf[1][key], rc[1][key]):
                    diff = key
            for nm in rf[1]["grads"]:
                if diff is None and not np.array_equal(rf[1]["grads"][nm], rc[1]["grads"][nm]):
                    diff = "gradient of " + nm
            if diff is not None:
                key = diff.replace("gradient of ", "")
                fv = rf[1]["grads"].get(key, rf[1].get(key)); cv = rc[1]["grads"].get(key, rc[1].get(key))
                verdicts.append((len(kept) - 1, {"expected": "fused == composition (%s), two applications before backward" % diff,
                                                  "observed": {"fused": cc.tolist(fv), "composition": cc.tolist(cv)}, "note": "identity fails on the implementation"}))
    bad, errors = cc.run_bool_cases(ctx, "twobranch", terms)
    mism = list(errors) + [{"case": i, "input": kept[i]} for i in bad[:50]] + [{"case": i} for i in bad[50:]]
    ctx.tie("convpool/two applications with shared operands before backward", "correspondence", len(terms), len(terms), mism,
            note="y1 = f(x1), y2 = f(x2) (same weights, same padded geometry, different data), then y1.backward(g1), y2.backward(g2): every gradient vs the "
                 "model's per-application gradients added up" + ("" if pid == "C02" else "; f = the composition; fused == composition exactly"))
    for i, v in sorted(verdicts, key=lambda iv: len(json.dumps(kept[iv[0]])))[:2]:
        P = kept[i]
        ctx.witness("nn.functional.%s/two applications" % P["op"], "two-branch", P, v["expected"], v["observed"], v.get("note", ""))


def run_part_c14(ctx):
    rng = ctx.rng
    np = _impl().np
    ok_build, fails = ctx.build_props(props_rel="Props/C14_convpool.v", extra_targets=cc.EXTRA_TARGETS)
    g2 = cc.geometry_2d(rng, ctx.quick)
    terms, payloads, descr, nontriv, verdicts = [], [], set(), set(), []
    k = 0
    for gi, g in enumerate(g2):
        for op, data in (("conv2d", "distinct"), ("max_pool2d", "distinct"), ("avg_pool2d", "distinct"), ("max_pool2d", cc.TIE_KINDS[gi % 5])):
            k += 1
            P = cc.make_payload(rng, op, g, bias=(k % 2 == 0), form="int" if k % 2 else "tuple", data=data, layout=cc.LAYOUTS[gi % 8],
                                dtypes=cc.DTYPES[(gi // 8) % 4], zero_bias=(gi % 7 == 3))
            d = (op, data) + cc.descr2(g)
            comp = compose_conv if op == "conv2d" else compose_pool
            rf = cc.call(cc.run_impl, P)
            if rf[0] != "ok":
                terms.append("false"); payloads.append(P); descr.add(d)
                verdicts.append((len(terms) - 1, not_ok(rf, "forward accepted on a valid geometry")))
                continue
            cc.add_upstream(rng, P, rf[1]["out"].shape)
            rf = cc.call(cc.run_impl, P, True)
            rc = cc.call(comp, P, True)
            G = cc.geom2_coq(g)
            if rf[0] != "ok" or rc[0] != "ok":
                terms.append("false"); payloads.append(P); descr.add(d)
                bad_r = rf if rf[0] != "ok" else rc
                v = not_ok(bad_r, "both sides of the identity are defined")
                if bad_r[0] != "crash":
                    v["observed"] = {"fused": rf[1] if rf[0] != "ok" else "ok", "composition": rc[1] if rc[0] != "ok" else "ok"}
                    v["note"] = "one side raises"
                verdicts.append((len(terms) - 1, v))
                continue
            fo, co = rf[1]["out"], rc[1]["out"]
            if op == "conv2d":
                Co = np.array(P["w"]).shape[0]
                t = "zl_eqb (run_conv_via_unfold %s %d %s %s %s) %s && zl_eqb (run_conv2d %s %d %s %s %s) %s" % (
                    G, Co, cc.zl(P["x"]), cc.zl(P["w"]), cc.bias_coq(P.get("b")), cc.zl(co) if cc.is_integral(co) else "[]",
                    G, Co, cc.zl(P["x"]), cc.zl(P["w"]), cc.bias_coq(P.get("b")), cc.zl(fo) if cc.is_integral(fo) else "[]")
            elif op == "max_pool2d":
                # values of both sides, and both gradients against the model's rule (the first maximum of the window in row-major
                # kernel order receives the gradient — np.argmax in max_backward and in Tensor.max)
                t = "ol_eqb (run_maxpool_via_unfold %s %s) %s && ol_eqb (run_maxpool2d %s %s) %s && zl_eqb (run_maxpool2d_bwd %s %s %s) %s && zl_eqb (run_maxpool2d_bwd %s %s %s) %s" % (
                    G, cc.zl(P["x"]), cc.ozl(co) if cc.is_integral_or_neginf(co) else "[]", G, cc.zl(P["x"]), cc.ozl(fo) if cc.is_integral_or_neginf(fo) else "[]",
                    G, cc.zl(P["x"]), cc.zl(P["up"]), cc.zl(rf[1]["grads"]["x"]), G, cc.zl(P["x"]), cc.zl(P["up"]), cc.zl(rc[1]["grads"]["x"]))
            else:
                t = "qlq_eqb (run_avgpool_via_unfold %s %s) %s && qlq_eqb (run_avgpool2d %s %s) %s" % (G, cc.zl(P["x"]), cc.ql(co), G, cc.zl(P["x"]), cc.ql(fo))
            terms.append(t); payloads.append(P); descr.add(d)
            if cc.nontrivial2(g):
                nontriv.add(d)
            # the identity itself, on the implementation (needs no external reference): values and every gradient, exactly
            diff = None
            if fo.shape != co.shape or not np.array_equal(fo, co):
                diff = {"what": "values", "fused": cc.tolist(fo), "composition": cc.tolist(co)}
            else:
                for nm in rf[1]["grads"]:
                    if not np.array_equal(rf[1]["grads"][nm], rc[1]["grads"][nm]):
                        diff = {"what": "gradient of " + nm, "fused": cc.tolist(rf[1]["grads"][nm]), "composition": cc.tolist(rc[1]["grads"][nm])}
                        break
            if diff is not None:
                verdicts.append((len(terms) - 1, {"expected": "fused == composition (%s)" % diff["what"], "observed": diff, "note": "identity fails on the implementation"}))
    ctx.sample({"identity_case": payloads[0], "coq_term": terms[0][:300]})
    bad, errors = cc.run_bool_cases(ctx, "fused", terms)
    mism = list(errors) + [{"case": i, "input": payloads[i]} for i in bad[:50]] + [{"case": i} for i in bad[50:]]
    ctx.tie("convpool/fused = composition (conv = unfold @ matmul, pool = unfold -> max|mean)", "correspondence", len(terms), len(nontriv), mism,
            exhaustive=True,
            note="%d 2-D geometries x {conv2d, max_pool2d, avg_pool2d on distinct data, max_pool2d on a tie-rich image (small integers / ReLU output / constant blocks / flat / negative)}: the composition computed with synapgrad's own ops vs the model's composition, the fused op "
                 "vs the model's fused kernel; max-pool gradients of both sides also against the model's first-maximum rule; float64 / float32 operands with a preceding call of the other dtype; additionally fused == composition exactly on values and all gradients" % len(g2))
    ctx.extra["identities_checked_on_implementation"] = len(terms)
    for i, v in sorted(verdicts, key=lambda iv: len(json.dumps(payloads[iv[0]])))[:3]:
        P = payloads[i]
        ctx.witness("nn.functional.%s vs composition" % P["op"], "fused-identity", P, v["expected"], v["observed"], v.get("note", ""))
    run_two_branch(ctx, "C14")


def run_part(ctx):
    if ctx.pid == "C14":
        return run_part_c14(ctx)
    if ctx.pid == "C02":
        return run_part_c02(ctx)
    run_part_c02(ctx)
    run_part_c14(ctx)


def replay_part(ctx, data):
    """Re-run a stored conv/pool witness (C02 / C14 parts).  Returns None for witnesses of other parts."""
    np = _impl().np
    if data.get("class") == "two-branch" and isinstance(data.get("input"), dict) and "x2" in data["input"]:
        P = data["input"]
        rf, ri = cc.call(two_branch, P, fused_t), cc.call(independent_runs, P)
        same = rf[0] == "ok" and ri[0] == "ok" and all(np.array_equal(rf[1]["grads"][n], ri[1]["grads"][n]) for n in rf[1]["grads"])
        if same and cc.is2d(P["op"]) and not P["op"].startswith("avg"):
            rc = cc.call(two_branch, P, composed_t)
            same = rc[0] == "ok" and all(np.array_equal(rf[1]["grads"][n], rc[1]["grads"][n]) for n in rf[1]["grads"])
        print("two applications before backward agree with independent runs / the composition:", same)
        return 0 if same else 1
    if data.get("class") not in ("vjp", "fused-identity") or not str(data.get("site", "")).startswith("nn.functional."):
        return None
    P = data["input"]
    if not isinstance(P, dict) or P.get("op") not in OPS1 + OPS2:
        return None
    if data.get("class") == "vjp":
        r = cc.call(cc.run_impl, P, True)
        if r[0] != "ok":
            print("raises", r[1]); return 1
        v = cc.oracle_backward(P, r[1]["grads"], fd_eps(P["op"]))
        print("gradients:", {k: cc.tolist(v2) for k, v2 in r[1]["grads"].items()})
        print("verdict:", json.dumps(v)[:800] if v else "the gradients are the VJP now")
        return 1 if v else 0
    if data.get("class") == "fused-identity":
        comp = compose_conv if P["op"] == "conv2d" else compose_pool
        rf, rc = cc.call(cc.run_impl, P, True), cc.call(comp, P, True)
        same = rf[0] == "ok" and rc[0] == "ok" and np.array_equal(rf[1]["out"], rc[1]["out"]) and all(
            np.array_equal(rf[1]["grads"][n], rc[1]["grads"][n]) for n in rf[1]["grads"])
        print("fused == composition:", same)
        return 0 if same else 1
    return None
