"""Property oracles for the softmax / loss / batch-norm kernels, judged directly on the implementation
(real Tensors, no Coq model).

oracle_c02(ctx)  backward = exact vector-Jacobian product of the forward.
                 For every case a non-uniform upstream gradient g is drawn, forward + backward(g) is run once on the
                 implementation, and every input's .grad is compared with two independent references:
                   (i)  float64 central finite differences of L(inputs) = sum(g * forward(inputs)) where forward is
                        the implementation's own forward (step 1e-6 * max(1,|x_i|) per coordinate);
                   (ii) PyTorch autograd in float64.
                 A case is a witness iff the implementation disagrees with BOTH references (or the backward of an
                 accepted forward raises, or a .grad is missing / has the wrong shape).
oracle_c09(ctx)  numerical stability of softmax / log_softmax / cross-entropy for logits of magnitude up to 1e4 in
                 float32 and float64; reference = mpmath (60 digits) on the exact value of the floats.
replay_case(d)   re-run a stored witness.

Run stand-alone:  cd <harness root> && VERIF_REPO=<checkout> /venv/bin/python -m checks.kv_oracle
"""
import os
import json
import math
import random
import sys
import time

_TORCH = None


def _impl():
    from lib import impl
    return impl


def _torch():
    global _TORCH
    if _TORCH is None:
        import torch
        try:
            torch.set_num_threads(1)
        except Exception:
            pass
        _TORCH = torch
    return _TORCH


def _prod(shape):
    n = 1
    for d in shape:
        n *= int(d)
    return n


def _short(e):
    return ("%s: %s" % (type(e).__name__, e))[:300]


# =====================================================================================================
#                                               C02
# =====================================================================================================
C02_SITES = {
    ("softmax", None): "nn.functional.softmax/backward",
    ("log_softmax", None): "nn.functional.log_softmax/backward",
    ("nll_loss", "module"): "nn.NLLLoss/backward",
    ("nll_loss", "functional"): "nn.functional.nll_loss/backward",
    ("cross_entropy", "module"): "nn.CrossEntropyLoss/backward",
    ("cross_entropy", "functional"): "nn.functional.cross_entropy/backward",
    ("batch_norm", None): "nn.functional.batch_norm/backward",
}


def _c02_site(case):
    op = case["op"]
    form = case.get("form") if op in ("nll_loss", "cross_entropy") else None
    return C02_SITES[(op, form)]


def _shape_of(lst):
    s = []
    while isinstance(lst, list):
        s.append(len(lst))
        lst = lst[0] if lst else None
    return tuple(s)


def _c02_klass(case):
    k = _c02_klass0(case)
    if case.get("layout", "C") != "C":
        k += " layout=" + {"T": "transposed-view", "F": "fortran", "S": "strided-slice"}[case["layout"]]
    if case.get("repeat", 1) > 1:
        k += " backward-x%d" % case["repeat"]
    if case.get("tag"):
        k += " " + case["tag"]
    return k


def _c02_klass0(case):
    op = case["op"]
    if op in ("softmax", "log_softmax"):
        return "dim=%d rank=%d" % (case["dim"], len(_shape_of(case["x"])))
    if op in ("nll_loss", "cross_entropy"):
        if case["form"] == "module":
            return "reduction=%s" % case["reduction"]
        return "functional per-row output"
    aff = {(True, True): "weight+bias", (True, False): "weight", (False, True): "bias", (False, False): "none"}[
        (case.get("weight") is not None, case.get("bias") is not None)]
    return "training=%s affine=%s running=%s rank=%d" % (
        case["training"], aff, "yes" if case.get("running_mean") is not None else "no", len(_shape_of(case["x"])))


def _c02_grad_inputs(case):
    """names of the inputs that require grad, in a fixed order"""
    names = ["x"]
    if case["op"] == "batch_norm":
        if case.get("weight") is not None:
            names.append("weight")
        if case.get("bias") is not None:
            names.append("bias")
    return names


LAYOUTS = ("C", "T", "F", "S")


class _Grad:
    def __init__(self, data):
        self.data = data


class _Leaf:
    """an operand fed in a given memory layout; .grad is the leaf's gradient mapped back to the operand's logical shape"""

    def __init__(self, leaf, back):
        self.leaf, self.back = leaf, back

    @property
    def grad(self):
        g = self.leaf.grad
        return None if g is None else _Grad(self.back(g.data))


def _laid_out(impl, a, layout, requires_grad):
    """(operand Tensor, _Leaf) with the values of `a` (ndarray) but a non-C-contiguous memory layout:
       C  as is;   F  Fortran order;   S  a strided slice big[::2] of a larger buffer;
       T  a VIEW produced by the library itself: a leaf holding the transposed data, then .transpose(0, last)
          (how a (classes, batch) score matrix reaches a loss).  The gradient is read on the leaf."""
    np, sg = impl.np, impl.synapgrad
    ident = lambda g: np.asarray(g)
    if layout == "C" or a.ndim < 2:
        t = sg.Tensor(a.copy(), requires_grad=requires_grad)
        return t, _Leaf(t, ident)
    if layout == "F":
        t = sg.Tensor(np.asfortranarray(a), requires_grad=requires_grad)
        return t, _Leaf(t, ident)
    if layout == "S":
        big = np.full((2 * a.shape[0],) + a.shape[1:], 7.75, dtype=a.dtype)
        big[::2] = a
        t = sg.Tensor(big[::2], requires_grad=requires_grad)
        return t, _Leaf(t, ident)
    if layout == "T":
        leaf = sg.Tensor(np.ascontiguousarray(np.swapaxes(a, 0, a.ndim - 1)), requires_grad=requires_grad)
        view = leaf.transpose(0, a.ndim - 1)
        return view, _Leaf(leaf, lambda g: np.swapaxes(np.asarray(g), 0, a.ndim - 1))
    raise ValueError(layout)


def _c02_forward(impl, case, arrs, requires_grad):
    """One forward evaluation on the implementation with FRESH tensors (batch_norm replaces the running
    statistics' .data in training mode).  Returns (out Tensor, {name: Tensor})."""
    sg, NF, nn, np = impl.synapgrad, impl.NF, impl.nn, impl.np

    def T(a, rg):
        return sg.Tensor(np.array(a, dtype=np.float64), requires_grad=rg)

    op = case["op"]
    x, xleaf = _laid_out(impl, np.array(arrs["x"], dtype=np.float64), case.get("layout", "C"), requires_grad)
    ins = {"x": xleaf}
    if op == "softmax":
        out = NF.softmax(x, case["dim"])
    elif op == "log_softmax":
        out = NF.log_softmax(x, case["dim"])
    elif op in ("nll_loss", "cross_entropy"):
        y = sg.Tensor(np.array(case["labels"], dtype=np.int64))
        if case["form"] == "module":
            mod = (nn.NLLLoss if op == "nll_loss" else nn.CrossEntropyLoss)(reduction=case["reduction"])
            out = mod(x, y)
        else:
            out = (NF.nll_loss if op == "nll_loss" else NF.cross_entropy)(x, y)
    elif op == "batch_norm":
        w = b = rm = rv = None
        if case.get("weight") is not None:
            w = T(arrs["weight"], requires_grad)
            ins["weight"] = w
        if case.get("bias") is not None:
            b = T(arrs["bias"], requires_grad)
            ins["bias"] = b
        if case.get("running_mean") is not None:
            rm = T(case["running_mean"], False)
        if case.get("running_var") is not None:
            rv = T(case["running_var"], False)
        out = NF.batch_norm(x, w, b, rm, rv, case["training"], case["momentum"], case["eps"])
    else:
        raise ValueError("unknown op %r" % op)
    ins = {n: (t if isinstance(t, _Leaf) else _Leaf(t, lambda g_: np.asarray(g_))) for n, t in ins.items()}
    return out, ins


def _make_g(np, seed, shape):
    """non-uniform upstream gradient (never all ones), deterministic in (seed, shape)"""
    r = random.Random(seed)
    n = _prod(shape)
    if n == 1:
        vals = [r.choice([-1.7, -0.6, 0.4, 0.7, 1.9, 2.5])]
    else:
        vals = [r.uniform(-2.0, 2.0) for _ in range(n)]
        if max(vals) - min(vals) < 0.25:
            vals = [v + (0.5 + 0.37 * i) * (1 if i % 2 else -1) for i, v in enumerate(vals)]
    return np.array(vals, dtype=np.float64).reshape(shape)


def _c02_fd(impl, case, arrs, g):
    """central differences of L = sum(g * forward) through the implementation's forward"""
    np = impl.np

    def L(a):
        out, _ = _c02_forward(impl, case, a, False)
        return float((g * np.asarray(out.data, dtype=np.float64).reshape(g.shape)).sum())

    grads = {}
    with np.errstate(all="ignore"):
        for name in _c02_grad_inputs(case):
            base = arrs[name]
            G = np.zeros(base.shape, dtype=np.float64)
            for i in range(base.size):
                v = float(base.flat[i])
                h = float(case["fd_step"]) if (name == "x" and case.get("fd_step")) else 1e-6 * max(1.0, abs(v))
                ap = {k: a.copy() for k, a in arrs.items()}
                am = {k: a.copy() for k, a in arrs.items()}
                ap[name].flat[i] = v + h
                am[name].flat[i] = v - h
                den = float(ap[name].flat[i]) - float(am[name].flat[i])
                G.flat[i] = (L(ap) - L(am)) / den
            grads[name] = G
    return grads


def _c02_torch(case, arrs, g):
    """(grads, forward value) from PyTorch autograd in float64"""
    torch = _torch()
    F = torch.nn.functional
    t = {k: torch.tensor(v, dtype=torch.float64, requires_grad=True) for k, v in arrs.items()}
    op = case["op"]
    x = t["x"]
    if op == "softmax":
        out = torch.softmax(x, case["dim"])
    elif op == "log_softmax":
        out = torch.log_softmax(x, case["dim"])
    elif op in ("nll_loss", "cross_entropy"):
        y = torch.tensor(case["labels"], dtype=torch.long)
        red = case["reduction"] if case["form"] == "module" else "none"
        if red not in ("mean", "sum"):
            red = "none"
        out = (F.nll_loss if op == "nll_loss" else F.cross_entropy)(x, y, reduction=red)
    else:
        rm = rv = None
        has_stats = case.get("running_mean") is not None and case.get("running_var") is not None
        if has_stats:
            rm = torch.tensor(case["running_mean"], dtype=torch.float64)
            rv = torch.tensor(case["running_var"], dtype=torch.float64)
        # synapgrad in eval mode without running statistics normalises with the batch statistics
        training = True if not has_stats else bool(case["training"])
        out = F.batch_norm(x, rm, rv, t.get("weight"), t.get("bias"), training, case["momentum"], case["eps"])
    gt = torch.tensor(g, dtype=torch.float64)
    if out.numel() != gt.numel():
        raise ValueError("torch output has %d elements, implementation output has %d" % (out.numel(), gt.numel()))
    names = _c02_grad_inputs(case)
    gs = torch.autograd.grad((out.reshape(-1) * gt.reshape(-1)).sum(), [t[n] for n in names], allow_unused=True)
    grads = {}
    for n, gr in zip(names, gs):
        grads[n] = (gr if gr is not None else torch.zeros_like(t[n])).detach().numpy().copy()
    return grads, out.detach().numpy().reshape(g.shape).copy()


def _disagree(np, a, ref, abs_tol, rel_tol):
    if a.shape != ref.shape:
        return True
    if not np.all(np.isfinite(a)):
        return True
    scale = max(1.0, float(np.max(np.abs(ref))) if ref.size else 1.0)
    return bool(np.any(np.abs(a - ref) > abs_tol + rel_tol * scale))


def _c02_judge(impl, case):
    """Judge one case.  Returns dict(status in ok|rejected|witness|refdis, ...)."""
    if case["op"] == "batch_norm_seq":
        return _c02_seq_judge(impl, case)
    np = impl.np
    names = _c02_grad_inputs(case)
    arrs = {n: np.array(case[n], dtype=np.float64) for n in names}
    res = {"site": _c02_site(case), "klass": _c02_klass(case), "size": sum(a.size for a in arrs.values()),
           "fwd_mismatch": False}
    inp = dict(case)
    inp["oracle"] = "c02"
    res["input"] = inp
    # ---- forward (a forward that raises is only "rejected")
    try:
        with np.errstate(all="ignore"):
            out, ins = _c02_forward(impl, case, arrs, True)
            out_shape = tuple(out.data.shape) if hasattr(out.data, "shape") else ()
    except Exception as e:
        res.update(status="rejected", note=_short(e))
        return res
    snap = {n: (ins[n].leaf.data.tobytes(), id(ins[n].leaf.data)) for n in names}

    def mutated(when):
        bad_ = [n for n in names if ins[n].leaf.data.tobytes() != snap[n][0]]
        return "operand(s) %s modified in place by the %s (data no longer bit-identical to what the caller passed)" % (bad_, when) if bad_ else None
    mut = mutated("forward")
    if mut is None and case["op"] in ("softmax", "log_softmax", "nll_loss", "cross_entropy"):
        # the same tensor used by a second op of the same kind must give the same result
        try:
            with np.errstate(all="ignore"):
                arr2 = {n: np.frombuffer(snap[n][0], dtype=np.float64).reshape(arrs[n].shape) for n in names}
                o1 = np.asarray(out.data, dtype=np.float64).copy()
                # re-run on the SAME leaf data (not a fresh copy of the input)
                o2, _ = _c02_forward(impl, case, {n: np.asarray(ins[n].back(ins[n].leaf.data), dtype=np.float64) for n in names}, False)
                if o1.shape != np.asarray(o2.data).shape or not np.allclose(o1, np.asarray(o2.data, dtype=np.float64), rtol=1e-12, atol=0, equal_nan=True):
                    mut = "a second call on the same operand returns a different result"
        except Exception:
            pass
    if mut:
        res.update(status="witness", observed=mut, expected="operands are read-only: bit-identical after the call", note=mut)
        return res
    g = None
    if case.get("g") is not None:
        g0 = np.array(case["g"], dtype=np.float64)
        if tuple(g0.shape) == out_shape:
            g = g0
    if g is None:
        g = _make_g(np, case.get("gseed", 0), out_shape)
    inp["g"] = g.tolist()
    # ---- references
    notes = []
    try:
        tg, tout = _c02_torch(case, arrs, g)
        if _disagree(np, np.asarray(out.data, dtype=np.float64).reshape(g.shape), tout, 1e-7, 1e-5):
            res["fwd_mismatch"] = True
    except Exception as e:
        tg = None
        notes.append("torch reference unavailable: " + _short(e))
    try:
        fg = _c02_fd(impl, case, arrs, g)
    except Exception as e:
        fg = None
        notes.append("finite-difference reference unavailable: " + _short(e))
    expected = {n: tg[n].tolist() for n in names} if tg is not None else \
        ({n: fg[n].tolist() for n in names} if fg is not None else None)
    res["expected"] = expected
    res["expected_fd"] = {n: fg[n].tolist() for n in names} if fg is not None else None
    # ---- backward on the implementation
    rep = int(case.get("repeat", 1))
    if rep > 1:
        # the same graph back-propagated rep times: every leaf accumulates rep x the single-pass gradient
        notes.append("backward called %d times on the same graph: expected = %d x the single-pass gradient" % (rep, rep))
        if tg is not None:
            tg = {n: rep * v for n, v in tg.items()}
        if fg is not None:
            fg = {n: rep * v for n, v in fg.items()}
        expected = {n: (tg if tg is not None else fg)[n].tolist() for n in names} if (tg is not None or fg is not None) else None
        res["expected"] = expected
        res["expected_fd"] = {n: fg[n].tolist() for n in names} if fg is not None else None
    try:
        with np.errstate(all="ignore"):
            for _k in range(rep):
                gl = case.get("layout", "C")
                gg = np.asfortranarray(g) if (gl != "C" and g.ndim >= 2) else g.copy()     # the upstream gradient need not be C-contiguous either
                out.backward(impl.synapgrad.Tensor(gg))
    except Exception as e:
        res.update(status="witness", observed="backward raised " + _short(e),
                   note="; ".join(notes + ["forward accepted the input, backward raised"]))
        return res
    observed = {}
    bad = []
    refdis = False
    mut = mutated("backward")
    if mut:
        bad.append(mut)
    for n in names:
        gt = ins[n].grad
        if gt is None:
            observed[n] = None
            bad.append("%s.grad is None" % n)
            continue
        gi = np.asarray(gt.data, dtype=np.float64)
        observed[n] = gi.tolist()
        if tuple(gi.shape) != tuple(arrs[n].shape):
            bad.append("%s.grad has shape %s, input has shape %s" % (n, tuple(gi.shape), tuple(arrs[n].shape)))
            continue
        dt = True if tg is None else _disagree(np, gi, tg[n], 1e-7, 1e-5)
        df = True if fg is None else _disagree(np, gi, fg[n], 1e-6, 1e-4)
        if dt and df and (tg is not None or fg is not None):
            bad.append("%s.grad disagrees with PyTorch and with finite differences" % n)
        elif tg is not None and fg is not None and (dt or df or _disagree(np, fg[n], tg[n], 1e-6, 1e-4)):
            refdis = True
            notes.append("%s: references disagree (impl vs torch: %s, impl vs FD: %s)" % (
                n, "differs" if dt else "agrees", "differs" if df else "agrees"))
    res["observed"] = observed
    if bad:
        res.update(status="witness", note="; ".join(bad + notes))
    elif refdis:
        res.update(status="refdis", note="; ".join(notes))
    else:
        res.update(status="ok", note="; ".join(notes))
    return res


# ------------------------------------------------------------------ batch-norm: several forwards before the backwards
SEQ_SITES = {"functional": "nn.functional.batch_norm/backward", "layer1d": "nn.BatchNorm1d/backward", "layer2d": "nn.BatchNorm2d/backward"}


def _c02_seq_judge(impl, case):
    """A BatchNorm (functional with SHARED running tensors, or an nn.BatchNorm1d/2d layer) is run forward 2-3 times on
    different batches in mixed train/eval modes; only then the outputs are back-propagated, in the given order.
    The gradient each backward call ADDS to x_k / gamma / beta must be the VJP of call k's own forward, i.e. with the
    running statistics the module held WHEN CALL k RAN.  References: finite differences of that call's forward with the
    statistics frozen at the implementation's value at that call; PyTorch run on the same sequence."""
    np, sg, NF, nn = impl.np, impl.synapgrad, impl.NF, impl.nn
    torch = _torch()
    form, calls, order = case["form"], case["calls"], case["order"]
    affine, track = case["weight"] is not None, case["running_mean"] is not None
    modes = "".join("T" if c["training"] else "E" for c in calls)
    res = {"site": SEQ_SITES[form], "fwd_mismatch": False,
           "klass": "sequence modes=%s backward-order=%s affine=%s running=%s" % (modes, "".join(map(str, order)), "yes" if affine else "no", "yes" if track else "no"),
           "size": 1000 + sum(_prod(_shape_of(c["x"])) for c in calls)}
    inp = dict(case); inp["oracle"] = "c02"
    res["input"] = inp
    f64 = lambda a: np.array(a, dtype=np.float64)
    T = lambda a, rg: sg.Tensor(f64(a), requires_grad=rg)
    C = _shape_of(calls[0]["x"])[1]
    try:
        with np.errstate(all="ignore"):
            if form == "functional":
                w = T(case["weight"], True) if affine else None
                b = T(case["bias"], True) if affine else None
                rm = T(case["running_mean"], False) if track else None
                rv = T(case["running_var"], False) if track else None
                stats = lambda: (None, None) if not track else (np.array(rm.data, dtype=np.float64).copy(), np.array(rv.data, dtype=np.float64).copy())
                fwd = lambda x, tr: NF.batch_norm(x, w, b, rm, rv, tr, case["momentum"], case["eps"])
            else:
                cls = nn.BatchNorm1d if form == "layer1d" else nn.BatchNorm2d
                mod = cls(C, eps=case["eps"], momentum=case["momentum"], affine=affine, track_running_stats=track, dtype=np.float64)
                if affine:
                    mod.weight.data = f64(case["weight"]); mod.bias.data = f64(case["bias"])
                if track:
                    mod.running_mean.data = f64(case["running_mean"]); mod.running_var.data = f64(case["running_var"])
                w, b = (mod.weight, mod.bias) if affine else (None, None)
                stats = lambda: (None, None) if not track else (np.array(mod.running_mean.data, dtype=np.float64).copy(),
                                                                 np.array(mod.running_var.data, dtype=np.float64).copy())

                def fwd(x, tr):
                    mod.train() if tr else mod.eval()
                    return mod(x)
            xs, outs, snaps = [], [], []
            for c in calls:
                x = T(c["x"], True)
                snaps.append(stats())
                outs.append(fwd(x, c["training"]))
                xs.append(x)
    except Exception as e:
        res.update(status="rejected", note=_short(e))
        return res
    # ---- references per call
    names = ["x"] + (["weight", "bias"] if affine else [])
    trm = None if not track else torch.tensor(f64(case["running_mean"]))
    trv = None if not track else torch.tensor(f64(case["running_var"]))
    refs = []
    for k, c in enumerate(calls):
        g = _make_g(np, c.get("gseed", k), tuple(np.shape(outs[k].data)))
        arrs = {"x": f64(c["x"])}
        if affine:
            arrs["weight"], arrs["bias"] = f64(case["weight"]), f64(case["bias"])
        base = {"op": "batch_norm", "training": bool(c["training"]), "momentum": case["momentum"], "eps": case["eps"],
                "x": c["x"], "weight": case["weight"], "bias": case["bias"]}
        fd_case = dict(base, running_mean=None if not track else snaps[k][0].tolist(), running_var=None if not track else snaps[k][1].tolist())
        th_case = dict(base, running_mean=None if not track else trm.numpy().tolist(), running_var=None if not track else trv.numpy().tolist())
        try:
            fg = _c02_fd(impl, fd_case, arrs, g)
        except Exception:
            fg = None
        try:
            tg, tout = _c02_torch(th_case, arrs, g)
        except Exception:
            tg = None
        if track and c["training"]:      # PyTorch's own in-place update of its buffers for the next call
            torch.nn.functional.batch_norm(torch.tensor(arrs["x"]), trm, trv, None, None, True, case["momentum"], case["eps"])
        refs.append((g, fg, tg))
    # ---- backward calls in the requested order; the contribution of each call is the increase of .grad
    observed, expected, expected_fd, bad, notes = {}, {}, {}, [], []
    refdis = False
    cur = lambda t: None if (t is None or t.grad is None) else np.array(t.grad.data, dtype=np.float64).copy()
    for k in order:
        g, fg, tg = refs[k]
        before = {"weight": cur(w), "bias": cur(b)}
        try:
            with np.errstate(all="ignore"):
                outs[k].backward(sg.Tensor(g.copy()))
        except Exception as e:
            res.update(status="witness", observed="backward of output %d raised %s" % (k, _short(e)), expected=None,
                       note="forwards accepted, backward raised")
            return res
        got = {"x": cur(xs[k])}
        for n, t in (("weight", w), ("bias", b)):
            if affine:
                a = cur(t)
                got[n] = None if a is None else (a if before[n] is None else a - before[n])
        for n in names:
            key = "call%d.%s" % (k, n)
            observed[key] = None if got[n] is None else got[n].tolist()
            expected[key] = None if tg is None else tg[n].tolist()
            expected_fd[key] = None if fg is None else fg[n].tolist()
            if got[n] is None:
                bad.append("%s: no gradient" % key); continue
            dt = True if tg is None else _disagree(np, got[n], tg[n], 1e-7, 1e-5)
            df = True if fg is None else _disagree(np, got[n], fg[n], 1e-6, 1e-4)
            if dt and df and (tg is not None or fg is not None):
                bad.append("%s disagrees with PyTorch (same sequence) and with finite differences of call %d's forward" % (key, k))
            elif dt or df:
                refdis = True
                notes.append("%s: references disagree (vs torch: %s, vs FD: %s)" % (key, "differs" if dt else "agrees", "differs" if df else "agrees"))
    res.update(observed=observed, expected=expected, expected_fd=expected_fd)
    res.update(status="witness" if bad else ("refdis" if refdis else "ok"), note="; ".join(bad + notes))
    return res


def _c02_bn_seq_cases(rng, quick):
    import itertools
    cases = []
    for n in (2, 3):
        for modes in itertools.product((False, True), repeat=n):
            for order in itertools.permutations(range(n)):
                for rep in range(1 if quick else 4):
                    for form in (("functional", "layer1d", "layer2d") if (not quick or n == 2) else (rng.choice(["functional", "layer1d", "layer2d"]),)):
                        C = rng.randint(1, 3)
                        affine = rng.random() < 0.7
                        track = rng.random() < 0.85
                        def shape():
                            if form == "layer2d":
                                return (rng.randint(2, 3), C, rng.randint(1, 2), rng.randint(1, 3))
                            if form == "layer1d":
                                return rng.choice([(rng.randint(2, 4), C), (rng.randint(2, 3), C, rng.randint(1, 3))])
                            return rng.choice([(rng.randint(2, 4), C), (rng.randint(2, 3), C, rng.randint(1, 2)), (2, C, rng.randint(1, 2), 2)])
                        cases.append({"op": "batch_norm_seq", "form": form, "momentum": rng.choice([0.1, 0.5, 0.9]),
                                      "eps": rng.choice([1e-5, 1e-3, 0.1]),
                                      "weight": [rng.choice([-1, 1]) * rng.uniform(0.4, 2.5) for _ in range(C)] if affine else None,
                                      "bias": [rng.uniform(-2.0, 2.0) for _ in range(C)] if affine else None,
                                      "running_mean": [rng.uniform(-2.0, 2.0) for _ in range(C)] if track else None,
                                      "running_var": [rng.uniform(0.3, 3.0) for _ in range(C)] if track else None,
                                      "order": list(order),
                                      "calls": [{"training": bool(m), "gseed": rng.getrandbits(32),
                                                 "x": _rand_list(rng, shape(), rng.choice([1.0, 3.0]), rng.choice([0.0, 2.0, -3.0]))} for m in modes]})
    return cases


# ------------------------------------------------------------------ case generation (ctx.rng only)
def _rand_list(rng, shape, scale, offset=0.0):
    def rec(sh):
        if not sh:
            return offset + scale * rng.uniform(-1.0, 1.0)
        return [rec(sh[1:]) for _ in range(sh[0])]
    return rec(tuple(shape))


def _c02_softmax_cases(rng, quick):
    import itertools
    shapes = []
    reps12 = 2 if quick else 10
    for _ in range(reps12):
        shapes += [(n,) for n in range(1, 5)]
        shapes += [s for s in itertools.product(range(1, 5), repeat=2)]     # includes (2,3)
    all3 = list(itertools.product(range(1, 5), repeat=3))
    all4 = list(itertools.product(range(1, 5), repeat=4))
    if quick:
        s3 = [(1, 3, 2), (2, 1, 4), (3, 2, 1), (2, 3, 4)] + rng.sample(all3, 24)
        s4 = [(1, 2, 1, 3), (2, 3, 2, 2), (2, 1, 3, 1)] + rng.sample(all4, 20)
    else:
        s3 = all3 * 4
        s4 = [(1, 2, 1, 3), (2, 3, 2, 2), (2, 1, 3, 1)] + all4
    shapes += s3 + s4
    cases = []
    for sh in shapes:
        for dim in range(-len(sh), len(sh)):
            for op in ("softmax", "log_softmax"):
                scale = rng.choice([1.0, 1.0, 1.0, 2.0, 3.0, 10.0, 30.0])
                cases.append({"op": op, "dim": dim, "x": _rand_list(rng, sh, scale, rng.choice([0.0, 0.0, 1.5, -4.0])),
                              "gseed": rng.getrandbits(32)})
    return cases


def _c02_loss_cases(rng, quick):
    cases = []
    for _ in range(3 if quick else 30):
        for N in range(1, 6):
            for C in range(1, 6):
                for op in ("nll_loss", "cross_entropy"):
                    for form, red in (("module", "mean"), ("module", "sum"), ("module", "none"), ("functional", None)):
                        scale = rng.choice([1.0, 1.0, 3.0, 10.0])
                        x = _rand_list(rng, (N, C), scale)
                        if op == "nll_loss" and rng.random() < 0.5:
                            # log-probabilities, as the module documents
                            x = [[v - math.log(sum(math.exp(u) for u in row)) for v in row] for row in x]
                        cases.append({"op": op, "form": form, "reduction": red, "x": x,
                                      "labels": [rng.randrange(C) for _ in range(N)], "gseed": rng.getrandbits(32)})
    return cases


def _c02_bn_cases(rng, quick):
    cases = []
    for _ in range(18 if quick else 180):
        for training in (True, False):
            for has_w, has_b in ((True, True), (False, False), (True, False), (False, True)):
                for running in (True, False):
                    for rank in (2, 3, 4):
                        C = rng.randint(1, 3)
                        if rank == 2:
                            sh = (rng.randint(2, 5), C)
                        elif rank == 3:
                            sh = (rng.randint(2, 4), C, rng.randint(1, 3))
                        else:
                            sh = (rng.randint(2, 3), C, rng.randint(1, 3), rng.randint(1, 3))
                        case = {"op": "batch_norm", "training": training,
                                "momentum": rng.choice([0.1, 0.3]), "eps": rng.choice([1e-5, 1e-3, 0.1]),
                                "x": _rand_list(rng, sh, rng.choice([1.0, 2.0, 5.0]), rng.choice([0.0, 1.0, -3.0])),
                                "weight": [rng.choice([-1, 1]) * rng.uniform(0.4, 2.5) for _ in range(C)] if has_w else None,
                                "bias": [rng.uniform(-2.0, 2.0) for _ in range(C)] if has_b else None,
                                "running_mean": [rng.uniform(-2.0, 2.0) for _ in range(C)] if running else None,
                                "running_var": [rng.uniform(0.3, 3.0) for _ in range(C)] if running else None,
                                "gseed": rng.getrandbits(32)}
                        cases.append(case)
    return cases


def oracle_c02(ctx):
    """backward = vector-Jacobian product, judged on the implementation against finite differences and PyTorch."""
    impl = _impl()
    _torch()
    t0 = time.time()
    rng = ctx.rng
    base = _c02_softmax_cases(rng, ctx.quick) + _c02_loss_cases(rng, ctx.quick) + _c02_bn_cases(rng, ctx.quick)
    variants = []
    for i, c in enumerate(base):
        rank = len(_shape_of(c["x"]))
        heavy = c["op"] == "batch_norm"
        # non-C-contiguous operands (transposed views made by the library, Fortran order, strided slices)
        if rank >= 2 and _shape_of(c["x"])[0] >= 2 and (not heavy or i % 3 == 0):
            variants.append(dict(c, layout=LAYOUTS[1 + i % 3]))
        # the same graph back-propagated twice / three times
        if not heavy or i % 4 == 0:
            variants.append(dict(c, repeat=2 + (i % 2), **({"layout": "T"} if (rank >= 2 and i % 5 == 0) else {})))
    import numpy as _np
    for i, c in enumerate(base):
        # logits whose maximum along the reduced axis is EXACTLY 0 (pre-stabilised by the caller, log-probabilities, all zeros)
        if c["op"] in ("softmax", "log_softmax", "nll_loss", "cross_entropy") and i % 2 == 0:
            xs = _np.array(c["x"], dtype=_np.float64)
            ax = c.get("dim", 1) if xs.ndim > 1 else c.get("dim", 0)
            if c["op"] in ("nll_loss", "cross_entropy"):
                ax = 1
            z = xs - xs.max(axis=ax, keepdims=True) if i % 6 else _np.zeros_like(xs)
            variants.append(dict(c, x=z.tolist(), tag="row-maximum=0", **({"repeat": 2} if i % 4 == 0 else {})))
    for ratio in (1e2, 1e3, 1e4, 1e6):
        for training in (True, False):
            for rep in range(2 if ctx.quick else 8):
                C = rng.randint(1, 2)
                sh = rng.choice([(rng.randint(3, 6), C), (3, C, rng.randint(2, 3))])
                std = rng.choice([0.5, 2.0])
                xs = [[None]]
                xs = _rand_list(rng, sh, std, 0.0)
                xa = _np.array(xs) + ratio * std * rng.choice([-1, 1])
                variants.append({"op": "batch_norm", "training": training, "momentum": 0.1, "eps": rng.choice([1e-5, 1e-3]),
                                 "x": xa.tolist(), "weight": [rng.uniform(0.5, 2.0) for _ in range(C)], "bias": [rng.uniform(-1, 1) for _ in range(C)],
                                 "running_mean": None, "running_var": None, "gseed": rng.getrandbits(32),
                                 "fd_step": 1e-6 * std, "tag": "uncentred |mean|/std=%g" % ratio})
    cases = base + variants + _c02_bn_seq_cases(rng, ctx.quick)
    by_site = {}
    failing = {}
    n_wit = n_rej = n_refdis = n_fwd = 0
    sampled = set()
    for case in cases:
        r = _c02_judge(impl, case)
        st = by_site.setdefault(r["site"], {"cases": 0, "witnesses": 0, "rejected": 0, "reference_disagreements": 0})
        st["cases"] += 1
        if r["fwd_mismatch"]:
            n_fwd += 1
        if r["status"] == "witness":
            n_wit += 1
            st["witnesses"] += 1
            failing.setdefault(r["site"], []).append(r)
        elif r["status"] == "rejected":
            n_rej += 1
            st["rejected"] += 1
        elif r["status"] == "refdis":
            n_refdis += 1
            st["reference_disagreements"] += 1
        elif r["site"] not in sampled and r["size"] > 2:
            sampled.add(r["site"])
            ctx.sample({"oracle": "c02", "site": r["site"], "class": r["klass"], "input": r["input"],
                        "torch_grad": r["expected"], "impl_grad": r["observed"]})
    for site in sorted(failing):
        # at most 3 per site, smallest inputs first: the smallest silently wrong gradient, the smallest raising
        # backward, then the next smallest of a class not shown yet
        rs = sorted(failing[site], key=lambda r: r["size"])
        chosen = []
        for want_exc in (False, True):
            for r in rs:
                if isinstance(r["observed"], str) == want_exc:
                    chosen.append(r)
                    break
        for distinct in (True, False):
            for r in rs:
                if len(chosen) < 3 and not any(r is c for c in chosen) and \
                        (not distinct or r["klass"] not in {c["klass"] for c in chosen}):
                    chosen.append(r)
        for r in chosen:
            ctx.witness(site, r["klass"], r["input"], r["expected"], r["observed"], note=r.get("note", ""))
    out = {"cases": len(cases), "by_site": by_site, "witnesses": n_wit, "rejected": n_rej,
           "reference_disagreements": n_refdis, "forward_vs_torch_mismatches": n_fwd,
           "seconds": round(time.time() - t0, 2)}
    ctx.extra["oracle_c02_vector"] = out
    ctx.log("oracle_c02: %d cases, %d witnesses, %d rejected, %d reference disagreements, %.1fs" % (
        len(cases), n_wit, n_rej, n_refdis, time.time() - t0))
    return out


# =====================================================================================================
#                                               C09
# =====================================================================================================
FIXED_ROWS = [
    [1000.0, 0.0, -1000.0],
    [1e4, -1e4],
    [88.8, 0.0],
    [-1e4, -1e4, -1e4],
    [0.0, 0.0, 0.0],
    [1e4, 1e4 - 1e-3, 1e4 - 1.0, -1e4],
    [-1000.0, 1000.0],
    [745.5, 0.0, -745.5],
]


def _mp():
    import mpmath
    mpmath.mp.dps = 60
    return mpmath


def _mp_lines(mpm, rows):
    """rows: list of lists of exact floats.  -> (softmax rows, logsumexp per row) in mpf"""
    S, LSE = [], []
    for row in rows:
        xs = [mpm.mpf(v) for v in row]
        m = max(xs)
        es = [mpm.exp(v - m) for v in xs]
        tot = mpm.fsum(es)
        S.append([e / tot for e in es])
        LSE.append(m + mpm.log(tot))
    return S, LSE


def _transpose(m):
    return [list(c) for c in zip(*m)]


def _np_dtype(np, name):
    return {"float32": np.float32, "float64": np.float64}[name]


def _underflow_threshold(dtype):
    return -104.0 if dtype == "float32" else -746.0


def _label_kind(row, label, dtype):
    d = row[label] - max(row)
    if d == 0.0:
        return "max class"
    if d < _underflow_threshold(dtype):
        return "underflowing class"
    return "other class"


def _spread_kind(rows):
    sp = max(max(r) - min(r) for r in rows)
    return "spread>=1e3" if sp >= 1e3 else ("spread>=1e2" if sp >= 1e2 else "spread<1e2")


_C09_LEAVES = []


def _c09_judge(impl, case):
    if case["op"] == "scalar_loss":
        return _c09_scalar_loss_judge(impl, case)
    del _C09_LEAVES[:]
    fails, info = _c09_judge0(impl, case)
    # operands are read-only: the logits the caller passed must be bit-identical after forward and backward
    for leaf, before in _C09_LEAVES:
        if leaf.leaf.data.tobytes() != before:
            site = {"softmax": "nn.functional.softmax", "log_softmax": "nn.functional.log_softmax"}.get(
                case["op"], "nn.CrossEntropyLoss" if case.get("form") == "module" else "nn.functional.cross_entropy")
            fails.append({"site": site + "/forward", "klass": "%s operand modified in place" % case["dtype"],
                          "expected": "x.data bit-identical after the call", "observed": impl.np.asarray(leaf.leaf.data, dtype=impl.np.float64).tolist(),
                          "note": "the op (or its backward) overwrote the caller's logits; any later use of the tensor is wrong"})
            break
    if case.get("layout", "C") != "C":
        for f in fails:
            f["klass"] += " layout=" + {"T": "transposed-view", "F": "fortran", "S": "strided-slice"}[case["layout"]]
    return fails, info


def _c09_judge0(impl, case):
    """case: {"op": softmax|log_softmax|cross_entropy, "dtype", "x" (matrix as fed, exact floats), "g", ...}
    Returns list of failures [{site, klass, expected, observed, note}], plus counters (checks, rejected)."""
    np, sg, NF, nn = impl.np, impl.synapgrad, impl.NF, impl.nn
    mpm = _mp()
    dtype = case["dtype"]
    dt = _np_dtype(np, dtype)
    x_np = np.array(case["x"], dtype=dt)
    xl = x_np.astype(np.float64).tolist()                  # exact values of the floats
    maxabs = max(abs(v) for r in xl for v in r)
    tol = mpm.mpf(1e-5) * max(1.0, maxabs)
    op = case["op"]
    fails = []
    info = {"checks": 0, "rejected": 0}

    def compare(obs, ref, site, klass_of, what):
        """obs: nested list / scalar of floats, ref: same structure of mpf. records the worst failing element"""
        worst = None
        flat_o, flat_r, idx = [], [], []

        def walk(o, r, path):
            if isinstance(r, list):
                if not isinstance(o, list) or len(o) != len(r):
                    flat_o.append(float("nan")); flat_r.append(mpm.mpf(0)); idx.append(path)
                    return
                for i, (oo, rr) in enumerate(zip(o, r)):
                    walk(oo, rr, path + (i,))
            else:
                while isinstance(o, list) and len(o) == 1:
                    o = o[0]
                flat_o.append(float(o) if not isinstance(o, list) else float("nan")); flat_r.append(r); idx.append(path)
        walk(obs, ref, ())
        for o, r, p in zip(flat_o, flat_r, idx):
            info["checks"] += 1
            if not math.isfinite(o):
                err = mpm.inf
            else:
                err = abs(mpm.mpf(o) - r)
            if err > tol and (worst is None or err > worst[0]):
                worst = (err, p, o, r)
        if worst is not None:
            err, p, o, r = worst
            fails.append({"site": site, "klass": klass_of(p),
                          "expected": _mp_to_py(mpm, ref), "observed": obs,
                          "note": "%s%s: observed %r, reference %s, bound %s" % (
                              what, list(p), o, mpm.nstr(r, 20), mpm.nstr(tol, 6))})

    if op in ("softmax", "log_softmax"):
        dim = case["dim"]
        g_np = np.array(case["g"], dtype=dt)
        gl = g_np.astype(np.float64).tolist()
        rows = xl if dim in (-1, 1) else _transpose(xl)
        grows = gl if dim in (-1, 1) else _transpose(gl)
        S, LSE = _mp_lines(mpm, rows)
        if op == "softmax":
            val = S
            grad = []
            for s, g in zip(S, grows):
                dot = mpm.fsum([mpm.mpf(gg) * ss for gg, ss in zip(g, s)])
                grad.append([ss * (mpm.mpf(gg) - dot) for gg, ss in zip(g, s)])
        else:
            val = [[mpm.mpf(v) - l for v in row] for row, l in zip(rows, LSE)]
            grad = []
            for s, g in zip(S, grows):
                tot = mpm.fsum([mpm.mpf(gg) for gg in g])
                grad.append([mpm.mpf(gg) - ss * tot for gg, ss in zip(g, s)])
        if dim not in (-1, 1):
            val, grad = _transpose(val), _transpose(grad)
        site = "nn.functional.%s" % op
        sk = _spread_kind(rows)

        def klass_of(_p):
            return "%s %s dim=%d" % (dtype, sk, dim)
        try:
            with np.errstate(all="ignore"):
                xv, x = _laid_out(impl, x_np, case.get("layout", "C"), True)
                _C09_LEAVES.append((x, x.leaf.data.tobytes()))
                out = (NF.softmax if op == "softmax" else NF.log_softmax)(xv, dim)
                out_l = np.asarray(out.data, dtype=np.float64).tolist()
        except Exception as e:
            info["rejected"] += 1
            info["note"] = _short(e)
            return fails, info
        compare(out_l, val, site + "/forward", klass_of, "value")
        try:
            with np.errstate(all="ignore"):
                out.backward(sg.Tensor(g_np.copy()))
                gx = x.grad
                gx_l = None if gx is None else np.asarray(gx.data, dtype=np.float64).tolist()
        except Exception as e:
            fails.append({"site": site + "/backward", "klass": klass_of(()), "expected": _mp_to_py(mpm, grad),
                          "observed": "backward raised " + _short(e), "note": ""})
            return fails, info
        if gx_l is None:
            fails.append({"site": site + "/backward", "klass": klass_of(()), "expected": _mp_to_py(mpm, grad),
                          "observed": None, "note": "x.grad is None"})
        else:
            compare(gx_l, grad, site + "/backward", klass_of, "grad")
        return fails, info

    # ---- cross entropy
    labels = case["labels"]
    form, red = case["form"], case.get("reduction")
    N = len(xl)
    S, LSE = _mp_lines(mpm, xl)
    per_row = [LSE[r] - mpm.mpf(xl[r][labels[r]]) for r in range(N)]
    eff = red if (form == "module" and red in ("mean", "sum")) else "none"
    g_np = np.array(case["g"], dtype=dt)
    gl = g_np.astype(np.float64).tolist()
    if eff == "none":
        val = [[v] for v in per_row]
        grow = [mpm.mpf(gl[r][0]) for r in range(N)]
    else:
        tot = mpm.fsum(per_row)
        val = tot / N if eff == "mean" else tot
        gs = mpm.mpf(gl if not isinstance(gl, list) else gl[0])
        grow = [gs / N if eff == "mean" else gs for _ in range(N)]
    grad = [[(S[r][k] - (1 if k == labels[r] else 0)) * grow[r] for k in range(len(xl[r]))] for r in range(N)]
    site = "nn.CrossEntropyLoss" if form == "module" else "nn.functional.cross_entropy"
    tag = ("reduction=%s" % red) if form == "module" else "functional"

    def klass_of(p):
        if eff == "none" and p:
            r = p[0]
            return "%s %s label=%s" % (dtype, _spread_kind([xl[r]]), _label_kind(xl[r], labels[r], dtype))
        # reduced value: describe the most extreme row
        order = {"underflowing class": 0, "other class": 1, "max class": 2}
        r = min(range(N), key=lambda i: (order[_label_kind(xl[i], labels[i], dtype)], -(max(xl[i]) - min(xl[i]))))
        return "%s %s label=%s" % (dtype, _spread_kind([xl[r]]), _label_kind(xl[r], labels[r], dtype))

    def klass_of_grad(p):
        r = p[0] if p else 0
        return "%s %s label=%s" % (dtype, _spread_kind([xl[r]]), _label_kind(xl[r], labels[r], dtype))
    try:
        with np.errstate(all="ignore"):
            xv, x = _laid_out(impl, x_np, case.get("layout", "C"), True)
            _C09_LEAVES.append((x, x.leaf.data.tobytes()))
            y = sg.Tensor(np.array(labels, dtype=np.int64))
            out = nn.CrossEntropyLoss(reduction=red)(xv, y) if form == "module" else NF.cross_entropy(xv, y)
            out_a = np.asarray(out.data, dtype=np.float64)
            if eff == "none" and out_a.size == N:
                out_a = out_a.reshape(N, 1)      # per-row losses: (N,) or (N,1) -- the layout is C06's business, the values are judged here
            out_l = out_a.tolist()
    except Exception as e:
        info["rejected"] += 1
        info["note"] = _short(e)
        return fails, info
    compare(out_l, val, site + "/forward", klass_of, "loss(%s)" % tag)
    try:
        with np.errstate(all="ignore"):
            out.backward(sg.Tensor(g_np.copy().reshape(np.asarray(out.data).shape)))
            gx = x.grad
            gx_l = None if gx is None else np.asarray(gx.data, dtype=np.float64).tolist()
    except Exception as e:
        fails.append({"site": site + "/backward", "klass": klass_of_grad(()), "expected": _mp_to_py(mpm, grad),
                      "observed": "backward raised " + _short(e), "note": tag})
        return fails, info
    if gx_l is None:
        fails.append({"site": site + "/backward", "klass": klass_of_grad(()), "expected": _mp_to_py(mpm, grad),
                      "observed": None, "note": "x.grad is None"})
    else:
        compare(gx_l, grad, site + "/backward", klass_of_grad, "grad(%s)" % tag)
    return fails, info


def _mp_to_py(mpm, v):
    if isinstance(v, list):
        return [_mp_to_py(mpm, u) for u in v]
    f = float(v)
    return f if math.isfinite(f) else mpm.nstr(v, 25)


def _g_like(rng, shape):
    """upstream gradient of magnitude ~1, non-uniform, random signs"""
    def rec(sh):
        if not sh:
            return rng.choice([-1, 1]) * rng.uniform(0.5, 1.5)
        return [rec(sh[1:]) for _ in range(sh[0])]
    return rec(tuple(shape))


def _c09_cases(rng, quick):
    cases = []

    toggle = [0]

    def dtypes():
        # both call orders occur within one process: float32 then float64, and float64 then float32 (state cached on the
        # first call -- per dtype kind, say -- must not leak from one precision into the other)
        toggle[0] ^= 1
        return ("float32", "float64") if toggle[0] else ("float64", "float32")

    def add_softmax(rows):
        R, K = len(rows), len(rows[0])
        for dtype in dtypes():
            for op in ("softmax", "log_softmax"):
                cases.append({"op": op, "dtype": dtype, "dim": -1, "x": rows, "g": _g_like(rng, (R, K))})
                cases.append({"op": op, "dtype": dtype, "dim": 0, "x": _transpose(rows), "g": _g_like(rng, (K, R))})

    def add_ce(rows, labels):
        N = len(rows)
        for dtype in dtypes():
            for form, red in (("module", "mean"), ("module", "sum"), ("module", "none"), ("functional", None)):
                if form == "module" and red in ("mean", "sum"):
                    g = rng.choice([-1, 1]) * rng.uniform(0.5, 1.5)
                else:
                    g = _g_like(rng, (N, 1))
                cases.append({"op": "cross_entropy", "dtype": dtype, "form": form, "reduction": red,
                              "x": rows, "labels": list(labels), "g": g})

    for row in FIXED_ROWS:
        add_softmax([list(row)])
        for lab in sorted(range(len(row)), key=lambda j: (row[j], j)):     # the smallest logit (underflowing class) first
            add_ce([list(row)], [lab])
    batch = [[1000.0, 0.0, -1000.0], [-1e4, -1e4, -1e4], [0.0, 0.0, 0.0], [745.5, 0.0, -745.5]]
    add_softmax(batch)
    add_ce(batch, [2, 1, 0, 2])
    add_ce(batch, [0, 0, 2, 1])
    # ---- threshold bands: every |logit| is BELOW the overflow point of exp for the dtype (ln FLT_MAX ~ 88.72,
    # ln DBL_MAX ~ 709.78), so "no single exp can overflow", but the SUM of exponentials does unless the maximum is
    # subtracted first; mirrored bands near the underflow points (normal and denormal minimum); equal logits of many classes
    def band_rows():
        out = []
        for T, lows in ((88.72, (-87.33, -103.27)), (709.78, (-708.39, -744.44))):
            for K in ((2, 3, 64, 512) if quick else (2, 3, 5, 8, 64, 200, 512)):
                for d in (0.02, 0.7, 3.7):
                    out.append([T - d] * K)                       # equal logits just below the overflow point
                    out.append([-(T - d)] * K)                    # mirrored
                out.append([T - 0.7, T - 0.7, T - 1.2] + [T - 1.2 - 0.01 * k for k in range(K - 2)])
                for lo in lows:
                    out.append([lo + 0.5] * K)
                    out.append([lo - 0.5 + (k % 2) for k in range(K)])
            for K in (2, 5, 17, 130):
                for _ in range(2 if quick else 8):
                    row = [T - rng.uniform(0.02, 8.7) for _k in range(K)]
                    out.append(list(row))                          # narrow band, nothing above it
                    out.append([-v for v in row])
                    mixed = list(row)                              # ... mixed with very negative entries
                    for _k in range(max(1, K // 3)):
                        mixed[rng.randrange(K)] = rng.choice([-T + 0.5, -1e4, -T - 40.0, 0.0])
                    out.append(mixed)
        for v in (0.0, 85.0, -85.0, 700.0, -700.0, 1e4, -1e4):
            for K in ((64, 512) if quick else (64, 200, 512)):
                out.append([v] * K)                                # equal-logit rows of many classes
        return out

    n_fixed = len(cases)
    for row in band_rows():
        add_softmax([row])
        labs = {row.index(min(row)), row.index(max(row)), rng.randrange(len(row))}
        for lab in sorted(labs):
            add_ce([row], [lab])
    for c in cases[n_fixed:]:
        c["band"] = True
    # rows whose maximum is exactly 0: logits pre-stabilised by the caller (x - max), log-probabilities, all zeros
    zero_max = [[0.0, -1000.0, -2000.0], [0.0, -1.5, -0.25], [-0.6931471805599453, 0.0, -1e4], [0.0, 0.0, 0.0], [-88.5, -709.5, 0.0]]
    for row in zero_max:
        add_softmax([row])
        add_ce([row], [len(row) - 1])
    add_softmax(zero_max)
    add_ce(zero_max, [1, 2, 0, 1, 0])
    # non-C-contiguous logits (transposed views produced by the library, Fortran order, strided slices), >= 2 rows
    multi = [[1000.0, 0.0, -1000.0], [3.0, -2.0, 0.5], [-1e4, -1e4, -1e4], [88.0, 87.5, -50.0]]
    n0 = len(cases)
    add_softmax(multi)
    add_ce(multi, [2, 0, 1, 2])
    add_ce(multi[:2], [0, 1])
    for i, c in enumerate(cases[n0:]):
        c["layout"] = LAYOUTS[1 + i % 3]
    for c in cases:
        c["fixed"] = True
    for _ in range(150 if quick else 1500):
        R, K = rng.randint(1, 4), rng.randint(2, 5)
        rows = []
        for _r in range(R):
            M = 10.0 ** rng.uniform(0.0, 4.0)
            row = [rng.uniform(-M, M) for _k in range(K)]
            u = rng.random()
            if u < 0.15:
                row[rng.randrange(K)] = M            # pin the extreme magnitude
                row[rng.randrange(K)] = -M
            elif u < 0.25:
                j = rng.randrange(K)
                row = [row[j] - rng.choice([0.0, 1e-3, 0.5]) if rng.random() < 0.5 else v for v in row]   # near ties
            rows.append(row)
        n1 = len(cases)
        add_softmax(rows)
        labels = []
        for row in rows:
            u = rng.random()
            labels.append(row.index(min(row)) if u < 0.4 else (row.index(max(row)) if u < 0.55 else rng.randrange(K)))
        add_ce(rows, labels)
        if R >= 2 and rng.random() < 0.5:
            lay = rng.choice(LAYOUTS[1:])
            for c in cases[n1:]:
                c["layout"] = lay
    return cases


def _c09_input(case, impl):
    np = impl.np
    inp = dict(case)
    inp["oracle"] = "c09"
    inp["x"] = np.array(case["x"], dtype=_np_dtype(np, case["dtype"])).astype(np.float64).tolist()
    return inp


def oracle_c09(ctx):
    """stability of softmax / log_softmax / cross-entropy against a 60-digit mpmath reference."""
    impl = _impl()
    t0 = time.time()
    cases = _c09_cases(ctx.rng, ctx.quick) + _c09_scalar_loss_cases(ctx.rng, ctx.quick)
    by_site = {}
    failing = {}
    n_wit = n_rej = n_checks = 0
    sampled = set()
    for ci, case in enumerate(cases):
        fixed = bool(case.pop("fixed", False))
        fails, info = _c09_judge(impl, case)
        n_checks += info["checks"]
        n_rej += info["rejected"]
        if case["op"] == "scalar_loss":
            mod_, fn_ = SCALAR_LOSSES[case["loss"]]
            base = ("nn.%s" % mod_) if case["form"] == "module" else ("nn.functional.%s" % fn_)
        else:
            base = {"softmax": "nn.functional.softmax", "log_softmax": "nn.functional.log_softmax"}.get(
                case["op"], "nn.CrossEntropyLoss" if case.get("form") == "module" else "nn.functional.cross_entropy")
        for part in ("/forward", "/backward"):
            by_site.setdefault(base + part, {"cases": 0, "witnesses": 0})["cases"] += 1
        size = sum(len(r) for r in case["x"]) if case["op"] != "scalar_loss" else len(case["x"])
        for f in fails:
            n_wit += 1
            by_site.setdefault(f["site"], {"cases": 0, "witnesses": 0})["witnesses"] += 1
            failing.setdefault(f["site"], []).append(((0 if fixed else size, ci), f, case))
        if not fails and base not in sampled and size >= 3 and case["dtype"] == "float32":
            sampled.add(base)
            ctx.sample({"oracle": "c09", "input": _c09_input(case, impl)})
    for site in sorted(failing):
        # the fixed rows (all tiny) in generation order first, then the random inputs by size;
        # one witness per distinct class before a class is repeated
        rs = sorted(failing[site], key=lambda t: t[0])
        chosen, seen = [], set()
        for t in rs:
            if t[1]["klass"] not in seen and len(chosen) < 3:
                seen.add(t[1]["klass"])
                chosen.append(t)
        for t in rs:
            if len(chosen) < 3 and not any(t is c for c in chosen):
                chosen.append(t)
        for _key, f, case in chosen:
            ctx.witness(site, f["klass"], _c09_input(case, impl), f["expected"], f["observed"], note=f["note"])
    pn, pw = c09_order_probe(ctx)
    n_wit += pw
    out = {"cases": len(cases) + pn, "scalar_checks": n_checks, "by_site": by_site, "witnesses": n_wit,
           "rejected": n_rej, "order_probe_cases": pn, "seconds": round(time.time() - t0, 2)}
    ctx.extra["oracle_c09_vector"] = out
    ctx.log("oracle_c09: %d cases, %d scalar checks, %d witnesses, %d rejected, %.1fs" % (
        len(cases), n_checks, n_wit, n_rej, time.time() - t0))
    return out


# ------------------------------------------------------------------ elementwise losses x target dtypes
TARGET_DTYPES = ("float32", "float64", "int64", "int32", "uint8", "bool")
SCALAR_LOSSES = {"bce_with_logits": ("BCEWithLogitsLoss", "binary_cross_entropy_with_logits"),
                 "bce": ("BCELoss", "binary_cross_entropy"), "mse": ("MSELoss", "mse_loss")}


def _c09_scalar_loss_cases(rng, quick):
    cases = []
    logits = [0.9, -2.5, 9999.75, -1e4, 88.7, 30.25, -0.3, 745.5]
    probs = [0.05, 0.95, 0.5, 0.3, 0.75, 0.9, 0.125, 0.6]
    anyv = [0.9, -2.5, 9999.75, 3.0, 0.0, -1e4, 17.5, 0.25]
    for loss, xs in (("bce_with_logits", logits), ("bce", probs), ("mse", anyv)):
        for dtype in ("float32", "float64"):
            for td in TARGET_DTYPES:
                soft = td.startswith("float")
                t = [0.0, 1.0, 1.0, 0.0, 1.0, 0.0, 1.0, 1.0]
                if soft:
                    t = [0.0, 1.0, 0.9, 0.25, 1.0, 0.0, 0.5, 1.0]
                if loss == "mse" and not soft and td != "bool":
                    t = [0, 1, 7, 0, 2, 1, 0, 3]
                for form, red in (("module", "mean"), ("module", "sum"), ("module", "none"), ("functional", None)):
                    g = rng.choice([-1, 1]) * rng.uniform(0.5, 1.5) if red in ("mean", "sum") else [rng.choice([-1, 1]) * rng.uniform(0.5, 1.5) for _ in xs]
                    cases.append({"op": "scalar_loss", "loss": loss, "dtype": dtype, "tdtype": td, "form": form, "reduction": red,
                                  "x": list(xs), "t": list(t), "g": g})
    return cases


def _c09_scalar_loss_judge(impl, case):
    """BCE-with-logits / BCE / MSE with targets of every numeric dtype against an mpmath reference (values and input gradient)."""
    np, sg, NF, nn = impl.np, impl.synapgrad, impl.NF, impl.nn
    mpm = _mp()
    dt = _np_dtype(np, case["dtype"])
    tdt = {"float32": np.float32, "float64": np.float64, "int64": np.int64, "int32": np.int32, "uint8": np.uint8, "bool": np.bool_}[case["tdtype"]]
    x_np = np.array(case["x"], dtype=dt)
    t_np = np.array(case["t"]).astype(tdt)
    xs = [mpm.mpf(float(v)) for v in x_np]
    ts = [mpm.mpf(float(v)) for v in t_np.astype(np.float64)]
    loss = case["loss"]
    if loss == "bce_with_logits":
        val = [max(x, 0) - x * t + mpm.log1p(mpm.exp(-abs(x))) for x, t in zip(xs, ts)]
        der = [1 / (1 + mpm.exp(-x)) - t for x, t in zip(xs, ts)]
    elif loss == "bce":
        val = [-(t * mpm.log(x) + (1 - t) * mpm.log(1 - x)) for x, t in zip(xs, ts)]
        der = [-t / x + (1 - t) / (1 - x) for x, t in zip(xs, ts)]
    else:
        val = [(x - t) ** 2 for x, t in zip(xs, ts)]
        der = [2 * (x - t) for x, t in zip(xs, ts)]
    red = case["reduction"] if case["form"] == "module" else None
    n = len(xs)
    if red == "mean":
        ref_v, gs = mpm.fsum(val) / n, [mpm.mpf(case["g"]) / n] * n
    elif red == "sum":
        ref_v, gs = mpm.fsum(val), [mpm.mpf(case["g"])] * n
    else:
        ref_v, gs = val, [mpm.mpf(v) for v in case["g"]]
    ref_g = [d * g for d, g in zip(der, gs)]
    scale = max(1.0, max(abs(float(v)) for v in x_np), max(abs(float(v)) for v in t_np.astype(np.float64)) ** 2 if loss == "mse" else 1.0)
    tol = 1e-5 * scale * (scale if loss == "mse" else 1.0)
    mod, fn = SCALAR_LOSSES[loss]
    site = ("nn.%s" % mod) if case["form"] == "module" else ("nn.functional.%s" % fn)
    klass = "%s logits/predictions with %s targets" % (case["dtype"], case["tdtype"])
    fails, info = [], {"checks": 0, "rejected": 0}
    try:
        with np.errstate(all="ignore"):
            x = sg.Tensor(x_np.copy(), requires_grad=True)
            t = sg.Tensor(t_np.copy())
            before = (x.data.tobytes(), t.data.tobytes())
            out = getattr(nn, mod)(reduction=red)(x, t) if case["form"] == "module" else getattr(NF, fn)(x, t)
            ov = np.asarray(out.data, dtype=np.float64).reshape(-1)
    except Exception as e:
        info["rejected"] += 1
        info["note"] = _short(e)
        return fails, info
    rv = [ref_v] if not isinstance(ref_v, list) else ref_v

    def worst(obs, ref):
        info["checks"] += len(ref)
        if len(obs) != len(ref):
            return "result has %d elements, expected %d" % (len(obs), len(ref))
        for i, (o, r) in enumerate(zip(obs, ref)):
            if not math.isfinite(o) or abs(mpm.mpf(float(o)) - r) > max(tol, 2e-5 * abs(r)):
                return "[%d]: observed %r, reference %s, bound %.3g" % (i, float(o), mpm.nstr(r, 12), tol)
        return None
    w = worst(ov.tolist(), rv)
    if w:
        fails.append({"site": site + "/forward", "klass": klass, "expected": _mp_to_py(mpm, rv), "observed": ov.tolist(), "note": "loss" + w})
    try:
        with np.errstate(all="ignore"):
            gout = np.array(case["g"], dtype=np.float64).reshape(np.asarray(out.data).shape)
            out.backward(sg.Tensor(gout))
            gx = None if x.grad is None else np.asarray(x.grad.data, dtype=np.float64).reshape(-1)
    except Exception as e:
        fails.append({"site": site + "/backward", "klass": klass, "expected": _mp_to_py(mpm, ref_g), "observed": "backward raised " + _short(e), "note": ""})
        return fails, info
    if gx is None:
        fails.append({"site": site + "/backward", "klass": klass, "expected": _mp_to_py(mpm, ref_g), "observed": None, "note": "x.grad is None"})
    else:
        w = worst(gx.tolist(), ref_g)
        if w:
            fails.append({"site": site + "/backward", "klass": klass, "expected": _mp_to_py(mpm, ref_g), "observed": gx.tolist(), "note": "grad" + w})
    if (x.data.tobytes(), t.data.tobytes()) != before:
        fails.append({"site": site + "/forward", "klass": klass + " operand modified in place", "expected": "operands bit-identical after the call",
                      "observed": {"x": np.asarray(x.data, dtype=np.float64).tolist(), "t": np.asarray(t.data, dtype=np.float64).tolist()}, "note": ""})
    return fails, info


# ------------------------------------------------------------------ first-call order of the dtypes, in FRESH processes
def _order_probe_cases(first):
    second = "float32" if first == "float64" else "float64"
    rows = [[1000.0, 0.0, -1000.0], [88.8, 0.0, -3.0], [745.5, 0.0, -745.5], [3.0, -2.0, 0.5]]
    rng = random.Random(7)
    cases = []
    for dim, x in ((-1, rows), (0, _transpose(rows))):
        for op in ("softmax", "log_softmax"):
            g = _g_like(rng, (len(x), len(x[0])))
            for dt in (first, second):
                cases.append({"op": op, "dtype": dt, "dim": dim, "x": x, "g": g})
    for form, red in (("module", "mean"), ("module", "none"), ("functional", None)):
        g = 0.8 if red == "mean" else _g_like(rng, (len(rows), 1))
        for dt in (first, second):
            cases.append({"op": "cross_entropy", "dtype": dt, "form": form, "reduction": red, "x": rows, "labels": [2, 0, 2, 1], "g": g})
    return cases


def _order_probe_child(first):
    """runs in a fresh interpreter: the FIRST call of every op in this process has dtype `first`"""
    impl = _impl()
    out = []
    for case in _order_probe_cases(first):
        fails, _info = _c09_judge(impl, case)
        for f in fails:
            out.append({"site": f["site"], "klass": f["klass"] + " first-call-dtype=" + first, "input": _c09_input(case, impl),
                        "expected": f["expected"], "observed": f["observed"], "note": f["note"]})
    print("ORDER-PROBE-RESULT " + json.dumps(out, default=str))


def c09_order_probe(ctx):
    """state cached on the first call (e.g. per dtype *kind*) can only be exposed by a process whose first call has the
    other precision: two fresh interpreters, float64-first and float32-first"""
    import subprocess
    root = os.path.dirname(os.path.dirname(os.path.abspath(__file__)))
    n = 0
    wit = 0
    for first in ("float64", "float32"):
        p = subprocess.run([sys.executable, "-m", "checks.kv_oracle", "--order-probe", first], cwd=root, env=dict(os.environ),
                           stdout=subprocess.PIPE, stderr=subprocess.STDOUT, text=True, timeout=600)
        line = [l for l in p.stdout.splitlines() if l.startswith("ORDER-PROBE-RESULT ")]
        n += len(_order_probe_cases(first))
        if not line:
            ctx.witness("kv_oracle/order-probe", "probe process failed first-call-dtype=" + first, {"oracle": "c09-order", "first": first},
                        "the probe process reports its verdicts", p.stdout[-600:])
            wit += 1
            continue
        for f in json.loads(line[0][len("ORDER-PROBE-RESULT "):])[:3]:
            wit += 1
            ctx.witness(f["site"], f["klass"], dict(f["input"], first_call_dtype=first), f["expected"], f["observed"], note=f["note"])
    return n, wit


# =====================================================================================================
#                                               replay
# =====================================================================================================
def replay_case(data):
    """Re-run a stored witness (keys site, class, input, expected, observed) on the implementation.
    Returns 1 if it still fails, 0 if it passes now."""
    impl = _impl()
    inp = data.get("input") or {}
    which = inp.get("oracle")
    print("replay %s  site=%s  class=%s" % (which, data.get("site"), data.get("class")))
    if which == "c02":
        case = {k: v for k, v in inp.items() if k != "oracle"}
        r = _c02_judge(impl, case)
        print("input    :", json.dumps(case)[:2000])
        print("expected (PyTorch float64)      :", json.dumps(r.get("expected"))[:2000])
        print("expected (finite differences)   :", json.dumps(r.get("expected_fd"))[:2000])
        print("observed (implementation .grad) :", json.dumps(r.get("observed"))[:2000])
        print("stored observed                 :", json.dumps(data.get("observed"), default=str)[:2000])
        print("status   :", r["status"], "-", r.get("note", ""))
        return 1 if r["status"] == "witness" else 0
    if which == "c09":
        case = {k: v for k, v in inp.items() if k not in ("oracle", "first_call_dtype")}
        if inp.get("first_call_dtype") and inp["first_call_dtype"] != case["dtype"]:
            # order witness: in THIS fresh process make the first call of the op with the other precision, as the probe did
            _c09_judge(impl, dict(case, dtype=inp["first_call_dtype"]))
        fails, info = _c09_judge(impl, case)
        print("input    :", json.dumps(case)[:2000])
        print("stored expected (mpmath) :", json.dumps(data.get("expected"), default=str)[:1500])
        print("stored observed          :", json.dumps(data.get("observed"), default=str)[:1500])
        if info.get("rejected"):
            print("forward now raises:", info.get("note"))
        for f in fails:
            print("STILL FAILS %s [%s]: %s" % (f["site"], f["klass"], f["note"]))
            print("   expected:", json.dumps(f["expected"], default=str)[:1500])
            print("   observed:", json.dumps(f["observed"], default=str)[:1500])
        if not fails:
            print("passes now: every value and gradient is finite and within 1e-5*max(1,max|x|) of the reference")
        return 1 if fails else 0
    print("not an oracle witness (input.oracle = %r)" % (which,))
    return 1


# =====================================================================================================
if __name__ == "__main__":
    class _FakeCtx:
        def __init__(self, quick=True, seed=1):
            self.rng = random.Random(seed)
            self.quick = quick
            self.extra = {}
            self.samples = []
            self.witnesses = []
            self.t0 = time.time()

        def witness(self, site, klass, input, expected, observed, note=""):
            w = {"site": site, "class": klass, "input": input, "expected": expected, "observed": observed, "note": note}
            json.dumps(w)        # must be serialisable
            self.witnesses.append(w)
            print("WITNESS %s [%s] input=%s expected=%s observed=%s %s" % (
                site, klass, json.dumps(input)[:400], json.dumps(expected)[:200], json.dumps(observed)[:200], note[:200]))
            return True

        def sample(self, obj):
            json.dumps(obj)
            self.samples.append(obj)

        def log(self, *a):
            print("[oracle %6.1fs]" % (time.time() - self.t0), *a, file=sys.stderr, flush=True)

    if "--order-probe" in sys.argv:
        _order_probe_child(sys.argv[sys.argv.index("--order-probe") + 1])
        sys.exit(0)
    quick = "--thorough" not in sys.argv
    fake = _FakeCtx(quick=quick)
    r2 = oracle_c02(fake)
    print("oracle_c02:", json.dumps(r2))
    r9 = oracle_c09(fake)
    print("oracle_c09:", json.dumps(r9))
    print("witnesses reported: %d (c02 counted %d, c09 counted %d)" % (len(fake.witnesses), r2["witnesses"], r9["witnesses"]))
    if "--replay-check" in sys.argv:
        for w in fake.witnesses:
            print("replay ->", replay_case(w))
    sys.exit(1 if fake.witnesses else 0)
