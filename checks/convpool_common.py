"""Shared by checks/c06.py and checks/ops_convpool.py: geometry grids, integer data, runners of the implementation
(conv / pool / unfold / fold, functional ops and layer classes), Coq case printers for NumPy/ConvPoolRun.v, and the
Coq-independent oracles (PyTorch values/shapes/acceptance, torch autograd + float64 central differences)."""
import itertools, json, math, os, re
from fractions import Fraction
from lib.common import cz, cb, clist, copt

HEADER = ("From Coq Require Import List ZArith Bool QArith.\nImport ListNotations.\n"
          "From SG Require Import Base.Cmp NumPy.Window NumPy.Im2col NumPy.ConvPool NumPy.ConvPoolRun.\nOpen Scope Z_scope.\n")
EXTRA_TARGETS = ["NumPy/ConvPool.vo", "NumPy/ConvPoolRun.vo"]
CHUNK = 250


def _impl():
    from lib import impl
    return impl


# ------------------------------------------------------------------ geometries
def out_size(L, k, s, p, d):
    return (L + 2 * p - d * (k - 1) - 1) // s + 1


def axis_configs(quick):
    """every (L,k,s,p,d) of the per-axis grid with at least one window"""
    ks = range(1, 4) if quick else range(1, 5)
    Ls = range(1, 8) if quick else range(1, 10)
    res = []
    for L in Ls:
        for k in ks:
            for s in ks:
                for p in range(0, 3):
                    for d in range(1, 3):
                        if out_size(L, k, s, p, d) >= 1:
                            res.append((L, k, s, p, d))
    return res


def geometry_1d(rng, quick):
    """the full per-axis grid, N and C drawn from {1,2}"""
    res = []
    for (L, k, s, p, d) in axis_configs(quick):
        res.append(dict(N=rng.choice((1, 2)), C=rng.choice((1, 2)), W=L, k=k, s=s, p=p, d=d))
    return res


def geometry_2d(rng, quick, n=None):
    """pairs of per-axis configurations: every axis configuration occurs on the H axis once, paired with a random W axis
    configuration (so kernels / strides / paddings / dilations / inputs are non-square in general)"""
    try:   # package D's helper, when present (same dict keys)
        from checks import c16
        if hasattr(c16, "geometry_cases"):
            gs = c16.geometry_cases(rng, quick)
            if n:
                gs = gs[:n]
            if len(gs) >= 300:
                return [dict(g) for g in gs]
    except Exception:
        pass
    ax = axis_configs(quick)
    res = []
    for (H, kH, sH, pH, dH) in ax:
        (W, kW, sW, pW, dW) = rng.choice(ax)
        res.append(dict(N=rng.choice((1, 2)), C=rng.choice((1, 2)), H=H, W=W, kH=kH, kW=kW, sH=sH, sW=sW, pH=pH, pW=pW, dH=dH, dW=dW))
    if n:
        rng.shuffle(res)
        res = res[:n]
    return res


def descr2(g):
    return (g["kH"], g["kW"], g["sH"], g["sW"], g["pH"], g["pW"], g["dH"], g["dW"], g["H"], g["W"])


def nontrivial2(g):
    """a geometry whose window map is not the identity on an unpadded image"""
    return (g["kH"], g["kW"]) != (1, 1) or g["pH"] + g["pW"] > 0 or (g["sH"], g["sW"]) != (1, 1)


def nontrivial1(g):
    return g["k"] != 1 or g["p"] > 0 or g["s"] != 1


def geom2_coq(g):
    return ("{| gN := %d; gC := %d; gH := %d; gW := %d; kH := %d; kW := %d; sH := %d; sW := %d; pH := %d; pW := %d; dH := %d; dW := %d |}"
            % (g["N"], g["C"], g["H"], g["W"], g["kH"], g["kW"], g["sH"], g["sW"], g["pH"], g["pW"], g["dH"], g["dW"]))


def geom1_coq(g):
    return "{| N1 := %d; C1 := %d; W1 := %d; k1 := %d; s1 := %d; p1 := %d; d1 := %d |}" % (g["N"], g["C"], g["W"], g["k"], g["s"], g["p"], g["d"])


def kw2(g):
    return dict(kernel_size=(g["kH"], g["kW"]), stride=(g["sH"], g["sW"]), padding=(g["pH"], g["pW"]), dilation=(g["dH"], g["dW"]))


# ------------------------------------------------------------------ data
def ints(rng, shape, lo=-9, hi=9, mult=1):
    np = _impl().np
    n = int(np.prod(shape)) if len(shape) else 1
    return np.array([mult * rng.randint(lo, hi) for _ in range(n)], dtype=np.float64).reshape(shape)


def distinct_ints(rng, shape, mult=1):
    """distinct integers (a shuffled range), so that maxima are unique and upstream gradients are non-uniform"""
    np = _impl().np
    n = int(np.prod(shape))
    v = list(range(-(n // 2), n - n // 2))
    rng.shuffle(v)
    return (np.array(v, dtype=np.float64) * mult).reshape(shape)


def is_integral(a):
    np = _impl().np
    a = np.asarray(a, dtype=np.float64)
    return bool(np.all(np.isfinite(a)) and np.all(a == np.round(a)) and np.all(np.abs(a) < 2 ** 52))


def zl(a):
    np = _impl().np
    return clist([cz(int(v)) for v in np.asarray(a, dtype=np.float64).ravel()])


def ozl(a):
    """float array that may hold -inf -> list (option Z)"""
    np = _impl().np
    out = []
    for v in np.asarray(a, dtype=np.float64).ravel():
        out.append("None" if v == -np.inf else "Some %s" % cz(int(v)))
    return clist(out)


def is_integral_or_neginf(a):
    np = _impl().np
    a = np.asarray(a, dtype=np.float64)
    fin = a[a != -np.inf]
    return is_integral(fin)


def ql(a):
    """float array of dyadic/integer values -> list Q (exact)"""
    np = _impl().np
    out = []
    for v in np.asarray(a, dtype=np.float64).ravel():
        fr = Fraction(float(v))
        out.append("(%s # %d)" % ("(%d)" % fr.numerator if fr.numerator < 0 else str(fr.numerator), fr.denominator))
    return clist(out)


# ------------------------------------------------------------------ running the implementation
def T(a, requires_grad=False):
    impl = _impl()
    return impl.synapgrad.Tensor(impl.np.array(a, dtype=impl.np.float64), requires_grad=requires_grad)


def call(f, *a, **k):
    """('ok', value) | ('raises', ExceptionName)"""
    try:
        return ("ok", f(*a, **k))
    except Exception as ex:      # noqa: BLE001  (every exception is a rejection)
        return ("raises", type(ex).__name__)


def fwd_bwd(build, gshape_rng=None, upstream=None):
    """build() -> (out_tensor, [input tensors]).  Returns dict(out=, grads=[...]) with backward(upstream) applied."""
    impl = _impl()
    out, ins = build()
    res = {"out": impl.np.array(out.data, dtype=impl.np.float64)}
    if upstream is not None:
        out.backward(impl.synapgrad.Tensor(impl.np.array(upstream, dtype=impl.np.float64)))
        res["grads"] = [None if t is None else impl.np.array(t.grad.data, dtype=impl.np.float64) for t in ins]
    return res


def parse_natlists(out):
    flat = " ".join(out.split())
    res = []
    for m in re.finditer(r"= \[(.*?)\]\s*:\s*list nat", flat):
        body = m.group(1).replace("%nat", "").strip()
        res.append([int(x) for x in body.split(";") if x.strip()])
    return res


def run_bool_cases(ctx, prefix, terms, timeout=900):
    """terms: list of Coq terms of type bool ('the model agrees with the recorded implementation output').
    Returns the sorted list of indices whose term does not evaluate to true (or all indices of a file that failed to compile)."""
    files = []
    for k in range(0, len(terms), CHUNK):
        chunk = terms[k:k + CHUNK]
        body = ";\n ".join(chunk)
        txt = HEADER + "Definition cases : list bool :=\n [%s].\nEval vm_compute in (mismatches (fun b : bool => b) Bool.eqb (flags cases)).\n" % body
        files.append(("%s_%d" % (prefix, k // CHUNK), txt))
    res = ctx.coq_eval_many(files, timeout=timeout)
    bad = []
    errors = []
    for (name, _), k in zip(files, range(0, len(terms), CHUNK)):
        ok, out = res[name]
        lists = parse_natlists(out)
        if not ok or len(lists) != 1:
            errors.append({"file": name, "error": out[-500:]})
            bad.extend(range(k, min(k + CHUNK, len(terms))))
        else:
            bad.extend(k + i for i in lists[0])
    return sorted(bad), errors
