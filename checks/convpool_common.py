"""Shared by checks/c06.py and checks/ops_convpool.py: geometry grids, integer data, runners of the implementation
(conv / pool / unfold / fold, functional ops and layer classes), Coq case printers for NumPy/ConvPoolRun.v, and the
Coq-independent oracles (PyTorch values/shapes/acceptance, torch autograd + float64 central differences)."""
import itertools, json, math, os, re
from fractions import Fraction
from lib.common import cz, cb, clist, copt

HEADER = ("From Coq Require Import List ZArith Bool QArith.\nImport ListNotations.\n"
          "From SG Require Import Base.Cmp NumPy.Window NumPy.Im2col NumPy.ConvPool NumPy.ConvPoolRun.\nOpen Scope Z_scope.\n")
EXTRA_TARGETS = ["NumPy/ConvPool.vo", "NumPy/ConvPoolRun.vo"]
CHUNK = 250


def _impl():
    from lib import impl
    return impl


# ------------------------------------------------------------------ geometries
def out_size(L, k, s, p, d):
    return (L + 2 * p - d * (k - 1) - 1) // s + 1


def axis_configs(quick):
    """every (L,k,s,p,d) of the per-axis grid with at least one window"""
    ks = range(1, 4) if quick else range(1, 5)
    Ls = range(1, 8) if quick else range(1, 10)
    res = []
    for L in Ls:
        for k in ks:
            for s in ks:
                for p in range(0, 3):
                    for d in range(1, 3):
                        if out_size(L, k, s, p, d) >= 1:
                            res.append((L, k, s, p, d))
    return res


def geometry_1d(rng, quick):
    """the full per-axis grid, N and C drawn from {1,2}"""
    res = []
    for (L, k, s, p, d) in axis_configs(quick):
        res.append(dict(N=rng.choice((1, 2)), C=rng.choice((1, 2)), W=L, k=k, s=s, p=p, d=d))
    return res


def geometry_2d(rng, quick, n=None):
    """pairs of per-axis configurations: every axis configuration occurs on the H axis once, paired with a random W axis
    configuration (so kernels / strides / paddings / dilations / inputs are non-square in general)"""
    try:   # package D's helper, when present (same dict keys)
        from checks import c16
        if hasattr(c16, "geometry_cases"):
            gs = c16.geometry_cases(rng, quick)
            if not quick and n is None:
                n = 1500          # thorough: D's ~3400 geometries capped so that the three checks stay within 10-20 minutes
            if n:
                gs = gs[:n]
            if len(gs) >= 300 or n:
                return [dict(g) for g in gs]
    except Exception:
        pass
    ax = axis_configs(quick)
    res = []
    for (H, kH, sH, pH, dH) in ax:
        (W, kW, sW, pW, dW) = rng.choice(ax)
        res.append(dict(N=rng.choice((1, 2)), C=rng.choice((1, 2)), H=H, W=W, kH=kH, kW=kW, sH=sH, sW=sW, pH=pH, pW=pW, dH=dH, dW=dW))
    if n:
        rng.shuffle(res)
        res = res[:n]
    return res


def descr2(g):
    return (g["kH"], g["kW"], g["sH"], g["sW"], g["pH"], g["pW"], g["dH"], g["dW"], g["H"], g["W"])


def nontrivial2(g):
    """a geometry whose window map is not the identity on an unpadded image"""
    return (g["kH"], g["kW"]) != (1, 1) or g["pH"] + g["pW"] > 0 or (g["sH"], g["sW"]) != (1, 1)


def nontrivial1(g):
    return g["k"] != 1 or g["p"] > 0 or g["s"] != 1


def geom2_coq(g):
    return ("{| gN := %d; gC := %d; gH := %d; gW := %d; kH := %d; kW := %d; sH := %d; sW := %d; pH := %d; pW := %d; dH := %d; dW := %d |}"
            % (g["N"], g["C"], g["H"], g["W"], g["kH"], g["kW"], g["sH"], g["sW"], g["pH"], g["pW"], g["dH"], g["dW"]))


def geom1_coq(g):
    return "{| N1 := %d; C1 := %d; W1 := %d; k1 := %d; s1 := %d; p1 := %d; d1 := %d |}" % (g["N"], g["C"], g["W"], g["k"], g["s"], g["p"], g["d"])


def kw2(g):
    return dict(kernel_size=(g["kH"], g["kW"]), stride=(g["sH"], g["sW"]), padding=(g["pH"], g["pW"]), dilation=(g["dH"], g["dW"]))


# ------------------------------------------------------------------ data
def ints(rng, shape, lo=-9, hi=9, mult=1):
    np = _impl().np
    n = int(np.prod(shape)) if len(shape) else 1
    return np.array([mult * rng.randint(lo, hi) for _ in range(n)], dtype=np.float64).reshape(shape)


def distinct_ints(rng, shape, mult=1):
    """distinct integers (a shuffled range), so that maxima are unique and upstream gradients are non-uniform"""
    np = _impl().np
    n = int(np.prod(shape))
    v = list(range(-(n // 2), n - n // 2))
    rng.shuffle(v)
    return (np.array(v, dtype=np.float64) * mult).reshape(shape)


def is_integral(a):
    np = _impl().np
    a = np.asarray(a, dtype=np.float64)
    return bool(np.all(np.isfinite(a)) and np.all(a == np.round(a)) and np.all(np.abs(a) < 2 ** 52))


SENTINEL = 987654321987       # stands for a value that is not an integer (NaN, inf, a fraction): no model result on small data equals it


def _zi(v):
    np = _impl().np
    if np.isfinite(v) and v == np.round(v) and abs(v) < 2 ** 52:
        return int(v)
    return SENTINEL


def zl(a):
    np = _impl().np
    return clist([cz(_zi(v)) for v in np.asarray(a, dtype=np.float64).ravel()])


def ozl(a):
    """float array that may hold -inf -> list (option Z)"""
    np = _impl().np
    out = []
    for v in np.asarray(a, dtype=np.float64).ravel():
        out.append("None" if v == -np.inf else "Some %s" % cz(_zi(v)))
    return clist(out)


def is_integral_or_neginf(a):
    np = _impl().np
    a = np.asarray(a, dtype=np.float64)
    fin = a[a != -np.inf]
    return is_integral(fin)


def ql(a):
    """float array of dyadic/integer values -> list Q (exact); non-finite entries (garbage read through a broken view) become a
    value no model result can have, so that the case is reported as a mismatch instead of crashing the machinery"""
    np = _impl().np
    out = []
    for v in np.asarray(a, dtype=np.float64).ravel():
        if not np.isfinite(v):
            out.append("(1 # 3)")
            continue
        fr = Fraction(float(v))
        out.append("(%s # %d)" % ("(%d)" % fr.numerator if fr.numerator < 0 else str(fr.numerator), fr.denominator))
    return clist(out)


# ------------------------------------------------------------------ running the implementation
LAYOUTS = ("C", "R", "F", "K", "C", "B", "S", "P")
LAYOUT_DESCR = {"C": "a C-contiguous array", "F": "np.asfortranarray(x) (what a chain of transposes reversing all axes produces)",
                "S": "big[..., ::2] (strided last axis)", "R": "big[:, :, 2:-2, :] (rows cropped; 3-D: big[:, :, 1:-1])",
                "K": "big[:, 1:1+C] (channel slice)", "B": "big[::2] (every other batch entry)", "P": "y.transpose(0, 1) of a (C, N, ...) array"}
FILL = 7777.0       # what lies next to the operand in the parent buffer of a view: reading it must show


DTYPES = ((None, "f64"), ("f32", "f64"), ("f64", "f32"), (None, "f32"))     # (dtype of a preceding call on the same geometry | None, dtype of the judged call)


def np_dtype(name):
    np = _impl().np
    return {"f64": np.float64, "f32": np.float32, None: np.float64}[name]


def T(a, requires_grad=False, layout="C", dtype="f64"):
    """float64 Tensor with the given values in one of several memory layouts (see LAYOUT_DESCR): contiguous, Fortran order, or a
    non-contiguous view of a larger buffer — with a strided last axis ('S') or with a still dense last axis ('R', 'K', 'B', 'P').
    The ops must not depend on the memory layout of their operands."""
    impl = _impl()
    np = impl.np
    dt = np_dtype(dtype)
    arr = np.array(a, dtype=dt)
    nd = arr.ndim
    if arr.size == 0 or nd == 0:
        return impl.synapgrad.Tensor(arr, requires_grad=requires_grad)
    if layout == "F" and nd > 1:
        arr = np.asfortranarray(arr)
    elif layout == "S":
        big = np.full(arr.shape[:-1] + (2 * arr.shape[-1],), FILL, dtype=dt)
        big[..., ::2] = arr
        arr = big[..., ::2]
    elif layout == "R" and nd >= 3:
        if nd == 4:
            big = np.full(arr.shape[:2] + (arr.shape[2] + 4, arr.shape[3]), FILL, dtype=dt)
            big[:, :, 2:-2, :] = arr
            arr = big[:, :, 2:-2, :]
        else:
            big = np.full(arr.shape[:-1] + (arr.shape[-1] + 2,), FILL, dtype=dt)
            big[..., 1:-1] = arr
            arr = big[..., 1:-1]
    elif layout == "K" and nd >= 2:
        big = np.full((arr.shape[0], arr.shape[1] + 2) + arr.shape[2:], FILL, dtype=dt)
        big[:, 1:1 + arr.shape[1]] = arr
        arr = big[:, 1:1 + arr.shape[1]]
    elif layout == "B":
        big = np.full((2 * arr.shape[0],) + arr.shape[1:], FILL, dtype=dt)
        big[::2] = arr
        arr = big[::2]
    elif layout == "P" and nd >= 2:
        arr = np.ascontiguousarray(arr.swapaxes(0, 1)).swapaxes(0, 1)
    return impl.synapgrad.Tensor(arr, requires_grad=requires_grad)


# ------------------------------------------------------------------ isolation: calls on non-contiguous operands run in a worker process
class _Worker:
    """A forked worker that executes implementation calls; if a call kills the interpreter (out-of-bounds strided view ...) the
    parent sees the pipe close, reports ('crash', description) for that call and forks a new worker for the next one."""

    def __init__(self):
        self.pid = None

    def start(self):
        import pickle
        r1, w1 = os.pipe()
        r2, w2 = os.pipe()
        pid = os.fork()
        if pid == 0:
            os.close(w1); os.close(r2)
            fin, fout = os.fdopen(r1, "rb"), os.fdopen(w2, "wb")
            while True:
                try:
                    f, a, k = pickle.load(fin)
                except Exception:       # noqa: BLE001  (EOF: the parent is gone)
                    os._exit(0)
                try:
                    res = ("ok", f(*a, **k))
                except Exception as ex:      # noqa: BLE001
                    res = ("raises", type(ex).__name__)
                try:
                    pickle.dump(res, fout); fout.flush()
                except Exception:       # noqa: BLE001
                    os._exit(1)
        os.close(r1); os.close(w2)
        self.fin, self.fout, self.pid = os.fdopen(r2, "rb"), os.fdopen(w1, "wb"), pid

    def stop(self):
        if self.pid is None:
            return None
        for fh in (self.fout, self.fin):
            try:
                fh.close()
            except Exception:       # noqa: BLE001
                pass
        try:
            _, status = os.waitpid(self.pid, 0)
        except ChildProcessError:
            status = 0
        self.pid = None
        return status

    def call(self, f, a, k):
        import pickle
        if self.pid is None:
            self.start()
        try:
            pickle.dump((f, a, k), self.fout); self.fout.flush()
            return pickle.load(self.fin)
        except (EOFError, BrokenPipeError, pickle.UnpicklingError, OSError):
            status = self.stop()
            if status is not None and os.WIFSIGNALED(status):
                return ("crash", "interpreter killed by signal %d" % os.WTERMSIG(status))
            return ("crash", "interpreter exited with status %s" % (status,))


_WORKER = _Worker()


def describe_call(f, P):
    g = P.get("g", {})
    geo = ", ".join("%s=%s" % (k, g[k]) for k in g)
    dts = "dtype %s" % P.get("dtype", "f64") + (" after a %s call on the same geometry" % P["pre_dtype"] if P.get("pre_dtype") else "")
    return "%s(%s) on x = %s, %s; geometry %s" % (getattr(f, "__name__", "call"), P.get("op"), LAYOUT_DESCR.get(P.get("layout", "C")), dts, geo)


def call(f, *a, **k):
    """('ok', value) | ('raises', ExceptionName) | ('crash', description).  A call whose first argument is a payload with a
    non-C-contiguous operand layout is executed in the worker process, so that an interpreter crash becomes a result."""
    P = a[0] if a and isinstance(a[0], dict) else None
    if P is not None and (P.get("layout", "C") != "C" or P.get("pre_dtype") or P.get("dtype", "f64") != "f64" or os.environ.get("VERIF_ISOLATE_ALL")):
        r = _WORKER.call(f, a, k)
        if r[0] == "crash":
            return ("crash", "%s in %s" % (r[1], describe_call(f, P)))
        return r
    try:
        return ("ok", f(*a, **k))
    except Exception as ex:      # noqa: BLE001  (every exception is a rejection)
        return ("raises", type(ex).__name__)


CRASH_EXPECTED = "a result or a Python exception (the op must not depend on the memory layout of its operand)"


def fwd_bwd(build, gshape_rng=None, upstream=None):
    """build() -> (out_tensor, [input tensors]).  Returns dict(out=, grads=[...]) with backward(upstream) applied."""
    impl = _impl()
    out, ins = build()
    res = {"out": impl.np.array(out.data, dtype=impl.np.float64)}
    if upstream is not None:
        out.backward(impl.synapgrad.Tensor(impl.np.array(upstream, dtype=impl.np.float64)))
        res["grads"] = [None if t is None else impl.np.array(t.grad.data, dtype=impl.np.float64) for t in ins]
    return res


def parse_natlists(out):
    flat = " ".join(out.split())
    res = []
    for m in re.finditer(r"= \[(.*?)\]\s*:\s*list nat", flat):
        body = m.group(1).replace("%nat", "").strip()
        res.append([int(x) for x in body.split(";") if x.strip()])
    return res


def run_bool_cases(ctx, prefix, terms, timeout=900):
    """terms: list of Coq terms of type bool ('the model agrees with the recorded implementation output').
    Returns the sorted list of indices whose term does not evaluate to true (or all indices of a file that failed to compile)."""
    files = []
    for k in range(0, len(terms), CHUNK):
        chunk = terms[k:k + CHUNK]
        body = ";\n ".join(chunk)
        txt = HEADER + "Definition cases : list bool :=\n [%s].\nEval vm_compute in (mismatches (fun b : bool => b) Bool.eqb (flags cases)).\n" % body
        files.append(("%s_%d" % (prefix, k // CHUNK), txt))
    res = ctx.coq_eval_many(files, timeout=timeout)
    bad = []
    errors = []
    for (name, _), k in zip(files, range(0, len(terms), CHUNK)):
        ok, out = res[name]
        lists = parse_natlists(out)
        if not ok or len(lists) != 1:
            errors.append({"file": name, "error": out[-500:]})
            bad.extend(range(k, min(k + CHUNK, len(terms))))
        else:
            bad.extend(k + i for i in lists[0])
    return sorted(bad), errors


# ====================================================================================================================
# Payloads.  A payload P is a JSON-able dict describing one call:
#   op        : conv2d | conv1d | max_pool2d | avg_pool2d | max_pool1d | avg_pool1d | unfold | fold
#   g         : geometry dict (2-D: N,C,H,W,kH,kW,sH,sW,pH,pW,dH,dW; 1-D: N,C,W,k,s,p,d)
#   x, w, b   : nested lists (b may be None), Co for conv;  y for fold;  pv for unfold;  up: upstream gradient (backward)
#   form      : 'tuple' | 'int'   how the geometry arguments are passed to the functional op (int only when both axes agree)
# ====================================================================================================================
def is2d(op):
    return op in ("conv2d", "max_pool2d", "avg_pool2d", "unfold", "fold")


def geo_args(P):
    """the four geometry arguments as the call passes them"""
    g = P["g"]
    if is2d(P["op"]):
        ks, st, pd, dl = (g["kH"], g["kW"]), (g["sH"], g["sW"]), (g["pH"], g["pW"]), (g["dH"], g["dW"])
        if P.get("form") == "int":
            f = lambda t: t[0] if t[0] == t[1] else t
            ks, st, pd, dl = f(ks), f(st), f(pd), f(dl)
        return ks, st, pd, dl
    return g["k"], g["s"], g["p"], g["d"]


def forward_tensors(P, requires_grad, dtype):
    """the op of P applied to fresh tensors of the given dtype: (output tensor, {name: input tensor})"""
    impl = _impl()
    NF = impl.NF
    op = P["op"]
    ks, st, pd, dl = geo_args(P)
    ins = {}
    lay = P.get("layout", "C")
    if op in ("conv2d", "conv1d"):
        ins["x"] = T(P["x"], requires_grad, lay, dtype)
        ins["w"] = T(P["w"], requires_grad, "F" if lay == "S" else "C", dtype)
        if P.get("b") is not None:
            ins["b"] = T(P["b"], requires_grad, "C", dtype)
        f = NF.conv2d if op == "conv2d" else NF.conv1d
        out = f(ins["x"], ins["w"], ins.get("b"), st, pd, dl)
    elif op in ("max_pool2d", "avg_pool2d", "max_pool1d", "avg_pool1d"):
        ins["x"] = T(P["x"], requires_grad, lay, dtype)
        f = getattr(NF, op)
        if P.get("default_stride"):
            out = f(ins["x"], ks, None, pd, dl)
        else:
            out = f(ins["x"], ks, st, pd, dl)
    elif op == "unfold":
        ins["x"] = T(P["x"], requires_grad, lay, dtype)
        out = NF.unfold(ins["x"], ks, dl, st, pd, P.get("pv", 0))
    elif op == "fold":
        ins["x"] = T(P["y"], requires_grad, lay, dtype)
        out = NF.fold(ins["x"], (P["g"]["H"], P["g"]["W"]), ks, dl, st, pd)
    else:
        raise KeyError(op)
    return out, ins


def prewarm(P):
    """P['pre_dtype']: the same call (same geometry, same values) made once with another dtype before the judged call — results of a
    call must not depend on what was computed before it (state kept between calls: caches keyed by the geometry)"""
    if P.get("pre_dtype"):
        try:
            forward_tensors(P, False, P["pre_dtype"])
        except Exception:       # noqa: BLE001
            pass


def run_impl(P, backward=False):
    """Run the implementation. Returns dict(out=ndarray, grads={name: ndarray}); raises whatever the implementation raises."""
    impl = _impl()
    np, sg = impl.np, impl.synapgrad
    prewarm(P)
    dtype = P.get("dtype", "f64")
    out, ins = forward_tensors(P, backward, dtype)
    res = {"out": np.array(out.data, dtype=np.float64), "dtype": str(out.data.dtype)}
    if backward:
        out.backward(sg.Tensor(np.array(P["up"], dtype=np_dtype(dtype))))
        res["grads"] = {k: np.array(t.grad.data, dtype=np.float64) for k, t in ins.items()}
    return res


# ------------------------------------------------------------------ the defining formulas as a loop spec (independent of Coq and of as_strided)
def _g2(P):
    g = P["g"]
    if is2d(P["op"]):
        return g
    return dict(N=g["N"], C=g["C"], H=1, W=g["W"], kH=1, kW=g["k"], sH=1, sW=g["s"], pH=0, pW=g["p"], dH=1, dW=g["d"])


def _pad(x, g, val):
    np = _impl().np
    return np.pad(x, ((0, 0), (0, 0), (g["pH"], g["pH"]), (g["pW"], g["pW"])), mode="constant", constant_values=val)


def spec_forward(P):
    """Direct evaluation of the documented definition with Python loops over window and kernel offsets."""
    np = _impl().np
    op, g = P["op"], _g2(P)
    lH = out_size(g["H"], g["kH"], g["sH"], g["pH"], g["dH"])
    lW = out_size(g["W"], g["kW"], g["sW"], g["pW"], g["dW"])
    if lH < 1 or lW < 1:
        raise ValueError("empty output")
    one_d = not is2d(op)
    def a4(v):
        v = np.array(v, dtype=np.float64)
        return v[:, :, None, :] if one_d else v
    if op in ("conv2d", "conv1d"):
        x, w = a4(P["x"]), a4(P["w"])
        Co = w.shape[0]
        xp = _pad(x, g, 0.0)
        out = np.zeros((g["N"], Co, lH, lW))
        for i in range(lH):
            for j in range(lW):
                for a in range(g["kH"]):
                    for b in range(g["kW"]):
                        out[:, :, i, j] += xp[:, :, i * g["sH"] + a * g["dH"], j * g["sW"] + b * g["dW"]] @ w[:, :, a, b].T
        if P.get("b") is not None:
            out += np.array(P["b"], dtype=np.float64).reshape(1, -1, 1, 1)
    elif op in ("max_pool2d", "max_pool1d", "avg_pool2d", "avg_pool1d"):
        x = a4(P["x"])
        ismax = op.startswith("max")
        xp = _pad(x, g, -np.inf if ismax else 0.0)
        out = np.full((g["N"], g["C"], lH, lW), -np.inf if ismax else 0.0)
        for i in range(lH):
            for j in range(lW):
                for a in range(g["kH"]):
                    for b in range(g["kW"]):
                        v = xp[:, :, i * g["sH"] + a * g["dH"], j * g["sW"] + b * g["dW"]]
                        out[:, :, i, j] = np.maximum(out[:, :, i, j], v) if ismax else out[:, :, i, j] + v
        if not ismax:
            out = out / (g["kH"] * g["kW"])
    elif op == "unfold":
        x = a4(P["x"])
        xp = _pad(x, g, float(P.get("pv", 0)))
        out = np.zeros((g["N"], g["C"] * g["kH"] * g["kW"], lH * lW))
        for c in range(g["C"]):
            for a in range(g["kH"]):
                for b in range(g["kW"]):
                    for i in range(lH):
                        for j in range(lW):
                            out[:, (c * g["kH"] + a) * g["kW"] + b, i * lW + j] = xp[:, c, i * g["sH"] + a * g["dH"], j * g["sW"] + b * g["dW"]]
        return out
    elif op == "fold":
        y = np.array(P["y"], dtype=np.float64)
        img = np.zeros((g["N"], g["C"], g["H"] + 2 * g["pH"], g["W"] + 2 * g["pW"]))
        if y.shape != (g["N"], g["C"] * g["kH"] * g["kW"], lH * lW):
            raise ValueError("fold: inconsistent shapes")
        for c in range(g["C"]):
            for a in range(g["kH"]):
                for b in range(g["kW"]):
                    for i in range(lH):
                        for j in range(lW):
                            img[:, c, i * g["sH"] + a * g["dH"], j * g["sW"] + b * g["dW"]] += y[:, (c * g["kH"] + a) * g["kW"] + b, i * lW + j]
        return img[:, :, g["pH"]:g["pH"] + g["H"], g["pW"]:g["pW"] + g["W"]]
    else:
        raise KeyError(op)
    return out[:, :, 0, :] if one_d else out


def spec_scalar(P, arrays):
    """<up, f(arrays)> for finite differences: arrays overrides the inputs of P"""
    np = _impl().np
    Q = dict(P)
    Q.update(arrays)
    out = spec_forward(Q)
    up = np.array(P["up"], dtype=np.float64)
    m = np.isfinite(out)         # a max-pool window that lies in the padding entirely is constant -inf: it contributes no derivative
    return float((out[m] * up[m]).sum())


def impl_scalar(P, arrays):
    """<up, F(arrays)> with F the implementation's own forward (the function whose derivative C02 is about)"""
    np = _impl().np
    Q = dict(P)
    Q.update(arrays)
    Q["layout"] = "C"        # the derivative of the computed function, on contiguous float64 copies (calls on views / mixed dtypes are isolated elsewhere)
    Q["dtype"] = "f64"; Q.pop("pre_dtype", None)
    out = run_impl(Q)["out"]
    up = np.array(P["up"], dtype=np.float64)
    m = np.isfinite(out)
    return float((out[m] * up[m]).sum())


def fd_grads(P, names, eps, scalar=None):
    """float64 central differences of <up, f> w.r.t. the named inputs, f = the loop spec or (scalar=impl_scalar) the implementation's
    forward; exact for the (piecewise) linear ops on integer data when eps is a power of two small enough not to change any arg-max"""
    np = _impl().np
    spec_scalar_ = scalar or spec_scalar
    res = {}
    for nm in names:
        base = np.array(P[nm], dtype=np.float64)
        gr = np.zeros_like(base)
        it = np.nditer(base, flags=["multi_index"])
        for _ in it:
            idx = it.multi_index
            hi = base.copy(); hi[idx] += eps
            lo = base.copy(); lo[idx] -= eps
            gr[idx] = (spec_scalar_(P, {nm: hi.tolist()}) - spec_scalar_(P, {nm: lo.tolist()})) / (2 * eps)
        res[nm] = gr
    return res


# ------------------------------------------------------------------ PyTorch oracle
def torch_applicable(P):
    """PyTorch has the same op for this configuration (pools: pad <= kernel/2; avg pool has no dilation)"""
    op, g = P["op"], _g2(P)
    if "pool" in op:
        if 2 * g["pH"] > g["kH"] or 2 * g["pW"] > g["kW"]:
            return False
        if op.startswith("avg") and (g["dH"], g["dW"]) != (1, 1):
            return False
        # a dilation wider than the input lets a window jump over the whole input (all cells padding, result -inf); PyTorch's
        # max-pool backward then writes through the index -1 (heap corruption observed with torch 2.14): never ask torch there
        if op.startswith("max") and ((g["kH"] > 1 and g["dH"] > g["H"]) or (g["kW"] > 1 and g["dW"] > g["W"])):
            return False
    if op == "unfold" and P.get("pv", 0) != 0:
        return False
    return True


def run_torch(P, backward=False):
    import torch
    import torch.nn.functional as F
    np = _impl().np
    op, g = P["op"], P["g"]
    tt = lambda v: torch.tensor(np.array(v, dtype=np.float64), dtype=torch.float64, requires_grad=backward)
    ins = {}
    if is2d(op):
        ks, st, pd, dl = (g["kH"], g["kW"]), (g["sH"], g["sW"]), (g["pH"], g["pW"]), (g["dH"], g["dW"])
    else:
        ks, st, pd, dl = g["k"], g["s"], g["p"], g["d"]
    if op in ("conv2d", "conv1d"):
        ins["x"], ins["w"] = tt(P["x"]), tt(P["w"])
        if P.get("b") is not None:
            ins["b"] = tt(P["b"])
        f = F.conv2d if op == "conv2d" else F.conv1d
        out = f(ins["x"], ins["w"], ins.get("b"), st, pd, dl)
    elif op.startswith("max_pool"):
        ins["x"] = tt(P["x"])
        out = getattr(F, op)(ins["x"], ks, st, pd, dl)
    elif op.startswith("avg_pool"):
        ins["x"] = tt(P["x"])
        out = getattr(F, op)(ins["x"], ks, st, pd, count_include_pad=True)
    elif op == "unfold":
        ins["x"] = tt(P["x"])
        out = F.unfold(ins["x"], ks, dl, pd, st)
    elif op == "fold":
        ins["x"] = tt(P["y"])
        out = F.fold(ins["x"], (g["H"], g["W"]), ks, dl, pd, st)
    res = {"out": out.detach().numpy().copy()}
    if backward:
        out.backward(torch.tensor(np.array(P["up"], dtype=np.float64)))
        res["grads"] = {k: t.grad.detach().numpy().copy() for k, t in ins.items()}
    return res


def close(a, b, tol=1e-9):
    np = _impl().np
    a, b = np.asarray(a, dtype=np.float64), np.asarray(b, dtype=np.float64)
    if a.shape != b.shape:
        return False
    with np.errstate(invalid="ignore"):
        same_inf = (np.isinf(a) | np.isinf(b))
        if np.any(same_inf) and not np.array_equal(a[same_inf], b[same_inf]):
            return False
        fin = ~same_inf
        return bool(np.all(np.abs(a[fin] - b[fin]) <= tol * (1 + np.abs(b[fin]))))


def tolist(a):
    np = _impl().np
    a = np.asarray(a, dtype=np.float64)
    return json.loads(json.dumps(a.tolist()).replace("-Infinity", '"-inf"').replace("Infinity", '"inf"').replace("NaN", '"nan"'))


def spec_accepts(P):
    """documented acceptance: right ranks/shapes, positive geometry, at least one window per axis"""
    np = _impl().np
    g = _g2(P)
    if min(g["kH"], g["kW"], g["sH"], g["sW"], g["dH"], g["dW"]) < 1 or min(g["pH"], g["pW"]) < 0:
        return False
    if out_size(g["H"], g["kH"], g["sH"], g["pH"], g["dH"]) < 1 or out_size(g["W"], g["kW"], g["sW"], g["pW"], g["dW"]) < 1:
        return False
    want = 4 if is2d(P["op"]) else 3
    if P["op"] == "fold":
        y = np.array(P["y"])
        lH = out_size(g["H"], g["kH"], g["sH"], g["pH"], g["dH"]); lW = out_size(g["W"], g["kW"], g["sW"], g["pW"], g["dW"])
        return y.ndim == 3 and y.shape[1] > 0 and y.shape[1] % (g["kH"] * g["kW"]) == 0 and y.shape[2] == lH * lW
    if np.array(P["x"]).ndim != want:
        return False
    if P["op"] in ("conv2d", "conv1d"):
        w = np.array(P["w"])
        if w.ndim != want or w.shape[1] != np.array(P["x"]).shape[1]:
            return False
    return True


def oracle_forward(P, observed):
    """Judge a forward call on the implementation without the Coq model.  observed = ('ok', ndarray) | ('raises', name).
    Returns None when the property holds on this call, otherwise dict(expected=, observed=, note=)."""
    acc = spec_accepts(P)
    if observed[0] == "crash":
        return {"expected": CRASH_EXPECTED, "observed": observed[1], "note": observed[1]}
    if observed[0] == "raises":
        if acc:
            return {"expected": "accepted (documented configuration with a non-empty output)", "observed": "raises " + observed[1],
                    "note": "documented configuration rejected"}
        return None
    if not acc:
        return {"expected": "raises (configuration cannot be honoured)", "observed": {"shape": list(observed[1].shape)}, "note": "accepted"}
    exp = spec_forward(P)
    if not close(observed[1], exp):
        bad_ref = True
    else:
        bad_ref = False
    bad_torch = None
    if torch_applicable(P):
        try:
            t = run_torch(P)["out"]
            bad_torch = not close(observed[1], t)
        except Exception as ex:     # noqa: BLE001
            bad_torch = None
    if bad_ref and bad_torch is not False:
        return {"expected": {"shape": list(exp.shape), "values": tolist(exp)}, "observed": {"shape": list(observed[1].shape), "values": tolist(observed[1])},
                "note": "differs from the defining formula" + (" and from torch" if bad_torch else " (torch has no such configuration)")}
    if bad_torch and not bad_ref:
        return None     # the loop spec and the implementation agree; torch differs: not taken as a witness (see notes)
    return None


def oracle_backward(P, grads, eps):
    """grads: {name: ndarray} from the implementation.  Witness only if finite differences AND torch autograd (when torch has the
    configuration) disagree with the implementation."""
    names = sorted(grads)
    pnames = {"x": "y" if P["op"] == "fold" else "x", "w": "w", "b": "b"}
    fd = fd_grads(P, [pnames[n] for n in names], eps, impl_scalar)      # derivative of the computed function
    tg = None
    if torch_applicable(P):
        try:
            tg = run_torch(P, backward=True)["grads"]
        except Exception:   # noqa: BLE001
            tg = None
    for n in names:
        f = fd[pnames[n]]
        bad_fd = not close(grads[n], f, 1e-7)
        bad_t = (tg is not None) and not close(grads[n], tg[n])
        if bad_fd and (bad_t or tg is None):
            return {"expected": {"input": n, "finite_differences": tolist(f), "torch": tolist(tg[n]) if tg is not None else None},
                    "observed": tolist(grads[n]), "note": "gradient of input '%s' is not the VJP" % n}
    return None


# ------------------------------------------------------------------ Coq terms
def bias_coq(b):
    return "None" if b is None else "(Some %s)" % zl(b)


def term_forward(P, observed):
    """Coq bool: the model's result equals the recorded implementation result (values, or 'raises')."""
    op, g = P["op"], P["g"]
    np = _impl().np
    G = geom2_coq(g) if is2d(op) else geom1_coq(g)
    if observed[0] == "crash":
        return "false"
    if observed[0] == "raises":
        acc = {"conv2d": "accepts_conv2d %d %d %d" % (np.array(P["x"]).ndim, np.array(P["w"]).ndim, np.array(P["w"]).shape[1] if np.array(P["w"]).ndim > 1 else -1),
               "conv1d": "accepts_conv1d %d %d %d" % (np.array(P["x"]).ndim, np.array(P["w"]).ndim, np.array(P["w"]).shape[1] if np.array(P["w"]).ndim > 1 else -1),
               }.get(op) if op.startswith("conv") else None
        if op.startswith("conv"):
            return "negb (%s %s)" % (acc, G)
        if op == "fold":
            y = np.array(P["y"])
            return "negb (fold_accepts %d %d %d %d %d %s)" % (y.shape[0], y.shape[1], y.shape[2], g["H"], g["W"], geo2_of(g))
        if "pool" in op:
            return "negb (accepts_pool%s %d %s)" % ("2d" if is2d(op) else "1d", np.array(P["x"]).ndim, G)
        return "negb (accepts2 %s && (%d =? 4))" % (G, np.array(P["x"]).ndim)
    out = observed[1]
    if op in ("conv2d", "conv1d"):
        Co = np.array(P["w"]).shape[0]
        sh = "(accepts_conv%s %d %d %d %s)" % ("2d" if is2d(op) else "1d", np.array(P["x"]).ndim, np.array(P["w"]).ndim, np.array(P["w"]).shape[1], G)
        if not is_integral(out):
            return "false"
        shape = ("shape4_eqb (out_shape2 %d %s) (Some (%s))" if is2d(op) else "shape3_eqb (out_shape1 %d %s) (Some (%s))") % (Co, G, ", ".join(str(s) for s in out.shape))
        return "%s && %s && zl_eqb (run_%s %s %d %s %s %s) %s" % (sh, shape, op, G, Co, zl(P["x"]), zl(P["w"]), bias_coq(P.get("b")), zl(out))
    if op in ("max_pool2d", "max_pool1d"):
        if not is_integral_or_neginf(out):
            return "false"
        shape = ("shape4_eqb (out_shape2 %d %s) (Some (%s))" if is2d(op) else "shape3_eqb (out_shape1 %d %s) (Some (%s))") % (g["C"], G, ", ".join(str(s) for s in out.shape))
        return "%s && ol_eqb (run_%s %s %s) %s" % (shape, op.replace("_", ""), G, zl(P["x"]), ozl(out))
    if op in ("avg_pool2d", "avg_pool1d"):
        shape = ("shape4_eqb (out_shape2 %d %s) (Some (%s))" if is2d(op) else "shape3_eqb (out_shape1 %d %s) (Some (%s))") % (g["C"], G, ", ".join(str(s) for s in out.shape))
        return "%s && qlq_eqb (run_%s %s %s) %s" % (shape, op.replace("_", ""), G, zl(P["x"]), ql(out))
    if op == "unfold":
        if not is_integral(out):
            return "false"
        return "shape3_eqb (unfold_shape %s) (Some (%s)) && zl_eqb (run_unfold %s %s %s) %s" % (
            G, ", ".join(str(s) for s in out.shape), G, cz(P.get("pv", 0)), zl(P["x"]), zl(out))
    if op == "fold":
        if not is_integral(out):
            return "false"
        y = np.array(P["y"])
        acc = "fold_accepts %d %d %d %d %d %s" % (y.shape[0], y.shape[1], y.shape[2], g["H"], g["W"], geo2_of(g))
        if not spec_accepts(P):
            # an argument of inconsistent shape that np.reshape happens to swallow (known finding): only the acceptance is modelled,
            # the values are garbage by any reading
            return acc
        return "%s && zl_eqb (run_fold %s %s) %s" % (acc, G, zl(P["y"]), zl(out))
    raise KeyError(op)


def geo2_of(g):
    return "{| g_k := (%d, %d); g_s := (%d, %d); g_p := (%d, %d); g_d := (%d, %d) |}" % (
        g["kH"], g["kW"], g["sH"], g["sW"], g["pH"], g["pW"], g["dH"], g["dW"])


def term_backward(P, grads):
    """Coq bool: the model's backward kernels give exactly the recorded gradients."""
    op, g = P["op"], P["g"]
    np = _impl().np
    G = geom2_coq(g) if is2d(op) else geom1_coq(g)
    for v in grads.values():
        if op.startswith("avg"):
            continue
        if not is_integral(v):
            return "false"
    if op in ("conv2d", "conv1d"):
        Co = np.array(P["w"]).shape[0]
        gb = zl(grads["b"]) if "b" in grads else zl(np.array(P["up"]).sum(axis=(0, 2, 3) if is2d(op) else (0, 2)))
        return "triple_eqb (run_%s_bwd %s %d %s %s %s) (%s, %s, %s)" % (op, G, Co, zl(P["x"]), zl(P["w"]), zl(P["up"]), zl(grads["x"]), zl(grads["w"]), gb)
    if op in ("max_pool2d", "max_pool1d"):
        return "zl_eqb (run_%s_bwd %s %s %s) %s" % (op.replace("_", ""), G, zl(P["x"]), zl(P["up"]), zl(grads["x"]))
    if op in ("avg_pool2d", "avg_pool1d"):
        return "qlq_eqb (run_%s_bwd %s %s) %s" % (op.replace("_", ""), G, zl(P["up"]), ql(grads["x"]))
    if op == "unfold":
        return "zl_eqb (run_unfold_bwd %s %s) %s" % (G, zl(P["up"]), zl(grads["x"]))
    if op == "fold":
        return "zl_eqb (run_fold_bwd %s %s) %s" % (G, zl(P["up"]), zl(grads["x"]))
    raise KeyError(op)


# ------------------------------------------------------------------ payload generation
def tie_rich(rng, shape, kind, mult=1):
    """integer-valued images in which pooling windows hold their maximum several times:
       small   values in {0,1,2};   relu   max(0, v) with v in -3..3 (many zeros, what follows a ReLU);
       const   constant blocks (the image is a coarse 2x2-block image);   flat   one value everywhere (ties across overlapping windows and
               along the -inf padding border);   neg   values in {-2,-1} (all below the zero a wrong pad value would contribute)"""
    np = _impl().np
    n = int(np.prod(shape))
    if kind == "small":
        v = [rng.randint(0, 2) for _ in range(n)]
    elif kind == "relu":
        v = [max(0, rng.randint(-3, 3)) for _ in range(n)]
    elif kind == "flat":
        c = rng.randint(-3, 3)
        v = [c] * n
    elif kind == "neg":
        v = [rng.randint(-2, -1) for _ in range(n)]
    else:   # const blocks along the last two axes
        arr = np.zeros(shape)
        it = np.ndindex(*shape[:-2]) if len(shape) > 2 else [()]
        for idx in it:
            hh, ww = (shape[-2] + 1) // 2, (shape[-1] + 1) // 2
            blocks = np.array([[rng.randint(-2, 2) for _ in range(ww)] for _ in range(hh)], dtype=np.float64)
            arr[idx] = np.kron(blocks, np.ones((2, 2)))[:shape[-2], :shape[-1]]
        return arr * mult
    return (np.array(v, dtype=np.float64) * mult).reshape(shape)


TIE_KINDS = ("small", "relu", "const", "flat", "neg")


def make_payload(rng, op, g, bias=True, form="tuple", data="ints", layout="C", dtypes=(None, "f64"), zero_bias=False):
    """integer-valued inputs for op on geometry g (avg pools: multiples of the kernel size so that every mean is an integer is NOT
    needed: results are compared as exact rationals)"""
    np = _impl().np
    P = {"op": op, "g": dict(g), "form": form, "layout": layout, "dtype": dtypes[1]}
    if dtypes[0]:
        P["pre_dtype"] = dtypes[0]
    if is2d(op):
        xs = (g["N"], g["C"], g["H"], g["W"])
    else:
        xs = (g["N"], g["C"], g["W"])
    if op in ("conv2d", "conv1d"):
        Co = 1 if zero_bias else rng.choice((1, 2, 3))
        P["x"] = ints(rng, xs).tolist()
        ws = (Co, g["C"], g["kH"], g["kW"]) if is2d(op) else (Co, g["C"], g["k"])
        P["w"] = ints(rng, ws, -4, 4).tolist()
        P["b"] = ints(rng, (Co,), -20, 20).tolist() if bias else None
        if zero_bias:
            P["b"] = [0.0]          # one output channel whose bias is exactly zero: still an operand (it must receive its gradient)
    elif op == "fold":
        lH = out_size(g["H"], g["kH"], g["sH"], g["pH"], g["dH"]); lW = out_size(g["W"], g["kW"], g["sW"], g["pW"], g["dW"])
        P["y"] = ints(rng, (g["N"], g["C"] * g["kH"] * g["kW"], max(lH, 0) * max(lW, 0))).tolist()
    else:
        mult = 1
        if op.startswith("avg"):     # every window sum divisible by the kernel size: the mean is an integer, float64 exact
            mult = g["kH"] * g["kW"] if is2d(op) else g["k"]
        if data in TIE_KINDS:
            P["x"] = tie_rich(rng, xs, data, mult).tolist()
        else:
            P["x"] = (distinct_ints(rng, xs, mult) if data == "distinct" else ints(rng, xs, -5, 5, mult)).tolist()
        if op == "unfold":
            P["pv"] = rng.choice((0, 0, -7))
    return P


def add_upstream(rng, P, out_shape):
    """distinct (hence non-uniform) integer upstream gradient; multiples of the kernel size for the average pools (g/k exact)"""
    g, op = P["g"], P["op"]
    mult = 1
    if op.startswith("avg"):
        mult = g["kH"] * g["kW"] if is2d(op) else g["k"]
    P["up"] = distinct_ints(rng, out_shape, mult).tolist()
    return P
