"""Elementwise (scalar) kernels of synapgrad/cpu_ops.py -- shared machinery of C01 (family 3), C02 (elementwise
part) and C09 (scalar part).  NOT a registered property check by itself; checks/c01.py, c02.py, c09.py call

    run_part(ctx, "Props/C01_scalar.v")      # or C02_scalar.v / C09_scalar.v

which (a) runs the translator lib/py2coq/gen_kernels.py (Gen/GenKernels.v, GenExprs.v, GenKernelUse.v,
GenOverloads.v), (b) self-checks it (independent float evaluator of the IR vs the real kernels / wrappers /
operator overloads, relative 1e-12; this validates the translator, it is not a theorem), (c) builds the given
Props file, (d) runs the oracle on the implementation:
   C01/C02  .grad of every elementwise op of the public API through real Tensors (both dtypes, non-uniform
            upstream gradient, negative operands, broadcasting and scalar operands, kinks excluded) against
            float64 central finite differences of the implementation's own forward AND PyTorch autograd
            (a witness needs both to disagree);
   C09      values and gradients of sigmoid/tanh/selu/bce-with-logits for |x| <= 1e4 (float32 and float64)
            against an mpmath 60-digit reference: finite and |err| <= 1e-5 * max(1,|x|).
"""
import itertools, json, math, os
from fractions import Fraction

from lib import common

GEN_FILES = ["GenKernels.v", "GenExprs.v", "GenKernelUse.v", "GenOverloads.v"]
EXTRA_TARGETS = ["Analysis/RealOps.vo", "Analysis/Expr.vo", "Analysis/Derive.vo"]

_cache = {}


# ================================================================================================
# (a) translator
def translate(ctx):
    """Regenerate the Gen files.  On failure the stale files are removed (so that no theorem can be discharged
    against an outdated translation) and the failure is recorded as a broken tie."""
    if "T" in _cache:
        return _cache["T"]
    from lib.py2coq import gen_kernels
    from lib.py2coq.expr import Untranslatable
    try:
        T = gen_kernels.generate()
        kt, wrappers, wdefs, wskipped, ot = T
        ctx.extra.setdefault("translator", {})["kernels"] = {
            "translated": sorted(kt.kernels), "skipped": [s[0] for s in kt.skipped],
            "wrappers": sorted(wrappers), "wrappers_skipped": [s[0] for s in wskipped],
            "overloads": [d[0] for d in ot.defs], "overloads_skipped": [s[0] for s in ot.skipped]}
    except Untranslatable as u:
        for f in GEN_FILES:               # sources AND compiled files: a stale .vo must not satisfy the dependants
            for ext in (".v", ".vo", ".vos", ".vok", ".glob"):
                try:
                    os.remove(os.path.join(common.COQ, "Gen", f[:-2] + ext))
                except FileNotFoundError:
                    pass
        ctx.tie("py2coq/kernels", "translator", 1, 0, [{"untranslatable": str(u)}],
                note="the fail-closed translator rejected the current source; generated files removed")
        T = None
    _cache["T"] = T
    return T


# ================================================================================================
# (b) self-check
VALS = [-1e4, -745.25, -88.75, -30.0, -3.7, -1.0, -0.5, -1e-3, 0.0, 1e-3, 0.5, 1.0, 2.5, 30.0, 88.75, 709.0, 1e4]
SMALL = [-30.0, -3.7, -1.0, -0.5, 0.0, 1e-3, 0.5, 1.0, 2.5, 30.0]
PROB = [0.0, 1e-13, 1e-6, 0.25, 0.5, 0.9, 1 - 1e-9, 1.0]
SCALAR_PARAMS = {"n", "neg_slope", "negative_slope", "alpha", "scale"}


def domain(kernel, param):
    if param == "grad" or param == "g":
        return [1.0, -2.5, 0.75]
    if param == "n":
        return [0.5, 1.0, 2.0, 3.7, 10.0] if kernel.startswith("rpow") else [-2, -1, 0, 1, 2, 3, 0.5, -1.5, 2.5, 2.0, -1.0]
    if param in ("neg_slope", "negative_slope"):
        return [0.01, 0.2, 1.0, 0.0, 1.5]
    if param == "alpha":
        return [1.6732632423543772, 1.0, 0.5]
    if param == "scale":
        return [1.0507009873554805, 1.0, 2.0]
    if kernel.startswith(("bce_loss", "binary_cross_entropy")) and not kernel.startswith(("bce_with", "binary_cross_entropy_with")):
        return PROB if param == "y_pred" else [0.0, 1.0, 0.3]
    if kernel.startswith(("bce_with", "binary_cross_entropy_with")) and param == "y_true":
        return [0.0, 1.0, 0.3]
    if kernel.startswith(("pow", "rpow", "mul", "mse")) or param in ("b", "x2"):
        return SMALL if kernel.startswith(("pow", "rpow")) else VALS[2:-2]
    return VALS


def case_grid(rng, kernel, params, cap):
    doms = [domain(kernel, p) for p in params]
    total = 1
    for d in doms:
        total *= len(d)
    if total <= cap:
        return list(itertools.product(*doms))
    cases = set()
    # every value of every parameter at least once, the rest random
    for i, d in enumerate(doms):
        for v in d:
            cases.add(tuple(v if j == i else rng.choice(doms[j]) for j in range(len(doms))))
    while len(cases) < cap:
        cases.add(tuple(rng.choice(d) for d in doms))
    return sorted(cases, key=repr)


def close(r, v, rel=1e-12):
    if not math.isfinite(r):
        return False
    return abs(r - v) <= rel * max(abs(v), abs(r)) + 1e-300


def selfcheck(ctx, T):
    if "selfcheck" in _cache:
        return
    _cache["selfcheck"] = True
    from lib import impl
    from lib.py2coq import expr as X
    np = impl.np
    kt, wrappers, wdefs, wskipped, ot = T
    rng = ctx.rng
    cap = 250 if ctx.quick else 1500

    # ---- kernels ------------------------------------------------------------------------------------------
    mism, ncases, nontrivial, undefined = [], 0, 0, 0
    for k in kt.kernels.values():
        real = getattr(impl.cpu_ops, k.name)
        cases = case_grid(rng, k.name, k.params, cap)
        # group by the scalar parameters; array parameters are vectorised (1-d float64 arrays) ...
        sidx = [i for i, p in enumerate(k.params) if p in SCALAR_PARAMS]
        aidx = [i for i, p in enumerate(k.params) if p not in SCALAR_PARAMS]
        groups = {}
        for c in cases:
            groups.setdefault(tuple(c[i] for i in sidx), []).append(c)
        for skey, cs in groups.items():
            for zero_d in (False, True):        # ... and a few 0-d calls
                sub = cs[:3] if zero_d else cs
                batches = [[c] for c in sub] if zero_d else [sub]
                for batch in batches:
                    args = []
                    for pname in k.all_params:
                        if pname in k.dropped:
                            args.append(() if zero_d else (len(batch),))
                        else:
                            i = k.params.index(pname)
                            if i in sidx:
                                args.append(batch[0][i])
                            else:
                                col = np.array([float(c[i]) for c in batch], dtype=np.float64)
                                args.append(col.reshape(()) if zero_d else col)
                    with np.errstate(all="ignore"):
                        try:
                            out = real(*args)
                        except Exception as ex:
                            mism.append({"kernel": k.name, "args": repr(batch[0]), "raised": repr(ex)})
                            continue
                    outs = list(out) if isinstance(out, tuple) else [out]
                    if len(outs) != len(k.outs):
                        mism.append({"kernel": k.name, "outputs": len(outs), "translated": len(k.outs)})
                        continue
                    for oi, (ir, o) in enumerate(zip(k.outs, outs)):
                        o = np.broadcast_to(np.asarray(o, dtype=np.float64), (len(batch),) if not zero_d else ()).reshape(-1)
                        for ci, c in enumerate(batch):
                            ncases += 1
                            try:
                                v = X.evaluate(ir, dict(zip(k.params, [float(x) for x in c])), kt.kernels, kt.consts)
                            except X.Undefined:
                                undefined += 1
                                continue
                            if not math.isfinite(v):                 # float overflow of the evaluator itself
                                undefined += 1
                                continue
                            r = float(o[ci])
                            if v != 0.0 and abs(v) != 1.0:
                                nontrivial += 1
                            if not close(r, v):
                                mism.append({"kernel": k.out_names()[oi], "where": "%s:%d" % (k.file, k.lines[0]),
                                             "params": dict(zip(k.params, c)), "translator_IR_value": v, "implementation": r})
    ctx.tie("py2coq/kernels vs cpu_ops", "translator-selfcheck", ncases, nontrivial, mism,
            note="%d kernels; independent float evaluator of the IR vs the real kernel on 0-d/1-d float64 arrays, relative 1e-12; "
                 "%d cases outside the real-number model's domain (log/sqrt/power domain, float overflow of exp) skipped; "
                 "skipped (non-elementwise) functions: %s" % (len(kt.kernels), undefined, ", ".join(s[0] for s in kt.skipped)))
    ctx.sample({"kernel": "selu_backward", "generated": X.coq_shallow(kt.kernels["selu_backward"].outs[0], kt.kernels)})

    # ---- wrappers: what the closure adds to each input's .grad -------------------------------------------------
    sg = impl.synapgrad
    mism, ncases, nontrivial, undefined = [], 0, 0, 0
    consts = dict(kt.consts)
    for name, w in wrappers.items():
        for c, v in w.locals.items():
            consts["wrap_%s_%s" % (name, c)] = v
    wcap = 60 if ctx.quick else 400
    for name, w in wrappers.items():
        fn = getattr(impl.TF if w.file.endswith("synapgrad/functional.py") else impl.NF, name)
        defs = wdefs[name]
        formals = defs[0][1]
        kf = kt.kernels[w.fwd[0]]
        # the kernel parameter each formal feeds (for the choice of its domain)
        feeds = {}
        for pname, u in zip(kf.all_params, w.fwd[1]):
            if u[0] in ("in", "param"):
                feeds[u[1]] = pname
        cases = case_grid(rng, w.fwd[0], ["grad"] + [feeds.get(f, f) for f in formals], wcap)
        sidx = [i for i, f in enumerate(formals) if f in w.params]
        groups = {}
        for c in cases:
            groups.setdefault(tuple(c[1 + i] for i in sidx), []).append(c)
        for skey, cs in groups.items():
            g = np.array([c[0] for c in cs], dtype=np.float64)
            tens = {f: sg.Tensor(np.array([float(c[1 + i]) for c in cs], dtype=np.float64), requires_grad=True)
                    for i, f in enumerate(formals) if f in w.inputs}
            call = [tens[f] if f in w.inputs else cs[0][1 + formals.index(f)] for f in formals]
            with np.errstate(all="ignore"):
                try:
                    out = fn(*call)
                    out.backward(sg.Tensor(g))
                except Exception as ex:
                    mism.append({"wrapper": name, "args": repr(cs[0]), "raised": repr(ex)})
                    continue
            observed = {"wrap_%s_out" % name: np.asarray(out.data, dtype=np.float64)}
            for inp in w.inputs:
                if tens[inp]._grad is not None:
                    observed["wrap_%s_grad_%s" % (name, inp)] = np.asarray(tens[inp]._grad, dtype=np.float64)
            for dn, fs, ir in defs:
                if dn not in observed:
                    mism.append({"wrapper": name, "definition": dn, "implementation": "no gradient accumulated"})
                    continue
                for ci, c in enumerate(cs):
                    env = dict(zip(["g"] + formals, [float(x) for x in c]))
                    ncases += 1
                    try:
                        v = X.evaluate(ir, env, kt.kernels, consts)
                    except X.Undefined:
                        undefined += 1
                        continue
                    if not math.isfinite(v):
                        undefined += 1
                        continue
                    r = float(observed[dn][ci])
                    if v != 0.0 and abs(v) != 1.0:
                        nontrivial += 1
                    if not close(r, v):
                        mism.append({"wrapper": name, "definition": dn, "where": "%s:%d" % (w.file, w.lines[0]),
                                     "inputs": env, "translator_IR_value": v, "implementation": r})
            # inputs that received a gradient although the summary lists no accumulation for them
            for inp in w.inputs:
                if tens[inp]._grad is not None and ("wrap_%s_grad_%s" % (name, inp)) not in [d[0] for d in defs]:
                    if float(np.abs(np.nan_to_num(tens[inp]._grad)).sum()) != 0.0:
                        mism.append({"wrapper": name, "input": inp, "implementation": "received a gradient not present in the summary"})
    ctx.tie("py2coq/wrapper composites vs real Tensors", "translator-selfcheck", ncases, nontrivial, mism,
            note="%d wrappers: forward value and the gradient each input receives for an upstream g (float64 Tensors, backward(g)) "
                 "vs the evaluator on wrap_<op>_out / wrap_<op>_grad_<x>; %d out-of-domain cases skipped; wrappers outside this package: %s"
                 % (len(wrappers), undefined, ", ".join(s[0] for s in wskipped)))

    # ---- operator overloads --------------------------------------------------------------------------------------
    import operator
    OPS = {"__add__": operator.add, "__mul__": operator.mul, "__pow__": operator.pow, "__sub__": operator.sub,
           "__truediv__": operator.truediv, "__neg__": None,
           "__radd__": operator.add, "__rmul__": operator.mul, "__rsub__": operator.sub, "__rtruediv__": operator.truediv,
           "__rpow__": operator.pow}
    mism, ncases, nontrivial = [], 0, 0
    vals = [-3.5, -1.0, -0.25, 0.75, 2.0, 5.5, 0.1, -0.3]          # dyadic and non-dyadic operands
    for name, params, term, lines in ot.defs:
        if name == "_wrap_scalar":
            # value semantics of the scalar embedding: a Python number becomes a constant of the tensor's own floating dtype
            for a in vals + [3, 1e-30]:
                for dt in (np.float64, np.float32):
                    ncases += 1
                    nontrivial += 1
                    try:
                        r = sg.Tensor(np.array([1.0], dtype=dt))._wrap_scalar(a)
                        ok = r.data.dtype == dt and float(r.data) == float(np.asarray(a, dtype=dt)) and close(float(np.float64(r.data)) if dt == np.float64 else float(a), ot.evaluate(term, {params[0]: float(a)}), 1e-12)
                    except Exception as ex:
                        ok, r = False, ex
                    if not ok:
                        mism.append({"overload": name, "operand": a, "tensor_dtype": np.dtype(dt).name, "implementation": repr(getattr(r, "data", r)),
                                     "expected": "0-d constant of the tensor's dtype holding the scalar"})
            continue
        for a in vals:
            others = [None] if len(params) == 1 else ([0.5, 2.0, 3.0] if name == "__rpow__" else ([-2, -1, 0, 1, 2, 3] if name == "__pow__" else vals))
            for b in others:
                env = {params[0]: a}
                if b is not None:
                    env[params[1]] = float(b)
                try:
                    v = ot.evaluate(term, env)
                except X.Undefined:
                    continue
                variants = []
                A = sg.Tensor(np.array([a], dtype=np.float64))
                if name == "__neg__":
                    variants.append(("-T", lambda: -A))
                elif name.startswith("__r"):
                    variants.append(("number op T", lambda: OPS[name](b, A)))
                    if name != "__rpow__":       # F.rpow only accepts a Python int/float base (argument validation, not this package)
                        variants.append(("ndarray op T", lambda: OPS[name](np.array([b], dtype=np.float64), A)))
                elif name == "__pow__":
                    variants.append(("T ** number", lambda: A ** b))
                else:
                    variants.append(("T op number", lambda: OPS[name](A, b)))
                    variants.append(("T op T", lambda: OPS[name](A, sg.Tensor(np.array([b], dtype=np.float64)))))
                for label, f in variants:
                    ncases += 1
                    nontrivial += 1
                    with np.errstate(all="ignore"):
                        try:
                            r = f()
                            r = float(np.asarray(r.data, dtype=np.float64).reshape(-1)[0])
                        except Exception as ex:
                            mism.append({"overload": name, "variant": label, "operands": [a, b], "raised": repr(ex)})
                            continue
                    if not close(r, v, rel=1e-12):
                        mism.append({"overload": name, "variant": label, "operands": [a, b], "translator_IR_value": v, "implementation": r})
    ctx.tie("py2coq/operator overloads vs real Tensors", "translator-selfcheck", ncases, nontrivial, mism,
            note="forward value of each expansion on float64 Tensors (Tensor op Tensor, Tensor op Python number, number op Tensor, "
                 "ndarray op Tensor; dyadic and non-dyadic numbers) at relative 1e-12, and Tensor._wrap_scalar's value/dtype; skipped: %s"
                 % ", ".join(s[0] for s in ot.skipped))


# ================================================================================================
# (d1) VJP oracle: finite differences of the implementation's forward + PyTorch
def _torch():
    if "torch" not in _cache:
        try:
            import torch
            torch.set_num_threads(1)
            _cache["torch"] = torch
        except Exception:
            _cache["torch"] = None
    return _cache["torch"]


def op_table():
    """name -> (part, arity spec, call(M, F, *xs), domains).  M is synapgrad or torch, F the nn.functional namespace.
    A number in `operands` is a Python scalar operand; 'T' is a tensor operand."""
    t = []

    def op(name, part, operands, f, dom="any", tf=None):
        t.append({"name": name, "part": part, "operands": operands, "f": f, "tf": tf or f, "dom": dom})
    # ---- C01
    op("add", "C01", ["T", "T"], lambda M, F, a, b: a + b)
    op("add_scalar", "C01", ["T", 2.5], lambda M, F, a, b: a + b)
    op("radd_scalar", "C01", [-1.5, "T"], lambda M, F, a, b: a + b)
    op("sub", "C01", ["T", "T"], lambda M, F, a, b: a - b)
    op("sub_scalar", "C01", ["T", 0.75], lambda M, F, a, b: a - b)
    op("rsub_scalar", "C01", [2.5, "T"], lambda M, F, a, b: a - b)
    op("mul", "C01", ["T", "T"], lambda M, F, a, b: a * b)
    op("mul_scalar", "C01", ["T", -1.5], lambda M, F, a, b: a * b)
    op("rmul_scalar", "C01", [2.5, "T"], lambda M, F, a, b: a * b)
    op("div", "C01", ["T", "T"], lambda M, F, a, b: a / b, dom="nonzero")
    op("div_scalar", "C01", ["T", -2.5], lambda M, F, a, b: a / b)
    op("rdiv_scalar", "C01", [1.5, "T"], lambda M, F, a, b: a / b, dom="nonzero")
    op("neg", "C01", ["T"], lambda M, F, a: -a)
    # the functional forms (F.neg is NOT what the unary minus overload uses)
    op("neg_fn", "C01", ["T"], lambda M, F, a: M.neg(a))
    op("add_fn", "C01", ["T", "T"], lambda M, F, a, b: M.add(a, b))
    op("mul_fn", "C01", ["T", "T"], lambda M, F, a, b: M.mul(a, b))
    op("pow_fn_3", "C01", ["T"], lambda M, F, a: M.pow(a, 3))
    op("pow_fn_-1.5", "C01", ["T"], lambda M, F, a: M.pow(a, -1.5), dom="pos")
    op("rpow_fn_2.5", "C01", ["T"], lambda M, F, a: M.rpow(a, 2.5), tf=lambda M, F, a: M.pow(2.5, a))
    for n in (2, 3, 1, 0, -1, -2):
        op("pow_int_%d" % n, "C01", ["T"], (lambda n: lambda M, F, a: a ** n)(n), dom="nonzero")
    for n in (0.5, 2.5, -1.5, 2.0):
        op("pow_float_%s" % n, "C01", ["T"], (lambda n: lambda M, F, a: a ** n)(n), dom="pos" if n != 2.0 else "nonzero")
    for n in (2.0, 0.5, 3.7):
        op("rpow_%s" % n, "C01", ["T"], (lambda n: lambda M, F, a: n ** a)(n))
    op("exp", "C01", ["T"], lambda M, F, a: M.exp(a))
    op("log", "C01", ["T"], lambda M, F, a: M.log(a), dom="pos")
    op("sqrt", "C01", ["T"], lambda M, F, a: M.sqrt(a), dom="pos")
    op("clone", "C01", ["T"], lambda M, F, a: M.clone(a))
    op("exp_method", "C01", ["T"], lambda M, F, a: a.exp())
    op("log_method", "C01", ["T"], lambda M, F, a: a.log(), dom="pos")
    op("sqrt_method", "C01", ["T"], lambda M, F, a: a.sqrt(), dom="pos")
    op("composite_div_sub", "C01", ["T", "T"], lambda M, F, a, b: (a - b) / (b * b + 1.0) - a * 0.5)
    # ---- C02
    op("relu", "C02", ["T"], lambda M, F, a: F.relu(a), dom="nonzero")
    op("leaky_relu_default", "C02", ["T"], lambda M, F, a: F.leaky_relu(a), dom="nonzero")
    op("leaky_relu_0.2", "C02", ["T"], lambda M, F, a: F.leaky_relu(a, 0.2), dom="nonzero")
    op("leaky_relu_slope_1.5", "C02", ["T"], lambda M, F, a: F.leaky_relu(a, 1.5), dom="nonzero")   # any slope is accepted
    op("selu", "C02", ["T"], lambda M, F, a: F.selu(a), dom="nonzero")
    op("tanh", "C02", ["T"], lambda M, F, a: F.tanh(a), tf=lambda M, F, a: M.tanh(a))
    op("sigmoid", "C02", ["T"], lambda M, F, a: F.sigmoid(a), tf=lambda M, F, a: M.sigmoid(a))
    op("mse_loss", "C02", ["T", "T"], lambda M, F, a, b: F.mse_loss(a, b), tf=lambda M, F, a, b: F.mse_loss(a, b, reduction="none"), dom="same")
    op("binary_cross_entropy", "C02", ["T", "Y"], lambda M, F, a, b: F.binary_cross_entropy(a, b),
       tf=lambda M, F, a, b: F.binary_cross_entropy(a, b, reduction="none"), dom="prob")
    op("binary_cross_entropy_with_logits", "C02", ["T", "Y"], lambda M, F, a, b: F.binary_cross_entropy_with_logits(a, b),
       tf=lambda M, F, a, b: F.binary_cross_entropy_with_logits(a, b, reduction="none"), dom="same")
    return t


SHAPES1 = [(), (3,), (3, 4), (2, 1, 3)]
SHAPES2 = [((), ()), ((3,), (3,)), ((3, 4), (4,)), ((3, 1), (1, 4)), ((2, 3), ()), ((), (2, 2))]


def draw(rng, np, shape, dom, dtype):
    n = 1
    for s in shape:
        n *= s
    out = []
    for _ in range(n):
        if dom == "pos":
            v = rng.uniform(0.2, 3.0)
        elif dom == "prob":
            v = rng.uniform(0.05, 0.95)
        elif dom == "target":
            v = rng.choice([0.0, 1.0, rng.uniform(0.0, 1.0)])
        elif dom == "g":
            v = rng.choice([-1, 1]) * rng.uniform(0.3, 2.0)
        else:                                       # both signs, away from 0 (kinks, poles)
            v = rng.choice([-1, 1]) * rng.uniform(0.15, 3.0)
        out.append(v)
    # values are rounded to float32 first so that both dtypes see exactly the same reals
    return np.array(out, dtype=np.float32).astype(dtype).reshape(shape)


def run_vjp_case(impl, o, arrays, g, dtype):
    """Run op o on real Tensors. arrays: list of ndarray | python number.  Returns (out ndarray, [grad ndarray|None])."""
    sg, np = impl.synapgrad, impl.np
    xs = [sg.Tensor(a.copy(), requires_grad=True) if isinstance(a, np.ndarray) else a for a in arrays]
    out = o["f"](sg, impl.NF, *xs)
    out.backward(sg.Tensor(g.copy()))
    return out.data, [x._grad if isinstance(x, sg.Tensor) else None for x in xs]


def forward64(impl, o, arrays):
    sg, np = impl.synapgrad, impl.np
    xs = [sg.Tensor(np.asarray(a, dtype=np.float64)) if isinstance(a, np.ndarray) else a for a in arrays]
    with np.errstate(all="ignore"):
        return np.asarray(o["f"](sg, impl.NF, *xs).data, dtype=np.float64)


def fd_grads(impl, o, arrays, g):
    """float64 central differences of the implementation's own forward: d/dx_i <g, f(x)>"""
    np = impl.np
    res = []
    g64 = np.asarray(g, dtype=np.float64)
    for k, a in enumerate(arrays):
        if not isinstance(a, np.ndarray) or o["operands"][k] == "Y":
            res.append(None); continue
        a64 = np.asarray(a, dtype=np.float64)
        gr = np.zeros(a64.shape, dtype=np.float64)
        it = np.ndindex(*a64.shape) if a64.shape else [()]
        for idx in it:
            h = 1e-6 * max(1.0, abs(float(a64[idx])))
            ap, am = a64.copy(), a64.copy()
            ap[idx] += h; am[idx] -= h
            fp = forward64(impl, o, [ap if j == k else x for j, x in enumerate(arrays)])
            fm = forward64(impl, o, [am if j == k else x for j, x in enumerate(arrays)])
            gr[idx] = float(((fp - fm) * g64).sum()) / (2 * h)
        res.append(gr)
    return res


def torch_grads(impl, o, arrays, g):
    torch = _torch()
    if torch is None:
        return None
    np = impl.np
    xs = [torch.tensor(a, requires_grad=(o["operands"][k] != "Y")) if isinstance(a, np.ndarray) else a for k, a in enumerate(arrays)]
    out = o["tf"](torch, torch.nn.functional, *xs)
    out.backward(torch.tensor(g))
    grads = [x.grad.numpy() if (hasattr(x, "grad") and isinstance(x, torch.Tensor) and x.grad is not None) else None for x in xs]
    return grads, out.detach().numpy()


def disagree(np, got, ref, rtol, atol):
    if got is None or ref is None:
        return None
    got = np.asarray(got, dtype=np.float64); ref = np.asarray(ref, dtype=np.float64)
    if got.shape != ref.shape:
        return {"shape": [list(got.shape), list(ref.shape)]}
    S = max(1.0, float(np.abs(ref).max()) if ref.size else 1.0)
    bad = ~(np.abs(got - ref) <= rtol * np.abs(ref) + atol * S)      # NaN compares false -> bad
    if bad.any():
        idx = tuple(int(i) for i in np.argwhere(bad)[0])
        return {"index": list(idx), "got": float(got[idx]), "reference": float(ref[idx])}
    return None


def oracle_vjp(ctx, part):
    from lib import impl
    np = impl.np
    rng = ctx.rng
    ops = [o for o in op_table() if o["part"] == part]
    reps = 1 if ctx.quick else 4
    judged, found = 0, 0
    worst = {}
    for o in ops:
        ntens = sum(1 for x in o["operands"] if x in ("T", "Y"))
        shapes = [(s,) for s in SHAPES1] if ntens == 1 else SHAPES2
        if o["dom"] in ("same", "prob"):
            shapes = [(s, s) for s in SHAPES1]
        for dtype in (np.float64, np.float32):
            for shp in shapes:
                for _ in range(reps):
                    arrays, si = [], 0
                    for x in o["operands"]:
                        if x == "T":
                            arrays.append(draw(rng, np, shp[si], {"same": "any"}.get(o["dom"], o["dom"]), dtype)); si += 1
                        elif x == "Y":
                            arrays.append(draw(rng, np, shp[si], "target", dtype)); si += 1
                        else:
                            arrays.append(x)
                    out_shape = forward64(impl, o, arrays).shape
                    g = draw(rng, np, out_shape, "g", dtype)
                    judged += 1
                    w = judge_vjp(ctx, impl, o, arrays, g, dtype, worst)
                    if w:
                        found += 1
                        if found >= 5:
                            break
    ctx.extra.setdefault("oracle", {})["vjp_%s" % part] = {"ops": len(ops), "cases_judged": judged, "witnesses": found,
                                                           "torch": _torch() is not None, "worst_rel_dev_vs_fd": worst}
    return found


def oracle_scalar_operands(ctx):
    """float64 tensor (op) non-dyadic Python scalar must equal the NumPy float64 evaluation of the overload's expansion
    bit for bit (the scalar must not be rounded to float32 on the way).  A forward-value matter (C05/C10) that the overload theorems
    of C01 lean on; kept here because the expansions are this package's."""
    from lib import impl
    np, sg = impl.np, impl.synapgrad
    x = np.array([0.7, -1.3, 2.9, 1e-3, 123.456], dtype=np.float64)
    cases = [("x * 0.1", lambda t: t * 0.1, x * 0.1), ("x + 0.1", lambda t: t + 0.1, x + 0.1),
             ("x / 3.0", lambda t: t / 3.0, x * (3.0 ** -1)), ("2.5 - x", lambda t: 2.5 - t, (x * -1.0) + 2.5),
             ("0.3 / x", lambda t: 0.3 / t, (x ** -1) * 0.3), ("0.1 * x", lambda t: 0.1 * t, x * 0.1), ("x - 0.1", lambda t: t - 0.1, x + (-0.1))]
    found = 0
    for label, f, ref in cases:
        try:
            out = f(sg.Tensor(x.copy()))
            got = np.asarray(out.data)
            bad = got.dtype != np.float64 or not np.array_equal(got, ref)
            obs = {"dtype": str(got.dtype), "value": got.tolist()}
        except Exception as ex:
            bad, obs = True, {"raised": repr(ex)}
        if bad:
            found += bool(ctx.witness("tensor.scalar-operand", "scalar-precision", {"expression": label, "x": x.tolist(), "dtype": "float64"},
                                      {"numpy_float64_of_the_expansion": ref.tolist()}, obs,
                                      note="a Python-number operand of a float64 tensor must enter the expansion as a float64 constant"))
    ctx.extra.setdefault("oracle", {})["scalar_operands"] = {"expressions": [c[0] for c in cases], "witnesses": found}
    return found


def tolerances(np, dtype):
    return (1e-5, 1e-7) if dtype == np.float64 else (1e-3, 1e-4)


def judge_vjp(ctx, impl, o, arrays, g, dtype, worst=None):
    np = impl.np
    rtol, atol = tolerances(np, dtype)
    desc = {"op": o["name"], "dtype": np.dtype(dtype).name,
            "operands": [a.tolist() if isinstance(a, np.ndarray) else a for a in arrays], "g": g.tolist()}
    site = "%s.%s/backward" % ("functional" if o["part"] == "C01" else "nn.functional", o["name"])
    with np.errstate(all="ignore"):
        try:
            out, grads = run_vjp_case(impl, o, arrays, g, dtype)
        except Exception as ex:
            return ctx.witness(site, "backward-raises", desc, "forward accepted => backward(g) completes", {"raised": repr(ex)})
        fd = fd_grads(impl, o, arrays, g)
        tg = tout = None
        try:
            r = torch_grads(impl, o, arrays, g)
            if r is not None:
                tg, tout = r
        except Exception as ex:
            tg = None
    # if the forward value already differs from PyTorch's, PyTorch differentiates another function: its gradient is then no
    # reference for "the derivative of the function the forward pass computed" and finite differences decide alone
    d_v = None
    if tout is not None:
        d_v = disagree(np, out, tout, *((1e-6, 1e-9) if dtype == np.float64 else (1e-3, 1e-4)))   # gross semantic differences only
        if d_v:
            tg = None
    for k, a in enumerate(arrays):
        if not isinstance(a, np.ndarray) or o["operands"][k] == "Y":
            continue
        got = grads[k]
        if got is None:
            return ctx.witness(site, "no-gradient", dict(desc, operand=k), "operand receives the VJP", {"grad": None})
        d_fd = disagree(np, got, fd[k], rtol if dtype == np.float64 else 1e-3, atol if dtype == np.float64 else 1e-3)
        d_t = disagree(np, got, tg[k], rtol, atol) if tg is not None and tg[k] is not None else d_fd
        if worst is not None and fd[k] is not None and np.asarray(got).shape == fd[k].shape and fd[k].size:
            dev = float(np.max(np.abs(np.asarray(got, dtype=np.float64) - fd[k]) / (np.abs(fd[k]) + 1e-9)))
            key = "%s/%s" % (o["name"], np.dtype(dtype).name)
            if not (worst.get(key, 0.0) >= dev):
                worst[key] = dev
        if d_fd and d_t:
            return ctx.witness(site, "wrong-vjp", dict(desc, operand=k),
                               {"finite_differences": fd[k].tolist(), "torch": None if tg is None or tg[k] is None else np.asarray(tg[k]).tolist()},
                               {"grad": np.asarray(got).tolist(), "first_disagreement_fd": d_fd, "first_disagreement_torch": d_t},
                               note=("both references disagree with .grad beyond rtol=%g atol=%g" % (rtol, atol)) if not d_v else
                               "finite differences of the implementation's own forward disagree with .grad (PyTorch computes a different forward value here, so it is not a reference)")
    # the forward value itself against the reference implementation: not part of the VJP statement, but the overload
    # theorems (expansion = mathematical operation) are about it and a broken one needs a concrete input
    if tout is not None:
        if d_v and ctx.witness(site.replace("/backward", "/forward"), "forward-value", desc, {"torch_forward": np.asarray(tout).tolist()},
                               {"forward": np.asarray(out).tolist(), "first_disagreement": d_v},
                               note="forward result differs from the reference semantics (PyTorch); reported because a theorem about the computed function broke or as additional evidence"):
            return True
    return False


# ================================================================================================
# (d2) C09 oracle: mpmath reference for large magnitudes
SELU_ALPHA = "1.6732632423543772848170429916717"
SELU_SCALE = "1.0507009873554804934193349852946"
MAGS = [0.0, 1e-3, 0.5, 1.0, 5.0, 10.0, 17.0, 36.9, 50.0, 87.0, 87.5, 88.0, 88.5, 88.72, 88.73, 89.0, 90.0, 100.0, 103.0, 103.9, 104.0, 500.0,
        709.0, 709.8, 710.0, 745.0, 746.0, 1e3, 5e3, 1e4]


def c09_ops():
    import mpmath as mp
    mp.mp.dps = 60
    al, sc = mp.mpf(SELU_ALPHA), mp.mpf(SELU_SCALE)
    sig = lambda x: 1 / (1 + mp.exp(-x))
    dsig = lambda x, y: sig(x) * (1 - sig(x))
    selu_v = lambda x, y: sc * x if x > 0 else sc * al * (mp.exp(x) - 1)
    selu_d = lambda x, y: sc if x > 0 else sc * al * mp.exp(x)
    bce_v = lambda x, y: mp.log(1 + mp.exp(x)) - x * y
    bce_d = lambda x, y: sig(x) - y
    T3 = [0.0, 1.0, 0.25]
    return [
        {"name": "sigmoid", "f": lambda I, x, y: I.NF.sigmoid(x), "val": lambda x, y: sig(x), "der": dsig, "targets": [None]},
        {"name": "tanh", "f": lambda I, x, y: I.NF.tanh(x), "val": lambda x, y: mp.tanh(x), "der": lambda x, y: 1 - mp.tanh(x) ** 2, "targets": [None]},
        {"name": "selu", "f": lambda I, x, y: I.NF.selu(x), "val": selu_v, "der": selu_d, "targets": [None]},
        {"name": "binary_cross_entropy_with_logits", "f": lambda I, x, y: I.NF.binary_cross_entropy_with_logits(x, y), "val": bce_v, "der": bce_d, "targets": T3},
        # the layer / loss modules built on them
        {"name": "nn.Sigmoid", "f": lambda I, x, y: I.nn.Sigmoid()(x), "val": lambda x, y: sig(x), "der": dsig, "targets": [None]},
        {"name": "nn.Tanh", "f": lambda I, x, y: I.nn.Tanh()(x), "val": lambda x, y: mp.tanh(x), "der": lambda x, y: 1 - mp.tanh(x) ** 2, "targets": [None]},
        {"name": "nn.SELU", "f": lambda I, x, y: I.nn.SELU()(x), "val": selu_v, "der": selu_d, "targets": [None]},
        {"name": "nn.BCEWithLogitsLoss(reduction='none')", "f": lambda I, x, y: I.nn.BCEWithLogitsLoss(reduction="none")(x, y), "val": bce_v, "der": bce_d, "targets": [1.0, 0.25]},
    ]


def c09_eval(impl, o, xs, y, dtype, g):
    sg, np = impl.synapgrad, impl.np
    x = sg.Tensor(np.array(xs, dtype=dtype), requires_grad=True)
    t = None if y is None else sg.Tensor(np.full(len(xs), y, dtype=dtype))
    with np.errstate(all="ignore"):
        out = o["f"](impl, x, t)
        out.backward(sg.Tensor(np.array(g, dtype=dtype)))
    return np.asarray(out.data, dtype=np.float64), np.asarray(x._grad, dtype=np.float64), out.data.dtype, x._grad.dtype


ORDERS = [("float64", "float32"), ("float32", "float64")]


def c09_inputs(seed, quick, extra=()):
    import random
    rng = random.Random(seed)
    return sorted(set([s * m for m in MAGS for s in (1.0, -1.0)] + [float(v) for v in extra] +
                      [rng.choice([-1, 1]) * 10 ** rng.uniform(-2, 4) for _ in range(40 if quick else 400)]))


def c09_worker(order, seed, quick, extra=()):
    """Runs in a FRESH process (module-level state of the implementation starts empty): every op in dtype order[0], then every op
    in dtype order[1].  Returns {"report": per-op worst cases, "failures": [...]} (JSON-able)."""
    from lib import impl
    import mpmath as mp
    np = impl.np
    xs = c09_inputs(seed, quick, extra)
    report, failures = {}, []
    for dname in order:                       # dtype is the OUTER loop: all ops in the first dtype run before any op in the second
        dtype = np.dtype(dname).type
        for o in c09_ops():
            for y in o["targets"]:
                xr = [float(np.array(v, dtype=dtype)) for v in xs]          # the reals actually fed in
                g = [1.0 if i % 2 == 0 else -1.5 for i in range(len(xr))]
                key = "%s/%s%s" % (o["name"], dname, "" if y is None else "/y=%s" % y)
                site = ("nn.functional.%s" % o["name"]) if not o["name"].startswith("nn.") else o["name"]
                try:
                    val, grad, odt, gdt = c09_eval(impl, o, xr, y, dtype, g)
                except Exception as ex:
                    failures.append({"site": site, "class": "raises", "input": {"op": o["name"], "dtype": dname, "x": xr[:5], "y": y, "dtype_order": list(order)},
                                     "expected": "finite values and gradients", "observed": {"raised": repr(ex)}})
                    continue
                worst_v, worst_g = (0.0, None), (0.0, None)
                for i, xv in enumerate(xr):
                    mx = mp.mpf(xv)
                    my = None if y is None else mp.mpf(y)
                    rv, rg = o["val"](mx, my), o["der"](mx, my) * mp.mpf(g[i])
                    scale = max(1.0, abs(xv))
                    for kind, got, ref in (("value", val[i], rv), ("gradient", grad[i], rg)):
                        err = float(abs(mp.mpf(float(got)) - ref)) / scale if math.isfinite(got) else float("inf")
                        if kind == "value" and not (err <= worst_v[0]):
                            worst_v = (err, xv)
                        if kind == "gradient" and not (err <= worst_g[0]):
                            worst_g = (err, xv)
                        if not (err <= 1e-5):
                            failures.append({"site": site + ("" if kind == "value" else "/backward"), "class": "large-magnitude",
                                             "input": {"op": o["name"], "dtype": dname, "x": xv, "y": y, "g": g[i], "kind": kind, "dtype_order": list(order)},
                                             "expected": {"reference_60_digits": mp.nstr(ref, 20), "tolerance": "1e-5 * max(1,|x|)"},
                                             "observed": {"observed": float(got) if math.isfinite(got) else repr(float(got)), "error_relative_to_max(1,|x|)": err if math.isfinite(err) else "inf"}})
                report[key] = {"worst_value_err": worst_v[0] if math.isfinite(worst_v[0]) else "inf", "at_x": worst_v[1],
                               "worst_gradient_err": worst_g[0] if math.isfinite(worst_g[0]) else "inf", "grad_at_x": worst_g[1],
                               "n": len(xr), "out_dtype": str(odt), "grad_dtype": str(gdt)}
    return {"order": list(order), "inputs_per_op": len(xs), "report": report, "failures": failures}


def run_c09_worker(order, seed, quick, extra=()):
    """start the worker in a fresh interpreter (same VERIF_REPO) and read its JSON"""
    import subprocess
    cmd = [common.PY, "-m", "checks.kernels_scalar", "--c09-worker", ",".join(order), str(seed), "quick" if quick else "thorough", json.dumps(list(extra))]
    p = subprocess.Popen(cmd, cwd=common.ROOT, stdout=subprocess.PIPE, stderr=subprocess.PIPE, text=True, env=dict(os.environ, PYTHONHASHSEED="0", OMP_NUM_THREADS="1"))
    return p


def read_c09_worker(p, timeout=900):
    out, err = p.communicate(timeout=timeout)
    for l in out.splitlines():
        if l.startswith("C09WORKER "):
            return json.loads(l[len("C09WORKER "):])
    raise RuntimeError("C09 oracle worker produced no result (rc=%s): %s" % (p.returncode, (err or out)[-600:]))


def oracle_c09(ctx, extra_modules=True):
    """Order-aware: each dtype order (float64 then float32, float32 then float64) in its own fresh process, so that state kept by the
    implementation across calls (caches keyed too coarsely, globals) is exercised from empty in both directions."""
    procs = [(order, run_c09_worker(order, ctx.seed, ctx.quick)) for order in ORDERS]
    found, summary = 0, {}
    for order, p in procs:
        res = read_c09_worker(p)
        summary[" then ".join(order)] = {"worst": res["report"], "failures": len(res["failures"]), "inputs_per_op": res["inputs_per_op"]}
        for f in res["failures"]:
            if found < 5:
                found += bool(ctx.witness(f["site"], f["class"], f["input"], f["expected"], f["observed"],
                                          note="dtype order in a fresh process: all ops in %s first, then all ops in %s" % tuple(order)))
    ctx.extra.setdefault("oracle", {})["c09_scalar"] = {"max_magnitude": 1e4, "orders": summary,
                                                         "criterion": "finite and |observed - mpmath(60 digits)| <= 1e-5 * max(1,|x|), values and gradients, "
                                                                      "float32 and float64, each dtype order in a fresh subprocess"}
    return found


# ================================================================================================
# (d3) C06 oracle: forward VALUES of the public API against torch.nn.functional
FWD_SHAPES = [(), (1,), (5,), (3, 4), (2, 1, 3), (2, 3, 2)]


def fwd_table():
    """(name, kind 'act' | 'loss', synapgrad callable(I, x[, y]), torch callable(torch, TF, x[, y]), domain of x, domain of y)"""
    t = []
    A = lambda name, f, tf, dom="any0": t.append((name, "act", f, tf, dom, None))
    L = lambda name, f, tf, dom, ydom: t.append((name, "loss", f, tf, dom, ydom))
    A("F.relu", lambda I, x: I.NF.relu(x), lambda T, TF, x: TF.relu(x))
    A("nn.ReLU", lambda I, x: I.nn.ReLU()(x), lambda T, TF, x: TF.relu(x))
    for s in (None, 0.2, 1.5, 0.0):
        if s is None:
            A("F.leaky_relu", lambda I, x: I.NF.leaky_relu(x), lambda T, TF, x: TF.leaky_relu(x))
            A("nn.LeakyReLU", lambda I, x: I.nn.LeakyReLU()(x), lambda T, TF, x: TF.leaky_relu(x))
        else:
            A("F.leaky_relu(%s)" % s, (lambda s: lambda I, x: I.NF.leaky_relu(x, s))(s), (lambda s: lambda T, TF, x: TF.leaky_relu(x, s))(s))
            A("nn.LeakyReLU(%s)" % s, (lambda s: lambda I, x: I.nn.LeakyReLU(s)(x))(s), (lambda s: lambda T, TF, x: TF.leaky_relu(x, s))(s))
    A("F.selu", lambda I, x: I.NF.selu(x), lambda T, TF, x: TF.selu(x))
    A("nn.SELU", lambda I, x: I.nn.SELU()(x), lambda T, TF, x: TF.selu(x))
    A("F.tanh", lambda I, x: I.NF.tanh(x), lambda T, TF, x: T.tanh(x))
    A("nn.Tanh", lambda I, x: I.nn.Tanh()(x), lambda T, TF, x: T.tanh(x))
    A("F.sigmoid", lambda I, x: I.NF.sigmoid(x), lambda T, TF, x: T.sigmoid(x))
    A("nn.Sigmoid", lambda I, x: I.nn.Sigmoid()(x), lambda T, TF, x: T.sigmoid(x))
    L("F.mse_loss", lambda I, x, y: I.NF.mse_loss(x, y), lambda T, TF, x, y: TF.mse_loss(x, y, reduction="none"), "any0", "any0")
    L("F.binary_cross_entropy", lambda I, x, y: I.NF.binary_cross_entropy(x, y), lambda T, TF, x, y: TF.binary_cross_entropy(x, y, reduction="none"), "prob", "target")
    L("F.binary_cross_entropy_with_logits", lambda I, x, y: I.NF.binary_cross_entropy_with_logits(x, y),
      lambda T, TF, x, y: TF.binary_cross_entropy_with_logits(x, y, reduction="none"), "any0", "target")
    for red in ("mean", "sum", "none"):
        L("nn.MSELoss(%s)" % red, (lambda r: lambda I, x, y: I.nn.MSELoss(reduction=r)(x, y))(red), (lambda r: lambda T, TF, x, y: TF.mse_loss(x, y, reduction=r))(red), "any0", "any0")
        L("nn.BCELoss(%s)" % red, (lambda r: lambda I, x, y: I.nn.BCELoss(reduction=r)(x, y))(red), (lambda r: lambda T, TF, x, y: TF.binary_cross_entropy(x, y, reduction=r))(red), "prob", "target")
        L("nn.BCEWithLogitsLoss(%s)" % red, (lambda r: lambda I, x, y: I.nn.BCEWithLogitsLoss(reduction=r)(x, y))(red),
          (lambda r: lambda T, TF, x, y: TF.binary_cross_entropy_with_logits(x, y, reduction=r))(red), "any0", "target")
    return t


def draw_fwd(rng, np, shape, dom, dtype):
    n = 1
    for k in shape:
        n *= k
    vals = []
    for _ in range(n):
        if dom == "prob":
            v = rng.choice([rng.uniform(0.01, 0.99), rng.uniform(1e-4, 1e-2), 1 - rng.uniform(1e-4, 1e-2)])
        elif dom == "target":
            v = rng.choice([0.0, 1.0, rng.uniform(0.0, 1.0)])
        else:                        # both signs, the kink 0 itself, moderate and larger magnitudes
            v = rng.choice([0.0, rng.uniform(-3, 3), rng.uniform(-12, 12), -rng.uniform(0, 1e-3)])
        vals.append(v)
    return np.array(vals, dtype=np.float32).astype(dtype).reshape(shape)


def judge_forward(ctx, impl, row, x, y, dtype):
    np, torch = impl.np, _torch()
    name, kind, f, tf, dom, ydom = row
    sg = impl.synapgrad
    desc = {"op": name, "dtype": np.dtype(dtype).name, "x": x.tolist(), "y": None if y is None else y.tolist()}
    args = [sg.Tensor(x.copy())] + ([] if y is None else [sg.Tensor(y.copy())])
    targs = [torch.tensor(x)] + ([] if y is None else [torch.tensor(y)])
    site = "%s/forward" % name
    with np.errstate(all="ignore"):
        try:
            got = np.asarray(f(impl, *args).data)
        except Exception as ex:
            return ctx.witness(site, "forward-raises", desc, "a value", {"raised": repr(ex)})
    ref = tf(torch, torch.nn.functional, *targs).numpy()
    rtol, atol = (1e-9, 1e-11) if dtype == np.float64 else (2e-5, 2e-6)
    if ("BCELoss" in name or name.endswith("binary_cross_entropy")) and y is not None:
        # the documented epsilon guard log(p + eps), log(1 - p + eps) (eps = 1e-12, Props/C02_scalar.v bce section) moves each element by
        # at most eps / min(p, 1 - p); a reduction by at most the sum of these
        xs = np.asarray(x, dtype=np.float64)
        atol += 2e-12 * float(np.sum(1.0 / np.maximum(np.minimum(xs, 1.0 - xs), 1e-300)))
    d = disagree(np, got, ref, rtol, atol)
    if d:
        return ctx.witness(site, "forward-value", desc, {"torch": np.asarray(ref).tolist()}, {"value": got.tolist(), "first_disagreement": d},
                           note="differs from torch.nn.functional beyond rtol=%g atol=%g*max(1,|ref|)" % (rtol, atol))
    return False


def oracle_bce_corners(ctx):
    """the documented clamp of binary_cross_entropy: 100 at (p, y) = (0, 1) and (1, 0) ("for compatibility with pytorch"), in both dtypes.
    One site/class per dtype so that a known finding can name it."""
    from lib import impl
    np, sg, torch = impl.np, impl.synapgrad, _torch()
    found = 0
    for dtype in (np.float64, np.float32):
        p = np.array([0, 1, 0, 1, 0.5], dtype=dtype); y = np.array([1, 0, 0, 1, 1], dtype=dtype)
        with np.errstate(all="ignore"):
            got = np.asarray(impl.NF.binary_cross_entropy(sg.Tensor(p.copy()), sg.Tensor(y.copy())).data, dtype=np.float64)
        ref = torch.nn.functional.binary_cross_entropy(torch.tensor(p), torch.tensor(y), reduction="none").numpy().astype(np.float64)
        if not np.allclose(got, ref, rtol=1e-6, atol=1e-6):
            found += bool(ctx.witness("nn.functional.binary_cross_entropy/forward", "clamp-corner/%s" % np.dtype(dtype).name,
                                      {"op": "F.binary_cross_entropy", "dtype": np.dtype(dtype).name, "x": p.tolist(), "y": y.tolist()},
                                      {"torch": ref.tolist(), "documented": "100 where (y_pred, y_true) is (0,1) or (1,0)"}, {"value": got.tolist()},
                                      note="the clamp `loss == -np.log(epsilon)` is a float equality; theorem bce_forward_clamp is its real-number reading"))
    return found


def oracle_forward_values(ctx):
    from lib import impl
    np = impl.np
    if _torch() is None:
        ctx.notes.append("C06 scalar oracle skipped: PyTorch not importable")
        return 0
    corner = oracle_bce_corners(ctx)
    rng = ctx.rng
    reps = 1 if ctx.quick else 5
    judged = found = 0
    for row in fwd_table():
        for dtype in (np.float64, np.float32):
            for shp in FWD_SHAPES:
                for _ in range(reps):
                    x = draw_fwd(rng, np, shp, row[4], dtype)
                    y = None if row[1] == "act" else draw_fwd(rng, np, shp, row[5], dtype)
                    judged += 1
                    if judge_forward(ctx, impl, row, x, y, dtype):
                        found += 1
                if found >= 5:
                    break
    found += corner
    ctx.extra.setdefault("oracle", {})["forward_values_C06"] = {"api_entries": len(fwd_table()), "cases_judged": judged + 2, "witnesses": found, "bce_clamp_corner_witnesses": corner,
                                                                "shapes": [list(s) for s in FWD_SHAPES], "reference": "torch.nn.functional",
                                                                "tolerance": "float64 rtol 1e-9 / atol 1e-11, float32 rtol 2e-5 / atol 2e-6 (times max(1,|ref|))"}
    return found


# ================================================================================================
# (d4) C14 oracle: BCE-with-logits against BCE o sigmoid on the real library
def fused_sides(impl, x, y, g, dtype):
    sg, np = impl.synapgrad, impl.np
    X1 = sg.Tensor(np.array(x, dtype=dtype), requires_grad=True)
    X2 = sg.Tensor(np.array(x, dtype=dtype), requires_grad=True)
    Y = sg.Tensor(np.array(y, dtype=dtype))
    G = np.array(g, dtype=dtype)
    with np.errstate(all="ignore"):
        a = impl.NF.binary_cross_entropy_with_logits(X1, Y); a.backward(sg.Tensor(G.copy()))
        b = impl.NF.binary_cross_entropy(impl.NF.sigmoid(X2), Y); b.backward(sg.Tensor(G.copy()))
    return (np.asarray(a.data, dtype=np.float64), np.asarray(X1._grad, dtype=np.float64),
            np.asarray(b.data, dtype=np.float64), np.asarray(X2._grad, dtype=np.float64))


def fused_tolerances(xv, gv, dtype_name):
    """proved bound (reals) + allowance for the float evaluation of the composed side, which computes 1 - sigmoid(x) and
    ln(. + eps) and therefore loses a factor ~exp|x| of relative accuracy"""
    eps = 1e-12
    u = 2.0 ** -53 if dtype_name == "float64" else 2.0 ** -24
    e = math.exp(abs(xv))
    bound_v = eps * (2 + math.exp(xv) + math.exp(-xv))
    bound_g = abs(gv) * eps * (math.exp(xv) + math.exp(-xv))
    fl = 16 * u * (2 + e) * max(1.0, abs(xv))
    return bound_v + fl, bound_g + abs(gv) * fl, bound_v, bound_g


def oracle_fused(ctx):
    from lib import impl
    np = impl.np
    rng = ctx.rng
    n = 300 if ctx.quick else 3000
    found, judged = 0, 0
    worst = {}
    for dtype, lim in ((np.float64, 15.0), (np.float32, 6.0)):
        xs = [0.0, lim, -lim, 1.0, -1.0] + [rng.uniform(-lim, lim) for _ in range(n)]
        ys = [rng.choice([0.0, 1.0, rng.uniform(0, 1)]) for _ in xs]
        gs = [rng.choice([1.0, -1.5, rng.uniform(-2, 2)]) for _ in xs]
        xs = [float(np.array(v, dtype=dtype)) for v in xs]; ys = [float(np.array(v, dtype=dtype)) for v in ys]; gs = [float(np.array(v, dtype=dtype)) for v in gs]
        fv, fg, cv, cg = fused_sides(impl, xs, ys, gs, dtype)
        name = np.dtype(dtype).name
        for i, xv in enumerate(xs):
            judged += 1
            tv, tg, bv, bg = fused_tolerances(xv, gs[i], name)
            dv, dg = abs(fv[i] - cv[i]), abs(fg[i] - cg[i])
            for kind, d, tol, b in (("value", dv, tv, bv), ("gradient", dg, tg, bg)):
                k = "%s/%s" % (kind, name)
                r = d / tol if tol > 0 else 0.0
                if not (worst.get(k, (0.0,))[0] >= r):
                    worst[k] = (r, xv, d, b)
                if not (d <= tol):
                    if found < 5:
                        found += bool(ctx.witness("nn.functional.binary_cross_entropy_with_logits vs binary_cross_entropy(sigmoid)", "fused-identity",
                                                  {"x": xv, "y": ys[i], "g": gs[i], "dtype": name, "kind": kind},
                                                  {"proved_bound_over_R": b, "tolerance_with_float_allowance": tol},
                                                  {"fused": float(fv[i] if kind == "value" else fg[i]), "composed": float(cv[i] if kind == "value" else cg[i]), "difference": float(d)}))
    ctx.extra.setdefault("oracle", {})["fused_C14"] = {"cases_judged": judged, "witnesses": found,
                                                       "worst(difference/tolerance, x, difference, proved bound)": worst,
                                                       "range": "float64 |x| <= 15, float32 |x| <= 6; hard and soft targets; non-uniform upstream gradient"}
    return found


# ================================================================================================
def run_part(ctx, props_file, part=None, oracle=True):
    """(a) translate, (b) self-check, (c) build props_file, (d) oracle for the part ('C01' | 'C02' | 'C09' | 'C06' | 'C14', default:
    from the file name).  Returns True iff nothing broke."""
    part = part or os.path.basename(props_file)[:3].upper()
    n_broken, n_wit = len(ctx.broken), len(ctx.witnesses)
    T = translate(ctx)
    if T is not None:
        selfcheck(ctx, T)
    ctx.build_props(props_rel=props_file, extra_targets=EXTRA_TARGETS)
    reparse_axioms(ctx)
    if "Interval" not in " ".join(ctx.trusted) and part == "C09":
        ctx.trusted.append("coq-interval tactic (one constant fact, exp 88 < FLT_MAX < exp 89): Bignums/Uint63 primitive-integer axioms of the standard library")
    if not any("Reals" in t for t in ctx.trusted):
        ctx.trusted.append("Coq standard library axioms of the classical real numbers (ClassicalDedekindReals.sig_not_dec, sig_forall_dec, "
                           "functional_extensionality_dep, Classical_Prop.classic) used through Reals/Coquelicot")
        ctx.assumptions.append("Reals: statements are over the real numbers; floating-point rounding and the accuracy of NumPy's exp/log/tanh/pow are outside the model")
    if oracle:
        if part in ("C01", "C02"):
            oracle_vjp(ctx, part)
            if part == "C01":
                oracle_scalar_operands(ctx)
        elif part == "C09":
            oracle_c09(ctx)
        elif part == "C06":
            oracle_forward_values(ctx)
        elif part == "C14":
            oracle_fused(ctx)
    return len(ctx.broken) == n_broken and len(ctx.witnesses) == n_wit


def reparse_axioms(ctx):
    """lib/common.parse_assumptions only sees axioms whose type starts on the same line as the name; Print Assumptions
    breaks long types onto the next line (sig_forall_dec, functional_extensionality_dep).  Re-read the build log."""
    import re
    try:
        log = open(os.path.join(ctx.workdir, "build.log")).read()
    except OSError:
        return
    cur, mode = None, None
    for l in log.splitlines():
        m = re.search(r'ASSUMPTIONS ([A-Za-z0-9_\']+)', l)
        if m:
            cur, mode = m.group(1), None
            ctx.assumption_axioms[cur] = []
            continue
        if cur is None:
            continue
        if l.startswith("Closed under the global context"):
            mode = None
        elif l.startswith("Axioms:"):
            mode = "ax"
        elif mode == "ax":
            m = re.match(r'^([A-Za-z_][A-Za-z0-9_\.\']*)\s*(:|$)', l)
            if m and not l.startswith(" "):
                if m.group(1) not in ctx.assumption_axioms[cur]:
                    ctx.assumption_axioms[cur].append(m.group(1))
            elif not l.startswith(" "):
                mode = None


def replay_witness(ctx, data):
    """Re-run a stored witness of one of the two oracles on the implementation; returns 1 if it still fails."""
    from lib import impl
    np = impl.np
    if data.get("kind") != "failing-input":
        print(json.dumps(data.get("broken"), indent=1)); return 1
    inp = data["input"]
    if data["class"] == "scalar-precision":
        n = oracle_scalar_operands(ctx)
        print("replay scalar operands: %s" % ("still fails: %s" % json.dumps(ctx.witnesses[-1]["observed"])[:300] if n else "passes now"))
        return 1 if n else 0
    dtype = np.dtype(inp["dtype"]).type
    if data["class"] == "fused-identity":
        fv, fg, cv, cg = fused_sides(impl, [inp["x"]], [inp["y"]], [inp["g"]], dtype)
        tv, tg, bv, bg = fused_tolerances(inp["x"], inp["g"], inp["dtype"])
        d, tol = (abs(fv[0] - cv[0]), tv) if inp["kind"] == "value" else (abs(fg[0] - cg[0]), tg)
        print("replay fused identity x=%r y=%r: difference %g, tolerance %g" % (inp["x"], inp["y"], d, tol))
        return 0 if d <= tol else 1
    if data["class"].startswith("clamp-corner"):
        n = oracle_bce_corners(ctx)
        print("replay bce clamp corners: %s" % ("still fails: %s" % json.dumps([w["observed"] for w in ctx.witnesses])[:300] if n else "passes now"))
        return 1 if n else 0
    if data["site"].endswith("/forward") and any(r[0] == inp.get("op") for r in fwd_table()):
        row = [r for r in fwd_table() if r[0] == inp["op"]][0]
        n0 = len(ctx.witnesses)
        judge_forward(ctx, impl, row, np.array(inp["x"], dtype=dtype), None if inp["y"] is None else np.array(inp["y"], dtype=dtype), dtype)
        still = len(ctx.witnesses) > n0
        print("replay %s forward: %s" % (inp["op"], "still fails: %s" % json.dumps(ctx.witnesses[-1]["observed"], default=str)[:300] if still else "passes now"))
        return 1 if still else 0
    if data["class"] == "large-magnitude" or data["class"] == "raises":
        order = tuple(inp.get("dtype_order") or (inp["dtype"],))
        xv = inp["x"] if not isinstance(inp["x"], list) else inp["x"][0]
        res = read_c09_worker(run_c09_worker(order, ctx.seed, True, extra=[xv]))
        same = [f for f in res["failures"] if f["input"]["op"] == inp["op"] and f["input"]["dtype"] == inp["dtype"] and f["input"].get("y") == inp.get("y")
                and (data["class"] == "raises" or (f["input"].get("kind") == inp.get("kind") and f["input"]["x"] == xv))]
        print("replay %s x=%r dtype=%s order=%s: %s" % (inp["op"], xv, inp["dtype"], "->".join(order),
                                                       "still fails: %s" % json.dumps(same[0]["observed"]) if same else "passes now"))
        return 1 if same else 0
    o = [o for o in op_table() if o["name"] == inp["op"]][0]
    arrays = [np.array(a, dtype=dtype) if isinstance(a, list) or (isinstance(a, float) and o["operands"][k] in ("T", "Y")) else a
              for k, a in enumerate(inp["operands"])]
    g = np.array(inp["g"], dtype=dtype)
    n0 = len(ctx.witnesses)
    judge_vjp(ctx, impl, o, arrays, g, dtype)
    still = len(ctx.witnesses) > n0
    print("replay %s: %s" % (inp["op"], "still fails: %s" % json.dumps(ctx.witnesses[-1]["observed"], default=str)[:400] if still else "passes now"))
    return 1 if still else 0


if __name__ == "__main__":
    import sys
    if len(sys.argv) >= 5 and sys.argv[1] == "--c09-worker":
        r = c09_worker(tuple(sys.argv[2].split(",")), int(sys.argv[3]), sys.argv[4] == "quick", json.loads(sys.argv[5]) if len(sys.argv) > 5 else ())
        print("C09WORKER " + json.dumps(r))
