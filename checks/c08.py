"""C08 — optimizers follow the published SGD/Adam/AdamW update rules on any history.

Obligations : coq/Props/C08.v  (refinement of the documented algorithms over R for every history; non-corruption of
              optimizer state; frozen / not-given tensors untouched; in-place writes only)
Ties        : T  lib/py2coq/gen_optim.py regenerates Gen/GenOptim.v from optimizers.py; IR interpreter vs real step()
              K  random + grid histories on real Tensors / real optimizers vs State/Optim.v driven by the generated
                 steps, run inside Coq over Q: SGD bit-exact (dyadic data), Adam/AdamW at relative 1e-9 against the Q
                 model with a 40-digit rational square root (the only place where floats are compared with a tolerance)
Oracle      : (a) a Fraction transcription of the documentation algorithms + "gradient accumulated since zero_grad",
              (b) torch.optim.SGD/Adam/AdamW on the same history (float64, 1e-9), restricted where PyTorch's code and
                  its documentation differ (SGD maximize with weight decay) and adapted to synapgrad's zero_grad
                  (zeros, not None) and to the property's "frozen parameters stay fixed",
              (c) identity / dtype / shape of p.data and of tensors not given to the optimizer, slot/gradient aliasing.
"""
import json, math, os, re
from fractions import Fraction
from lib import common
from lib.common import cb, cq, clist, copt

F = Fraction
SHAPES = [(), (2,), (2, 2)]
TOL = 1e-9


def _impl():
    from lib import impl
    return impl


def _gen():
    from lib.py2coq import gen_optim
    return gen_optim


# ------------------------------------------------------------------ case generation
def nel(shape):
    n = 1
    for d in shape:
        n *= d
    return n


def rand_vals(rng, n, lo=-6, hi=6):
    return [F(rng.randint(lo, hi), 2) for _ in range(n)]


def gen_case(rng, cname, hyper, max_events=8):
    nt = rng.randint(1, 3)
    tensors = []
    for i in range(nt):
        shape = rng.choice(SHAPES)
        tensors.append({"shape": list(shape), "theta0": rand_vals(rng, nel(shape)), "req": rng.random() < 0.85, "given": True})
    if rng.random() < 0.3:
        shape = rng.choice(SHAPES)
        tensors.insert(rng.randint(0, nt), {"shape": list(shape), "theta0": rand_vals(rng, nel(shape)), "req": True, "given": False})
    if not any(t["given"] for t in tensors):
        tensors[0]["given"] = True
    ne = rng.randint(2, max_events)
    events = []
    for k in range(ne):
        r = rng.random()
        if k == 0 and r < 0.8:
            r = 0.0
        if r < 0.36:
            gs = []
            for t in tensors:
                gs.append(rand_vals(rng, nel(t["shape"]), -4, 4) if rng.random() < 0.8 else None)
            events.append(["Backward", gs])
        elif r < 0.72:
            events.append(["Step"])
        elif r < 0.84:
            events.append(["ZeroGrad"])
        elif r < 0.93:
            events.append(["Freeze", rng.randrange(len(tensors))])
        else:
            events.append(["Unfreeze", rng.randrange(len(tensors))])
    return {"class": cname, "hyper": hyper, "tensors": tensors, "events": events}


def canonical_histories():
    """fixed histories run under every hyper-parameter combination of the grid (one tensor (2,), one ())"""
    B = lambda *gs: ["Backward", [list(map(F, g)) if g is not None else None for g in gs]]
    S, Z = ["Step"], ["ZeroGrad"]
    return [
        [B([2, -1], [1]), S, B([2, 1], [F(1, 2)]), S],                       # step without zero_grad: accumulated gradient
        [B([2, -1], [1]), S, Z, B([1, 1], [-1]), B([1, 0], [2]), S, S],      # two backward calls per step, repeated step
        [B([1, 1], [1]), ["Freeze", 1], Z, S, ["Unfreeze", 1], B([1, 2], [1]), S],   # frozen under weight decay, then thawed
        [B([1, 2], None), S, B([1, 1], [3]), S, Z, S],                        # second tensor gets its first gradient late
    ]


def grid_hypers(cir):
    gen = _gen()
    names = [a for a, _, _ in cir.hypers]
    grid = []
    if cir.name == "SGD":
        for mom in (F(0), F(1, 2)):
            for damp in (F(0), F(1, 2)):
                for nest in (False, True):
                    if nest and (mom == 0 or damp != 0):
                        continue
                    for wd in (F(0), F(1, 4)):
                        for mx in (False, True):
                            grid.append({"lr": F(1, 2), "momentum": mom, "dampening": damp, "nesterov": nest, "weight_decay": wd, "maximize": mx})
    else:
        for wd in (F(0), F(1, 4)):
            for mx in (False, True):
                grid.append({"lr": F(1, 4), "beta1": F(1, 2), "beta2": F(3, 4), "epsilon": F(1, 8), "weight_decay": wd, "maximize": mx})
    for h in grid:
        if set(h) != set(names):
            raise gen.Untranslatable(None, "hyper-parameters of %s are %s" % (cir.name, names))
    return grid


# ------------------------------------------------------------------ implementation side
def run_impl(case, cir):
    """Run the history on real tensors. Returns dict(obs=[...per event...], problems=[...], raised=None|str)."""
    impl = _impl()
    gen = _gen()
    np, sg = impl.np, impl.synapgrad
    impl.reset_modes()
    ts = []
    for t in case["tensors"]:
        arr = np.array([float(x) for x in t["theta0"]], dtype=np.float64).reshape(tuple(t["shape"]))
        ts.append(sg.Tensor(arr, requires_grad=bool(t["req"])))
    given = [i for i, t in enumerate(case["tensors"]) if t["given"]]
    cls = getattr(impl.optim, case["class"])
    handed = [ts[i] for i in given]
    opt = cls(handed, **gen.ctor_kwargs(cir, case["hyper"]))
    obs, problems, raised = [], [], None

    def owned():
        """which of our tensors the optimizer holds, by identity, in its order (-1: an object we did not give it)"""
        lst = getattr(opt, "parameters", None)
        if not isinstance(lst, (list, tuple)):
            return None
        return [next((i for i, t in enumerate(ts) if t is q), -1) for q in lst]

    def position():
        """tensor index -> position in optimizer.parameters (the index of its per-parameter state), by identity"""
        return {i: j for j, i in enumerate(owned() or []) if i >= 0}
    pos = position()
    if owned() != given:
        problems.append("optimizer.parameters holds tensors %s (by identity, in order) after construction, it was given %s" % (owned(), given))

    def flat(a):
        return [F(float(x)) for x in np.asarray(a, dtype=np.float64).reshape(-1)]

    def snapshot():
        rows = []
        pos = position()
        for i, p in enumerate(ts):
            n = p.data.size
            row = {"data": flat(p.data), "req": bool(p.requires_grad), "owned": i in pos, "grad": None if p._grad is None else flat(p._grad), "slots": {}}
            for name, kind in cir.slots:
                lst = getattr(opt, name, None)
                if i in pos and isinstance(lst, list) and pos[i] < len(lst):
                    v = lst[pos[i]]
                else:       # tensor not given / an optimizer that keeps this state differently: report the initial value
                    v = None if kind == "opt" else 0
                if kind == "int":
                    row["slots"][name] = int(v)
                elif v is None:
                    row["slots"][name] = None
                elif isinstance(v, (int, float)):
                    row["slots"][name] = {"v": [F(v)] * n, "alias": False}
                else:
                    v = np.asarray(v)
                    alias = p._grad is not None and (v is p._grad or np.shares_memory(v, p._grad))
                    if np.shares_memory(v, p.data):
                        problems.append("slot %s of tensor %d shares memory with p.data" % (name, i))
                    if v.shape not in ((), p.data.shape):
                        problems.append("slot %s of tensor %d has shape %s, the parameter has %s" % (name, i, v.shape, p.data.shape))
                        row["slots"][name] = {"v": [F(0)] * n, "alias": bool(alias)}
                    else:
                        row["slots"][name] = {"v": flat(np.broadcast_to(v, p.data.shape)), "alias": bool(alias)}
            rows.append(row)
        return {"t": int(opt.t), "tensors": rows}

    for k, e in enumerate(case["events"]):
        try:
            if e[0] == "Backward":
                loss = None
                anyreq = False
                for p, g in zip(ts, e[1]):
                    if g is None:
                        continue
                    c = sg.Tensor(np.array([float(x) for x in g], dtype=np.float64).reshape(p.data.shape))
                    term = (p * c).sum()
                    anyreq = anyreq or p.requires_grad
                    loss = term if loss is None else loss + term
                if loss is not None and anyreq:
                    loss.backward()
            elif e[0] == "ZeroGrad":
                opt.zero_grad()
            elif e[0] == "Step":
                before = [(p.data, p.data.dtype, p.data.shape, p.data.copy(), p._grad, None if p._grad is None else p._grad.copy(), p.requires_grad) for p in ts]
                opt.step()
                for i, (p, (d0, dt, sh, val, g0, gval, rq)) in enumerate(zip(ts, before)):
                    if p.data is not d0:
                        problems.append("event %d: step replaced the array object p.data of tensor %d" % (k, i))
                    if p.data.dtype != dt or p.data.shape != sh:
                        problems.append("event %d: step changed dtype/shape of tensor %d: %s %s -> %s %s" % (k, i, dt, sh, p.data.dtype, p.data.shape))
                    if p._grad is not g0 or (gval is not None and not np.array_equal(p._grad, gval)):
                        problems.append("event %d: step changed the gradient of tensor %d" % (k, i))
                    if (i not in given or not rq) and not np.array_equal(p.data, val):
                        problems.append("event %d: step moved tensor %d which %s" % (k, i, "is not a parameter of the optimizer" if i not in given else "does not require grad"))
            elif e[0] == "Freeze":
                ts[e[1]].requires_grad = False
            elif e[0] == "Unfreeze":
                ts[e[1]].requires_grad = True
        except Exception as ex:
            raised = "event %d (%s): %r" % (k, e[0], ex)
            break
        if owned() != given and not any("optimizer.parameters holds" in x for x in problems):
            problems.append("event %d: optimizer.parameters holds tensors %s, it was given %s" % (k, owned(), given))
        try:
            obs.append(snapshot())
        except Exception as ex:      # the optimizer keeps its state in a form the harness cannot read: stop observing, keep what we have
            problems.append("event %d: optimizer state could not be observed: %r" % (k, ex))
            break
    impl.reset_modes()
    return {"obs": obs, "problems": problems, "raised": raised}


def effective_steps(case, res):
    """number of Step events that changed some tensor (observed on the implementation)"""
    n = 0
    prev = [list(t["theta0"]) for t in case["tensors"]]
    for e, o in zip(case["events"], res["obs"]):
        cur = [row["data"] for row in o["tensors"]]
        if e[0] == "Step" and cur != prev:
            n += 1
        prev = cur
    return n


# ------------------------------------------------------------------ oracle (a): Fraction spec of the documentation
def rsqrt(x, digits=40):
    """floor(sqrt(x) * 10^digits) / 10^digits for a Fraction x >= 0"""
    if x < 0:
        raise ValueError("sqrt of a negative number")
    s = 10 ** digits
    return F(math.isqrt(x.numerator * x.denominator * s * s), x.denominator * s)


def spec_update(cname, h, st, theta, g):
    """documentation algorithms, one element. st: SGD -> b (None|Fraction); Adam/AdamW -> (m, v, t)"""
    if cname == "SGD":
        lam, mu, tau, lr = h["weight_decay"], h["momentum"], h["dampening"], h["lr"]
        if lam != 0:
            g = g + lam * theta
        b = st
        if mu != 0:
            b = g if b is None else mu * b + (1 - tau) * g
            g = g + mu * b if h["nesterov"] else b
        return b, (theta + lr * g if h["maximize"] else theta - lr * g)
    lr, b1, b2, eps, lam = h["lr"], h["beta1"], h["beta2"], h["epsilon"], h["weight_decay"]
    m, v, t = st
    if h["maximize"]:
        g = -g
    if cname == "AdamW":
        theta = theta - lr * lam * theta
    elif lam != 0:
        g = g + lam * theta
    m = b1 * m + (1 - b1) * g
    v = b2 * v + (1 - b2) * g * g
    t += 1
    mh = m / (1 - b1 ** t)
    vh = v / (1 - b2 ** t)
    return (m, v, t), theta - lr * mh / (rsqrt(vh) + eps)


def run_spec(case):
    """parameter values after every event according to the documentation + accumulated-gradient semantics"""
    cname, h = case["class"], case["hyper"]
    T = []
    for t in case["tensors"]:
        n = len(t["theta0"])
        T.append({"theta": list(t["theta0"]), "req": t["req"], "given": t["given"], "acc": None,
                  "st": [None if cname == "SGD" else (F(0), F(0), 0) for _ in range(n)]})
    out = []
    for e in case["events"]:
        if e[0] == "Backward":
            for p, g in zip(T, e[1]):
                if g is not None and p["req"]:
                    p["acc"] = [(a + x) for a, x in zip(p["acc"] or [F(0)] * len(g), g)]
        elif e[0] == "ZeroGrad":
            for p in T:
                if p["given"]:
                    p["acc"] = [F(0)] * len(p["theta"])
        elif e[0] == "Step":
            for p in T:
                if p["given"] and p["req"] and p["acc"] is not None:
                    for k in range(len(p["theta"])):
                        p["st"][k], p["theta"][k] = spec_update(cname, h, p["st"][k], p["theta"][k], p["acc"][k])
        elif e[0] == "Freeze":
            T[e[1]]["req"] = False
        else:
            T[e[1]]["req"] = True
        out.append([list(p["theta"]) for p in T])
    return out


# ------------------------------------------------------------------ oracle (b): torch.optim
def torch_applicable(case):
    h = case["hyper"]
    if case["class"] == "SGD" and h["maximize"] and h["weight_decay"] != 0:
        return False      # torch's code negates the gradient before adding weight decay; its documentation (the spec) does not
    return True


def run_torch(case, cir):
    import torch
    gen = _gen()
    ts = [torch.tensor([float(x) for x in t["theta0"]], dtype=torch.float64).reshape(tuple(t["shape"])).requires_grad_(bool(t["req"])) for t in case["tensors"]]
    given = [i for i, t in enumerate(case["tensors"]) if t["given"]]
    kw = gen.ctor_kwargs(cir, case["hyper"])
    opt = getattr(torch.optim, case["class"])([ts[i] for i in given], **kw)
    out = []
    for e in case["events"]:
        if e[0] == "Backward":
            loss = None
            for p, g in zip(ts, e[1]):
                if g is None:
                    continue
                term = (p * torch.tensor([float(x) for x in g], dtype=torch.float64).reshape(p.shape)).sum()
                loss = term if loss is None else loss + term
            if loss is not None and loss.requires_grad:
                loss.backward()
        elif e[0] == "ZeroGrad":
            # synapgrad's zero_grad binds a zero gradient to every parameter of the optimizer (torch: keeps None / sets None)
            for i in given:
                ts[i].grad = torch.zeros_like(ts[i])
        elif e[0] == "Step":
            # the property: frozen parameters stay fixed (torch would update any parameter that has a .grad)
            hidden = []
            for i in given:
                if not ts[i].requires_grad and ts[i].grad is not None:
                    hidden.append((i, ts[i].grad)); ts[i].grad = None
            opt.step()
            for i, g in hidden:
                ts[i].grad = g
        elif e[0] == "Freeze":
            ts[e[1]].requires_grad_(False)
        else:
            ts[e[1]].requires_grad_(True)
        out.append([[float(x) for x in p.detach().reshape(-1)] for p in ts])
    return out


def judge(case, cir, res=None):
    """Property oracle on the implementation (no Coq). Returns None or (description, expected, observed)."""
    res = res or run_impl(case, cir)
    if res["raised"]:
        return ("raise", "the history raised: " + res["raised"], "no exception", res["raised"])
    spec = run_spec(case)
    exact = case["class"] == "SGD"
    alias = None
    if res["problems"]:
        alias = ("identity", res["problems"][0], "the optimizer owns exactly the tensors it was given (in order) and updates them in place", res["problems"])
    for k, (o, s) in enumerate(zip(res["obs"], spec)):
        for i, (row, want) in enumerate(zip(o["tensors"], s)):
            for a, b in zip(row["data"], want):
                if (a != b) if exact else abs(float(a) - float(b)) > TOL * max(1.0, abs(float(b))):
                    return ("trajectory", "after event %d (%s) tensor %d is %s, documentation algorithm gives %s" % (k, case["events"][k][0], i, [str(x) for x in row["data"]], [str(F(x).limit_denominator(10**12)) for x in want]),
                            [str(F(x).limit_denominator(10**12)) for x in want], [str(x) for x in row["data"]])
            for name, v in row["slots"].items():
                if isinstance(v, dict) and v["alias"]:
                    alias = alias or ("alias", "after event %d slot %s of tensor %d is the gradient buffer itself" % (k, name, i), "own storage", "aliased")
    if torch_applicable(case):
        tr = run_torch(case, cir)
        for k, (o, s) in enumerate(zip(res["obs"], tr)):
            for i, (row, want) in enumerate(zip(o["tensors"], s)):
                for a, b in zip(row["data"], want):
                    if abs(float(a) - b) > TOL * max(1.0, abs(b)):
                        return ("torch", "after event %d (%s) tensor %d is %s, torch.optim.%s gives %s" % (k, case["events"][k][0], i, [float(x) for x in row["data"]], case["class"], want),
                                want, [float(x) for x in row["data"]])
    return alias


def shrink(case, cir, kind):
    """greedy: drop events / tensors while the oracle still rejects (for the same reason)"""
    cur = case
    _judge = globals()["judge"]

    def judge(c, ci):
        v = _judge(c, ci)
        return v if v and v[0] == kind else None
    changed = True
    while changed:
        changed = False
        for k in range(len(cur["events"])):
            c2 = dict(cur, events=cur["events"][:k] + cur["events"][k + 1:])
            try:
                if c2["events"] and judge(c2, cir):
                    cur, changed = c2, True
                    break
            except Exception:
                pass
        if changed:
            continue
        for i in range(len(cur["tensors"])):
            if len(cur["tensors"]) == 1:
                break
            ev2 = []
            ok = True
            for e in cur["events"]:
                if e[0] == "Backward":
                    ev2.append(["Backward", e[1][:i] + e[1][i + 1:]])
                elif e[0] in ("Freeze", "Unfreeze"):
                    if e[1] == i:
                        continue
                    ev2.append([e[0], e[1] - (1 if e[1] > i else 0)])
                else:
                    ev2.append(e)
            c2 = dict(cur, tensors=cur["tensors"][:i] + cur["tensors"][i + 1:], events=ev2)
            if not any(t["given"] for t in c2["tensors"]):
                continue
            try:
                if judge(c2, cir):
                    cur, changed = c2, True
                    break
            except Exception:
                pass
    return cur


# ------------------------------------------------------------------ Coq side
HEADER = r"""From Coq Require Import List Bool Arith ZArith QArith Qabs.
Import ListNotations.
From SG Require Import Base.Cmp State.ArrOps Gen.GenOptim State.Optim.

Definition nelems (v : qval) : nat := match v with QA l => length l | QS _ => 1%nat end.

Section Tr.
Variable St : Type.
Variable pstep : nat -> bool -> option nat -> list qval -> St -> qval -> option (St * qval).
Fixpoint trace (s : ost q_ops St) (h : list (ev qval)) : list (ost q_ops St) :=
  match h with [] => [] | e :: h' => let s' := do_ev q_ops St pstep s e in s' :: trace s' h' end.
End Tr.

Definition tobs (A : Type) := (list Q * bool * bool * option (list Q) * A)%type.
Definition obs_t {St A} (f : nat -> list qval -> St -> A) (p : param q_ops St) : tobs A :=
  let n := nelems (data p) in
  (q_elems n (data p), req p, given p, option_map (q_elems n) (grad_val q_ops St p), f n (heap p) (slots p)).
Definition state_obs {St A} (f : nat -> list qval -> St -> A) (s : ost q_ops St) : nat * list (tobs A) :=
  (tcount s, map (obs_t f) (ps s)).

Definition sgd_sobs (n : nat) (hp : list qval) (s : sgd_slots q_ops) : option (list Q * bool) :=
  option_map (fun r => (q_elems n (deref q_ops hp r), is_ref q_ops r)) s.
Definition adam_sobs (n : nat) (hp : list qval) (s : adam_slots q_ops) : list Q * list Q * nat * bool * bool :=
  let '(m1, m2, k) := s in (q_elems n (deref q_ops hp m1), q_elems n (deref q_ops hp m2), k, is_ref q_ops m1, is_ref q_ops m2).

Definition tol : Q := 1 # 1000000000.
Definition qapprox (a b : Q) : bool :=
  Qle_bool (Qabs (a - b)) (tol * (if Qle_bool 1 (Qabs b) then Qabs b else 1)).

Section Eq.
Variable qeq : Q -> Q -> bool.
Definition leq := list_eqb qeq.
Definition tobs_eqb {A} (aeqb : A -> A -> bool) (x y : tobs A) : bool :=
  let '(d, r, o, g, a) := x in let '(d', r', o', g', a') := y in
  leq d d' && Bool.eqb r r' && Bool.eqb o o' && option_eqb leq g g' && aeqb a a'.
Definition sgd_seqb := option_eqb (pair_eqb leq Bool.eqb).
Definition adam_seqb (x y : list Q * list Q * nat * bool * bool) : bool :=
  let '(a, b, k, u, v) := x in let '(a', b', k', u', v') := y in
  leq a a' && leq b b' && Nat.eqb k k' && Bool.eqb u u' && Bool.eqb v v'.
Definition st_eqb {A} (aeqb : A -> A -> bool) := list_eqb (pair_eqb Nat.eqb (list_eqb (tobs_eqb aeqb))).
End Eq.

Definition run_sgd (c : sgd_hyper * list (qval * bool * bool) * list (ev qval)) :=
  let '(h, params, hist) := c in
  map (state_obs sgd_sobs) (trace _ (sgd_pstep q_ops h) (init q_ops _ (sgd_sinit q_ops) params) hist).
Definition run_adam (c : adam_hyper * list (qval * bool * bool) * list (ev qval)) :=
  let '(h, params, hist) := c in
  map (state_obs adam_sobs) (trace _ (adam_pstep q_ops h) (init q_ops _ (adam_sinit q_ops) params) hist).
Definition run_adamw (c : adamw_hyper * list (qval * bool * bool) * list (ev qval)) :=
  let '(h, params, hist) := c in
  map (state_obs adam_sobs) (trace _ (adamw_pstep q_ops h) (init q_ops _ (adamw_sinit q_ops) params) hist).
"""


def qa(vals):
    return "(QA %s)" % clist([cq(v) for v in vals])


def ql(vals):
    return clist([cq(v) for v in vals])


def hyper_coq(cir, h):
    parts = []
    for a, ty, _ in cir.hypers:
        parts.append("%s_%s := %s" % (cir.prefix, a, cb(h[a]) if ty == "B" else cq(h[a])))
    return "{| %s |}" % "; ".join(parts)


def ev_coq(e):
    if e[0] == "Backward":
        return "Backward %s" % clist([copt(g, qa) for g in e[1]])
    if e[0] in ("Freeze", "Unfreeze"):
        return "%s %d" % (e[0], e[1])
    return e[0]


def case_coq(cir, case, obs):
    params = clist(["(%s, %s, %s)" % (qa(t["theta0"]), cb(t["req"]), cb(t["given"])) for t in case["tensors"]])
    hist = clist([ev_coq(e) for e in case["events"][:len(obs)]])
    states = []
    for o in obs:
        rows = []
        for row in o["tensors"]:
            if cir.name == "SGD":
                v = row["slots"]["momentum_buffer"]
                sl = copt(v, lambda v: "(%s, %s)" % (ql(v["v"]), cb(v["alias"])))
            else:
                m1, m2 = row["slots"]["m1"], row["slots"]["m2"]
                sl = "(%s, %s, %d%%nat, %s, %s)" % (ql(m1["v"]), ql(m2["v"]), row["slots"]["steps"], cb(m1["alias"]), cb(m2["alias"]))
            rows.append("(%s, %s, %s, %s, %s)" % (ql(row["data"]), cb(row["req"]), cb(row["owned"]), copt(row["grad"], ql), sl))
        states.append("(%d%%nat, %s)" % (o["t"], clist(rows)))
    return "((%s, %s, %s), %s)" % (hyper_coq(cir, case["hyper"]), params, hist, clist(states))


def parse_natlist(out):
    flat = " ".join(out.split())
    res = []
    for m in re.finditer(r"= \[(.*?)\]\s*:\s*list nat", flat):
        body = m.group(1).replace("%nat", "").strip()
        res.append([int(x) for x in body.split(";") if x.strip()])
    return res


SLOT_SHAPE = {"SGD": [("momentum_buffer", "opt")], "Adam": [("m1", "arr"), ("m2", "arr"), ("steps", "int")],
              "AdamW": [("m1", "arr"), ("m2", "arr"), ("steps", "int")]}


def jsonable(case):
    def conv(x):
        if isinstance(x, F):
            return str(x)
        if isinstance(x, dict):
            return {k: conv(v) for k, v in x.items()}
        if isinstance(x, (list, tuple)):
            return [conv(v) for v in x]
        return x
    return conv(case)


def unjson(case):
    def fr(x):
        return F(x) if isinstance(x, str) and re.fullmatch(r"-?\d+(/\d+)?", x) else x
    c = dict(case)
    c["hyper"] = {k: fr(v) for k, v in case["hyper"].items()}
    c["tensors"] = [dict(t, theta0=[F(x) for x in t["theta0"]]) for t in case["tensors"]]
    ev = []
    for e in case["events"]:
        if e[0] == "Backward":
            ev.append(["Backward", [None if g is None else [F(x) for x in g] for g in e[1]]])
        else:
            ev.append(list(e))
    c["events"] = ev
    return c


# ------------------------------------------------------------------ the check
def run(ctx):
    rng = ctx.rng
    gen = _gen()
    impl = _impl()

    # ---- T: regenerate Gen/GenOptim.v
    irs, terr = None, None
    try:
        irs = gen.generate()
    except gen.Untranslatable as ex:
        terr = str(ex)
        ctx.log("translator refused:", terr)
        # fail closed: no stale generated definitions — the build of everything that depends on them must fail
        common.write_if_changed(gen.OUT, "(* lib/py2coq/gen_optim.py refused to translate optimizers.py: %s *)\n"
                                "From Coq Require Import String.\nDefinition translator_refused : False := \"%s\"%%string.\n"
                                % (terr.replace("*)", "* )"), terr.replace('"', "'")))
    if irs is not None:
        for cname, shape in SLOT_SHAPE.items():
            if irs[cname].slots != shape:
                terr = "slots of %s are %s, the hand model State/Optim.v expects %s" % (cname, irs[cname].slots, shape)
    if terr:
        ctx.tie("translator/optimizers.py", "translator", 1, 0, [{"untranslatable": terr}],
                note="the fail-closed translator does not accept the current step() bodies; theorems are about stale generated definitions")
    ok_build, fails = ctx.build_props(extra_targets=["State/Optim.vo"])

    # ---- T self-check: IR interpreter vs real step
    if irs is not None and not terr:
        n = 120 if ctx.quick else 1200
        cases, nontriv, mism = gen.selfcheck(impl, irs, rng, n)
        ctx.tie("translator/IR-interpreter vs step()", "translator-selfcheck", cases, nontriv, mism,
                note="one-element parameters, 1-4 steps with fresh gradients, frozen / no-gradient steps mixed in; SGD exact (Fraction), "
                     "Adam/AdamW relative 1e-12 (math.sqrt); alias flag of every slot store compared with `slot is p._grad`")

    # ---- cases
    class _C:      # minimal class info when the translator refused (oracle still runs)
        pass
    cirs = {}
    for cname in gen.CLASSES:
        if irs is not None:
            cirs[cname] = irs[cname]
        else:
            c = _C()
            c.name, c.prefix, c.slots = cname, cname.lower(), SLOT_SHAPE[cname]
            c.hypers = ([("lr", "Q", "lr"), ("momentum", "Q", "momentum"), ("nesterov", "B", "nesterov"), ("dampening", "Q", "dampening"),
                         ("maximize", "B", "maximize"), ("weight_decay", "Q", "weight_decay")] if cname == "SGD" else
                        [("lr", "Q", "lr"), ("beta1", "Q", "betas[0]"), ("beta2", "Q", "betas[1]"), ("epsilon", "Q", "eps"),
                         ("weight_decay", "Q", "weight_decay"), ("maximize", "B", "maximize")])
            cirs[cname] = c
    nrand = 140 if ctx.quick else 1400
    all_cases = []
    for cname in gen.CLASSES:
        cir = cirs[cname]
        hist = canonical_histories()
        for h in grid_hypers(cir):
            for ev in hist:
                tensors = [{"shape": [2], "theta0": [F(1), F(-2)], "req": True, "given": True},
                           {"shape": [], "theta0": [F(4)], "req": True, "given": True}]
                all_cases.append({"class": cname, "hyper": h, "tensors": tensors, "events": ev, "grid": True})
            # initial state with a frozen parameter (freeze the backbone, build the optimizer, unfreeze after k steps) and a gradient-less one
            for k in (0, 1, 2):
                for first in (0, 1):
                    tensors = [{"shape": [2], "theta0": [F(1), F(-2)], "req": first != 0, "given": True},
                               {"shape": [], "theta0": [F(4)], "req": first != 1, "given": True},
                               {"shape": [2, 2], "theta0": [F(1), F(0), F(-1), F(2)], "req": True, "given": True}]
                    B1 = ["Backward", [[F(1), F(2)], [F(-1)], None]]
                    B2 = ["Backward", [[F(2), F(-1)], [F(3)], [F(1), F(1), F(0), F(-2)]]]
                    ev = [B1] + [["Step"]] * k + [["Unfreeze", first], B2, ["Step"], ["ZeroGrad"], B1, ["Step"]]
                    all_cases.append({"class": cname, "hyper": h, "tensors": tensors, "events": ev, "grid": True})
        for _ in range(nrand):
            all_cases.append(gen_case(rng, cname, gen.random_hyper(cir, rng)))
    # corpus (minimised earlier findings) first
    corpus = os.path.join(common.ROOT, "corpus", "C08.jsonl")
    if os.path.exists(corpus):
        for line in open(corpus):
            if line.strip():
                all_cases.insert(0, unjson(json.loads(line)))

    # ---- run implementation + oracle
    results = []
    oracle_fail = []
    torch_n = 0
    for case in all_cases:
        cir = cirs[case["class"]]
        res = run_impl(case, cir)
        results.append(res)
        v = judge(case, cir, res)
        torch_n += 1 if torch_applicable(case) else 0
        if v:
            oracle_fail.append((case, v))
    ctx.extra["oracle"] = {"histories_judged": len(all_cases), "compared_with_torch": torch_n,
                           "tolerance": "SGD: exact against the Fraction spec; Adam/AdamW and all torch comparisons: relative 1e-9"}

    # ---- K: model vs implementation inside Coq
    if ok_build and not terr:
        CH = 250
        for cname, runf, seqb, qeq in (("SGD", "run_sgd", "sgd_seqb", "Qeq_bool"), ("Adam", "run_adam", "adam_seqb", "qapprox"), ("AdamW", "run_adamw", "adam_seqb", "qapprox")):
            cir = cirs[cname]
            sel = [(c, r) for c, r in zip(all_cases, results) if c["class"] == cname and r["obs"]]
            files = []
            for k in range(0, len(sel), CH):
                chunk = sel[k:k + CH]
                body = ";\n ".join(case_coq(cir, c, r["obs"]) for c, r in chunk)
                txt = HEADER + "Definition cases := [\n %s].\nEval vm_compute in (mismatches %s (st_eqb %s (%s %s)) cases).\n" % (body, runf, qeq, seqb, qeq)
                files.append(("%s_%d" % (cname.lower(), k // CH), txt))
            out = ctx.coq_eval_many(files, timeout=900)
            mism = []
            for (name, _), k in zip(files, range(0, len(sel), CH)):
                ok, o = out[name]
                lists = parse_natlist(o)
                if not ok or len(lists) != 1:
                    mism.append({"file": name, "error": o[-600:]})
                    continue
                for i in lists[0]:
                    c, r = sel[k + i]
                    mism.append({"case": jsonable({kk: vv for kk, vv in c.items() if kk != "grid"}), "implementation_final": jsonable(r["obs"][-1])})
            for c, r in zip(all_cases, results):
                if c["class"] == cname and r["raised"]:
                    mism.append({"case": jsonable(c), "implementation_raised": r["raised"]})
            nontriv = len({json.dumps(jsonable(c), sort_keys=True) for c, r in sel if effective_steps(c, r) >= 1 and len(c["events"]) >= 2})
            ctx.tie("optim/%s histories" % cname, "correspondence", len(sel), nontriv, mism,
                    note=("bit-exact (dyadic float64 data vs Q)" if cname == "SGD" else
                          "relative 1e-9 against the Q model with a 40-digit rational sqrt (unavoidable: sqrt and division are not exact in float64)")
                         + "; observed after every event: p.data, requires_grad, p._grad, every optimizer slot and whether it is the gradient buffer object, opt.t; "
                           "hyper-parameter grid x (4 canonical histories + 6 histories starting with a frozen and a gradient-less parameter, unfrozen after 0-2 steps) enumerated completely; whether the optimizer owns each tensor (by identity in optimizer.parameters) observed after every event + seeded random histories (<= 8 events, 1-4 tensors of shape ()/(2,)/(2,2), one possibly not given)")
        sel = [(c, r) for c, r in zip(all_cases, results) if r["obs"]]
        if sel:
            c, r = sel[len(sel) // 2]
            ctx.sample({"case": jsonable({kk: vv for kk, vv in c.items() if kk != "grid"}), "final_data": [[str(x) for x in row["data"]] for row in r["obs"][-1]["tensors"]]})

    # ---- malformed stream: constructor arguments the classes must reject
    bad = []
    sg, np = impl.synapgrad, impl.np
    p = sg.Tensor(np.ones((2,)), requires_grad=True)
    for what, f in (("empty parameter list", lambda: impl.optim.SGD([], lr=0.5)),
                    ("nesterov without momentum", lambda: impl.optim.SGD([p], lr=0.5, nesterov=True)),
                    ("nesterov with dampening", lambda: impl.optim.SGD([p], lr=0.5, momentum=0.5, dampening=0.5, nesterov=True)),
                    ("empty parameter list (Adam)", lambda: impl.optim.Adam([], lr=0.5))):
        try:
            f()
            bad.append({"constructor": what, "expected": "ValueError", "observed": "accepted"})
        except ValueError:
            pass
    ctx.tie("optim/constructor rejects", "correspondence", 4, 4, bad, exhaustive=True, note="malformed stream: expected outcome is 'raises'")

    # ---- violation search: the oracle's verdicts become witnesses
    if oracle_fail:
        seen = set()
        prio = {"trajectory": 0, "raise": 1, "identity": 2, "torch": 3, "alias": 4}
        for case, v in sorted(oracle_fail, key=lambda cv: (prio[cv[1][0]], len(cv[0]["events"]), len(cv[0]["tensors"]))):
            if case["class"] in seen:
                continue
            seen.add(case["class"])
            small = shrink({k: vv for k, vv in case.items() if k != "grid"}, cirs[case["class"]], v[0])
            v2 = judge(small, cirs[case["class"]]) or v
            ctx.witness("optim.%s.step" % case["class"], "history/" + v2[0], jsonable(small), v2[2], {"verdict": v2[1], "observed": jsonable(v2[3])})
    ctx.extra["oracle"]["rejected"] = len(oracle_fail)


FINISH = dict(rule="histories: hyper-parameter grid (SGD 20 valid combinations, Adam/AdamW 4) x 4 canonical histories enumerated completely, "
                   "plus seeded random histories; non-trivial = distinct histories with >= 2 events of which >= 1 Step; "
                   "translator self-check: steps after the first with a gradient")


def replay(ctx, data):
    if data.get("kind") != "failing-input":
        print(json.dumps(data.get("broken"), indent=1)); return 1
    gen = _gen()
    case = unjson(data["input"])
    try:
        cir = gen.analyse()[case["class"]]
    except gen.Untranslatable:
        class _C:
            pass
        cir = _C()
        cir.name, cir.prefix, cir.slots = case["class"], case["class"].lower(), SLOT_SHAPE[case["class"]]
        cir.hypers = [(k, "B" if isinstance(v, bool) else "Q", {"beta1": "betas[0]", "beta2": "betas[1]", "epsilon": "eps"}.get(k, k)) for k, v in case["hyper"].items()]
    v = judge(case, cir)
    print("case:", json.dumps(jsonable(case)))
    print("verdict:", v[1] if v else "the implementation follows the documentation on this history")
    return 1 if v else 0
