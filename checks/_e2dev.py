"""development driver for work package E2: ./check _E2DEV  (VERIF_E2_PARTS=add,mul,... to select)"""
import os
from checks import ops_algebra

def run(ctx):
    parts = os.environ.get("VERIF_E2_PARTS")
    from lib import common
    ctx.known = [dict(k, property=ctx.pid) for k in common.load_known() if k["property"] in ("C01", "C05", "C10", "C14")]
    ops_algebra.run_part(ctx, parts.split(",") if parts else None, as_pid=os.environ.get("VERIF_E2_AS"))

def replay(ctx, data):
    return ops_algebra.replay(ctx, data)

FINISH = dict(rule="development driver")
