"""C01 — backward of every tensor op yields the exact vector-Jacobian product (assembled from parts).

  wrappers   checks/wrappers.py        Props/Wrappers.v      every operand that requires grad accumulates (+=) exactly one kernel result, under its own flag
  views      checks/ops_views.py       Props/C01_views.v     family 1: reshape, flatten, squeeze, unsqueeze, movedim, transpose, unfold, indexing, clone: backward = scatter(phi)
  algebra    checks/ops_algebra.py     Props/C01_algebra.v   families 1-2: unbroadcast = scatter of the broadcast map, add/mul, sum/mean/max/min, matmul/addmm, concat/stack/unbind
  scalar     checks/kernels_scalar.py  Props/C01_scalar.v    family 3: pow/rpow/exp/log/sqrt/neg and the operator overloads (is_derive over R on generated kernels)
"""
from lib.parts import run_parts, replay_parts

PARTS = [("checks.wrappers", "run_part", {}),
         ("checks.ops_views", "run_part", {"prop": "C01"}),
         ("checks.ops_algebra", "run_part", {"as_pid": "C01"}),
         ("checks.kernels_scalar", "run_part", {"props_file": "Props/C01_scalar.v"})]


def run(ctx):
    run_parts(ctx, PARTS)


def replay(ctx, data):
    return replay_parts(ctx, data, PARTS)


FINISH = dict(rule="per part: exhaustive small-rank grids (shapes x arguments) probed with arange data / distinct integer upstream gradients, "
                   "translator self-check inputs, oracle sweeps with non-uniform upstream gradients; non-trivial = index map not the identity / non-degenerate operand")
