"""Work package E2 — broadcasting arithmetic, reductions, bilinear ops, concatenation family.

Not a registered check: the checks of C01 / C05 / C10 / C14 call `run_part(ctx)`.

Obligations : coq/Props/C01_algebra.v, C05_algebra.v, C10_shapes.v, C14_algebra.v   (built for ctx.pid)
Tie K       : the real wrappers (synapgrad.functional / nn.functional.linear / Tensor operators) are run on
              integer-valued float64 operands (every sum / product exact) and compared, inside Coq
              (vm_compute, Base/Cmp.mismatches), with the models NumPy/{Broadcast,Reduce,Matmul,Concat,Overloads}.v
              driven by NumPy/AlgebraRun.v: acceptance, output shape, output values, and the .grad of every
              operand after backward with distinct integer upstream gradients of either sign.
Oracle      : independent of the Coq model: NumPy/torch reference for forward values; exact integer central
              differences (h = 1; h = 216 for mean; h = 1/4 for max/min) of the implementation's own forward and
              torch autograd for .grad — a witness needs both to disagree; valid-subgradient test at max/min ties;
              dtype / shape of every .grad equal to the tensor's (C10) for f32/f64 mixes.
"""
import itertools, json, math, os, re
from fractions import Fraction
from lib import common
from lib.common import cb, cn, cz, clist

SIZES = (1, 2, 3)
MEAN_UNIT = 216          # 2^3 3^3: every count of a {1,2,3}^(<=3) fibre divides it
BAD = 10 ** 15           # encodes a non-integer value observed on the implementation (forces a mismatch)


def _impl():
    from lib import impl
    return impl


def shapes_upto(r, sizes=SIZES):
    out = []
    for n in range(r + 1):
        out += list(itertools.product(sizes, repeat=n))
    return out


# ------------------------------------------------------------------------------------------------
# data
class Data:
    """deterministic integer-valued arrays with distinct entries of either sign"""

    def __init__(self, rng):
        self.rng = rng

    def arr(self, shape, unit=1, ties=False, lo=-40, hi=40):
        np = _impl().np
        n = int(np.prod(shape)) if len(shape) else 1
        if ties:
            vals = [self.rng.randint(-2, 2) for _ in range(n)]
        else:
            vals = self.rng.sample(range(lo, hi), n) if n <= hi - lo else [self.rng.randint(lo, hi) for _ in range(n)]
            if n and (all(v >= 0 for v in vals) or all(v <= 0 for v in vals)):
                vals[0] = -vals[0] if vals[0] != 0 else -7
                if n > 1 and (all(v >= 0 for v in vals) or all(v <= 0 for v in vals)):
                    vals[1] = -vals[1] if vals[1] != 0 else 9
        return np.array([v * unit for v in vals], dtype=np.float64).reshape(shape)


# ------------------------------------------------------------------------------------------------
# Coq literals
def cshape(s):
    return clist([cn(d) for d in s])


def cval(v):
    f = float(v)
    if f != f or f in (float("inf"), float("-inf")) or f != math.floor(f) or abs(f) >= 2 ** 52:
        return cz(BAD)
    return cz(int(f))


def ctz(a):
    np = _impl().np
    a = np.asarray(a)
    return "(%s, %s)" % (cshape(a.shape), clist([cval(v) for v in a.ravel()]))


def cvals(a):
    np = _impl().np
    return clist([cval(v) for v in np.asarray(a).ravel()])


def caxis(ax):
    if ax is None:
        return "AxNone"
    if isinstance(ax, tuple):
        return "(AxTuple %s)" % clist([cz(a) for a in ax])
    return "(AxInt %s)" % cz(ax)


def cres(obs):
    """obs: None | (outs, grads|None) with arrays"""
    if obs is None:
        return "None"
    outs, grads = obs
    g = "None" if grads is None else "(Some %s)" % clist([ctz(x) for x in grads])
    return "(Some (%s, %s))" % (clist([ctz(o) for o in outs]), g)


# ------------------------------------------------------------------------------------------------
# cases.  A case is a dict: op, operands (list of arrays), args; `gseed` chooses the upstream gradient.
OV_OPS = {"neg": ("OvNeg", lambda t, c: -t), "add": ("OvAdd", lambda t, c: t + c), "radd": ("OvRadd", lambda t, c: c + t),
          "sub": ("OvSub", lambda t, c: t - c), "rsub": ("OvRsub", lambda t, c: c - t),
          "mul": ("OvMul", lambda t, c: t * c), "rmul": ("OvRmul", lambda t, c: c * t)}


def forward_impl(case, tensors):
    """apply the real wrapper; returns the output Tensor or tuple of Tensors"""
    impl = _impl()
    TF, NF, sg = impl.TF, impl.NF, impl.synapgrad
    op = case["op"]
    a = case.get("args", {})
    if op == "add":
        return TF.add(*tensors)
    if op == "mul":
        return TF.mul(*tensors)
    if op == "matmul":
        return TF.matmul(*tensors)
    if op == "addmm":
        return TF.addmm(*tensors)
    if op == "linear":
        return NF.linear(tensors[0], tensors[1], tensors[2] if len(tensors) > 2 else None)
    if op in ("sum", "mean", "max", "min"):
        return getattr(TF, op)(tensors[0], a["dim"], a["keepdims"])
    if op == "concat":
        return TF.concat(list(tensors), a["dim"])
    if op == "stack":
        return TF.stack(list(tensors), a["dim"])
    if op == "unbind":
        return TF.unbind(tensors[0], a["dim"])
    if op == "ov":
        return OV_OPS[a["which"]][1](tensors[0], a["c"])
    raise KeyError(op)


def make_upstream(case, out_shapes, unit=1):
    """distinct integers of either sign, deterministic from the case's gseed"""
    import random
    np = _impl().np
    r = random.Random(case.get("gseed", 1))
    gs = []
    for s in out_shapes:
        n = int(np.prod(s)) if len(s) else 1
        vals = r.sample(range(-60, 60), n) if n <= 120 else [r.randint(-60, 60) for _ in range(n)]
        if n >= 2 and (all(v > 0 for v in vals) or all(v < 0 for v in vals)):
            vals[0] = -vals[0]
        if n == 1 and vals[0] in (0, 1):
            vals[0] = -3
        gs.append(np.array(vals, dtype=np.float64).reshape(s) * unit)
    return gs


def run_impl(case, dtypes=None, gdtype=None):
    """-> (obs, info).  obs = None (forward rejected) | (outs, grads | None); info has the tensors / exceptions."""
    impl = _impl()
    np, sg = impl.np, impl.synapgrad
    impl.reset_modes()
    ops = case["operands"]
    dts = dtypes or [np.float64] * len(ops)
    if case.get("dup"):      # the same Tensor object for every operand
        t0 = sg.Tensor(np.array(ops[0], dtype=dts[0]), requires_grad=True)
        tensors = [t0] * len(ops)
    else:
        tensors = [sg.Tensor(np.array(o, dtype=dt), requires_grad=True) for o, dt in zip(ops, dts)]
    info = {"tensors": tensors[:1] if case.get("dup") else tensors}
    try:
        out = forward_impl(case, tensors)
    except Exception as ex:
        info["fw_exc"] = repr(ex)[:200]
        return None, info
    outs = list(out) if isinstance(out, (tuple, list)) else [out]
    info["outs"] = outs
    unit = MEAN_UNIT if case["op"] == "mean" else 1
    gs = make_upstream(case, [o.shape for o in outs], unit)
    info["gs"] = gs
    try:
        for o, g in zip(outs, gs):
            o.backward(sg.Tensor(np.array(g, dtype=gdtype or np.float64)))
        if case.get("twice"):        # a second graph over the same leaves: gradients accumulate
            out2 = forward_impl(case, tensors)
            for o, g in zip(list(out2) if isinstance(out2, (tuple, list)) else [out2], gs):
                o.backward(sg.Tensor(np.array(g, dtype=gdtype or np.float64)))
        grads = []
        for t in (tensors[:1] if case.get("dup") else tensors):
            grads.append(t._grad if t._grad is not None else np.zeros(t.shape))
        info["grads"] = grads
    except Exception as ex:
        info["bw_exc"] = repr(ex)[:200]
        grads = None
    return ([np.asarray(o.data) for o in outs], grads), info


def coq_case(case, gs):
    if case.get("twice"):
        return "KTwice (%s)" % coq_case({k: v for k, v in case.items() if k != "twice"}, gs)
    if case.get("dup"):
        return "KDup (%s)" % coq_case({k: v for k, v in case.items() if k != "dup"}, gs)
    op = case["op"]
    ops = case["operands"]
    a = case.get("args", {})
    g = cvals(gs[0]) if gs else "[]"
    if op in ("add", "mul", "matmul"):
        return "K%s %s %s %s" % (op.capitalize(), ctz(ops[0]), ctz(ops[1]), g)
    if op == "addmm":
        return "KAddmm %s %s %s %s" % (ctz(ops[0]), ctz(ops[1]), ctz(ops[2]), g)
    if op == "linear":
        bias = "(Some %s)" % ctz(ops[2]) if len(ops) > 2 else "None"
        return "KLinear %s %s %s %s" % (ctz(ops[0]), ctz(ops[1]), bias, g)
    if op in ("sum", "mean", "max", "min"):
        return "K%s %s %s %s %s" % (op.capitalize(), ctz(ops[0]), caxis(a["dim"]), cb(a["keepdims"]), g)
    if op in ("concat", "stack"):
        return "K%s %s %s %s" % (op.capitalize(), clist([ctz(o) for o in ops]), cz(a["dim"]), g)
    if op == "unbind":
        return "KUnbind %s %s %s" % (ctz(ops[0]), cz(a["dim"]), clist([cvals(x) for x in gs]))
    if op == "ov":
        return "KOv %s %s %s %s" % (OV_OPS[a["which"]][0], ctz(ops[0]), cz(a["c"]), g)
    raise KeyError(op)


def describe(case):
    np = _impl().np
    d = {"op": case["op"], "shapes": [list(np.asarray(o).shape) for o in case["operands"]]}
    if case.get("dup"):
        d["dup"] = True
    if case.get("twice"):
        d["twice"] = True
    if case.get("args"):
        d["args"] = {k: (list(v) if isinstance(v, tuple) else v) for k, v in case["args"].items()}
    return d


def case_json(case):
    np = _impl().np
    d = describe(case)
    d["operands"] = [np.asarray(o).tolist() for o in case["operands"]]
    d["gseed"] = case.get("gseed", 1)
    return d


def case_from_json(d):
    np = _impl().np
    args = dict(d.get("args", {}))
    if isinstance(args.get("dim"), list):
        args["dim"] = tuple(args["dim"])
    ops = [np.array(o, dtype=np.float64).reshape(s) for o, s in zip(d["operands"], d["shapes"])]
    return {"op": d["op"], "operands": ops, "args": args, "gseed": d.get("gseed", 1), "dup": d.get("dup", False), "twice": d.get("twice", False)}


# ------------------------------------------------------------------------------------------------
# generators
def dim_forms(n, all_tuples=True):
    """None, every int in [-n, n), every tuple of distinct dims in mixed signs (all orders), the empty tuple"""
    forms = [None] + list(range(-n, n)) + [()]
    for k in range(1, n + 1):
        for sub in itertools.permutations(range(n), k):
            signs = itertools.product((0, 1), repeat=k) if all_tuples else [tuple((i + k) % 2 for i in range(k))]
            for sg_ in signs:
                forms.append(tuple(d - n if s else d for d, s in zip(sub, sg_)))
    return forms


def cap(ctx, must, rest, n):
    """quick tier: all of `must` plus a seeded sample of `rest` up to n cases; thorough: everything"""
    if not ctx.quick or len(must) + len(rest) <= n:
        return must + rest
    k = max(0, n - len(must))
    idx = sorted(ctx.rng.sample(range(len(rest)), min(k, len(rest))))
    return must + [rest[i] for i in idx]


def gen_broadcast_pairs(ctx, dat, op):
    must, rest = [], []
    shs = shapes_upto(3)
    for i, sa in enumerate(shs):
        for j, sb in enumerate(shs):
            c = {"op": op, "operands": [dat.arr(sa), dat.arr(sb)], "gseed": 7 * i + j}
            (must if (len(sa) <= 2 and len(sb) <= 2 and op == "add") else rest).append(c)
    return cap(ctx, must, rest, 760 if op == "add" else 400)


def gen_unbroadcast(ctx, dat):
    """cpu_ops.unbroadcast called directly: every (grad shape, target shape) pair, broadcastable or not"""
    cases = []
    shs = shapes_upto(3)
    for sg_ in shs:
        for st in shs:
            cases.append({"op": "unb", "operands": [dat.arr(sg_)], "args": {"shape": st}})
    return cases


def gen_reductions(ctx, dat):
    cases = []
    must, rest = [], []
    seed = 0
    for sh in shapes_upto(3):
        n = len(sh)
        rich = True
        cases = must if (n <= 1 or sh in ((2, 3), (3, 1)) ) else rest
        forms = dim_forms(n, all_tuples=rich)
        bad = [n, -n - 1, (0, 0) if n else (0,), (n,), (0, -n) if n else (-1,)]
        for op in ("sum", "mean", "max", "min"):
            for dim in forms + bad:
                if op in ("max", "min") and isinstance(dim, tuple) and len(dim) > 1 and (len(cases) % 6):
                    continue
                for kd in (False, True):
                    seed += 1
                    unit = MEAN_UNIT if op == "mean" else 1
                    ties = op in ("max", "min") and seed % 3 == 0
                    cases.append({"op": op, "operands": [dat.arr(sh, unit=unit, ties=ties)],
                                  "args": {"dim": dim, "keepdims": kd}, "gseed": seed})
    # zero-size fibre / output
    for sh, dim in (((0, 3), 0), ((0, 3), 1), ((2, 0), 0), ((0, 0), 0), ((0, 3), None)):
        for op in ("sum", "max", "min"):
            must.append({"op": op, "operands": [dat.arr(sh)], "args": {"dim": dim, "keepdims": False}, "gseed": 3})
    return cap(ctx, must, rest, 3000)


def gen_matmul(ctx, dat):
    rng = ctx.rng
    cases = []
    batches = shapes_upto(2)
    nkm = list(itertools.product(SIZES, repeat=3))
    seed = 0
    for ba in batches:
        for bb in batches:
            picks = rng.sample(nkm, 2 if ctx.quick else 6)
            for (n, k, m) in picks:
                seed += 1
                cases.append({"op": "matmul", "operands": [dat.arr(ba + (n, k), lo=-9, hi=9), dat.arr(bb + (k, m), lo=-9, hi=9)], "gseed": seed})
    # inner dimension mismatch, rank < 2 operands (rejected by the wrapper), 0-d
    for sa, sb in (((2, 3), (2, 3)), ((2, 3), (3,)), ((3,), (3, 2)), ((3,), (3,)), ((), (2, 2)), ((2, 2), ()), ((2, 1, 3), (3, 3, 2)),
                   ((1, 2, 3), (3, 2)), ((3, 2, 2, 3), (2, 3, 1)), ((2, 2, 2, 3), (3, 3, 1)), ((0, 2), (2, 3)), ((2, 0), (0, 3))):
        seed += 1
        cases.append({"op": "matmul", "operands": [dat.arr(sa, lo=-9, hi=9), dat.arr(sb, lo=-9, hi=9)], "gseed": seed})
    return cases


def gen_addmm_linear(ctx, dat):
    rng = ctx.rng
    cases = []
    seed = 0
    bc = [((2, 3), (3, 2)), ((1, 3), (3, 3)), ((3, 1), (1, 2)), ((2, 2, 3), (3, 2)), ((2, 3), (2, 3, 1)), ((2, 1, 3), (1, 3, 2)),
          ((3, 2, 2), (1, 2, 3)), ((2, 2), (2,)), ((2,), (2, 3)), ((3,), (3,)), ((2, 3), (2, 2)), ((3, 3), (3,)), ((1, 1), (1,)),
          ((2, 2, 3), (3,)), ((3,), (2, 3, 2)), ((2, 1, 2, 3), (3,)), ((2,), (3, 1, 2, 2)), ((1,), (1,)), ((2,), (3,))]
    for sb, sc in bc:
        np = _impl().np
        try:
            ps = np.matmul(np.zeros(sb), np.zeros(sc)).shape
        except ValueError:
            ps = (2, 2)
        a_shapes = {(), ps, ps[-1:], (1,) * len(ps), tuple(1 if i % 2 else d for i, d in enumerate(ps)), (1,) + ps, (2,) + ps, (3, 3)}
        for sa in sorted(a_shapes):
            seed += 1
            cases.append({"op": "addmm", "operands": [dat.arr(sa), dat.arr(sb, lo=-9, hi=9), dat.arr(sc, lo=-9, hi=9)], "gseed": seed})
    for xs in ((3,), (1, 3), (2, 3), (4, 3), (2, 2, 3), (3, 1, 3), (1, 2, 3), (2, 2, 2, 3), (2, 4)):
        for out in (1, 2):
            for bias in (None, (out,), (1, out), (), (xs[0] if len(xs) > 1 else 1, out), (out + 1,)):
                seed += 1
                ops = [dat.arr(xs, lo=-9, hi=9), dat.arr((out, 3), lo=-9, hi=9)] + ([dat.arr(bias)] if bias is not None else [])
                cases.append({"op": "linear", "operands": ops, "gseed": seed})
    return cases


def gen_concat_family(ctx, dat):
    return cap(ctx, [], gen_concat_family_all(ctx, dat), 760)


def gen_concat_family_all(ctx, dat):
    rng = ctx.rng
    cases = []
    seed = 0
    base_shapes = [s for s in shapes_upto(3) if len(s) >= 1]
    for sh in base_shapes:
        n = len(sh)
        for dim in list(range(-n, n)) + [n, -n - 1]:
            ax = dim % n if -n <= dim < n else 0
            for k in (1, 2, 3):
                seed += 1
                sizes = [rng.choice(SIZES) for _ in range(k)]
                if k > 1 and len(set(sizes)) == 1:
                    sizes[-1] = sizes[-1] % 3 + 1
                ops = [dat.arr(tuple(sz if i == ax else d for i, d in enumerate(sh))) for sz in sizes]
                cases.append({"op": "concat", "operands": ops, "args": {"dim": dim}, "gseed": seed})
    # malformed concat: other dims differ, ranks differ, 0-d
    for shs, dim in ((((2, 3), (2, 2)), 0), (((2, 3), (3,)), 0), (((), ()), 0), (((2,), (2, 1)), -1), (((2, 3), (3, 3)), 1), (((1, 2), (2, 2), (1, 3)), 0)):
        seed += 1
        cases.append({"op": "concat", "operands": [dat.arr(s) for s in shs], "args": {"dim": dim}, "gseed": seed})
    for sh in shapes_upto(2):
        n = len(sh) + 1
        for dim in list(range(-n, n)) + [n, -n - 1]:
            for k in (1, 2, 3):
                seed += 1
                cases.append({"op": "stack", "operands": [dat.arr(sh) for _ in range(k)], "args": {"dim": dim}, "gseed": seed})
    for shs, dim in ((((2, 3), (2, 2)), 0), (((2,), (2, 1)), 0), (((3,), (2,)), -1)):
        seed += 1
        cases.append({"op": "stack", "operands": [dat.arr(s) for s in shs], "args": {"dim": dim}, "gseed": seed})
    for sh in shapes_upto(3):
        n = len(sh)
        for dim in list(range(-n, n)) + [n, -n - 1]:
            seed += 1
            cases.append({"op": "unbind", "operands": [dat.arr(sh)], "args": {"dim": dim}, "gseed": seed})
    return cases


def gen_overloads(ctx, dat):
    cases = []
    seed = 0
    for sh in [(), (1,), (3,), (2, 3), (1, 3), (2, 1, 2), (3, 2, 2)]:
        for which in OV_OPS:
            for c in (2, -3, 0):
                seed += 1
                cases.append({"op": "ov", "operands": [dat.arr(sh)], "args": {"which": which, "c": c}, "gseed": seed})
    return cases


def gen_same_operand(ctx, dat):
    """the same Tensor object passed for every operand: every closure must accumulate (+=) into the one buffer"""
    cases = []
    seed = 0

    def add(op, sh, k, args=None, lo=-9, hi=9):
        nonlocal seed
        seed += 1
        x = dat.arr(sh, lo=lo, hi=hi)
        c = {"op": op, "operands": [x] * k, "gseed": seed, "dup": True}
        if args:
            c["args"] = args
        cases.append(c)
    for sh in [(), (3,), (2, 3), (1, 2), (2, 1, 3)]:
        add("add", sh, 2)
        add("mul", sh, 2)
    for sh in [(2, 2), (3, 3), (2, 3, 3), (1, 2, 2)]:
        add("matmul", sh, 2)
        add("addmm", sh, 3)
        if len(sh) == 2:
            add("linear", sh, 2)
            add("linear", sh, 3)
    # the op built and back-propagated twice over the same leaves
    tw = [{"op": "add", "operands": [dat.arr((2, 3)), dat.arr((3,))]}, {"op": "mul", "operands": [dat.arr((2, 1)), dat.arr((2, 3))]},
          {"op": "matmul", "operands": [dat.arr((2, 2, 3), lo=-9, hi=9), dat.arr((3, 2), lo=-9, hi=9)]},
          {"op": "addmm", "operands": [dat.arr((2,)), dat.arr((2, 3), lo=-9, hi=9), dat.arr((3, 2), lo=-9, hi=9)]},
          {"op": "linear", "operands": [dat.arr((2, 2, 3), lo=-9, hi=9), dat.arr((2, 3), lo=-9, hi=9), dat.arr((2,))]},
          {"op": "linear", "operands": [dat.arr((2, 3), lo=-9, hi=9), dat.arr((2, 3), lo=-9, hi=9)]},
          {"op": "linear", "operands": [dat.arr((3,), lo=-9, hi=9), dat.arr((2, 3), lo=-9, hi=9), dat.arr((2,))]},
          {"op": "addmm", "operands": [dat.arr((2,)), dat.arr((2, 3), lo=-9, hi=9), dat.arr((3,), lo=-9, hi=9)]},
          {"op": "concat", "operands": [dat.arr((2, 3)), dat.arr((1, 3))], "args": {"dim": 0}},
          {"op": "stack", "operands": [dat.arr((2,)), dat.arr((2,))], "args": {"dim": 1}},
          {"op": "unbind", "operands": [dat.arr((2, 3))], "args": {"dim": -1}},
          {"op": "ov", "operands": [dat.arr((2, 3))], "args": {"which": "rsub", "c": 2}},
          {"op": "ov", "operands": [dat.arr((2, 3))], "args": {"which": "mul", "c": -3}}]
    for op in ("sum", "mean", "max", "min"):
        for dim in (None, 1, (0, -1)):
            if op in ("max", "min") and isinstance(dim, tuple):
                continue
            tw.append({"op": op, "operands": [dat.arr((2, 3), unit=MEAN_UNIT if op == "mean" else 1)], "args": {"dim": dim, "keepdims": False}})
    for c in tw:
        seed += 1
        c["gseed"] = seed
        c["twice"] = True
        cases.append(c)
    for sh in [(2,), (2, 3), (1, 2, 2)]:
        for dim in range(-len(sh), len(sh)):
            add("concat", sh, 2, {"dim": dim})
            add("concat", sh, 3, {"dim": dim})
        for dim in range(-len(sh) - 1, len(sh) + 1):
            add("stack", sh, 2, {"dim": dim})
            add("stack", sh, 3, {"dim": dim})
    return cases


# ------------------------------------------------------------------------------------------------
# Coq evaluation of a stream of cases
HEADER = ("From Coq Require Import List ZArith QArith Bool.\nImport ListNotations.\n"
          "From SG Require Import Base.Cmp NumPy.Tensor NumPy.Reduce NumPy.AlgebraRun.\n")


def parse_natlist(out):
    flat = " ".join(out.split())
    res = []
    for m in re.finditer(r"= \[(.*?)\]\s*:\s*list nat", flat):
        body = m.group(1).replace("%nat", "").strip()
        res.append([int(x) for x in body.split(";") if x.strip()])
    return res


def coq_compare(ctx, tag, rows, runner="run", eqb="res_eqb", typ="acase * res", chunk=400):
    """rows: list of (coq_case_text, coq_expected_text). Returns list of mismatching row numbers, or error entries."""
    files = []
    for k in range(0, len(rows), chunk):
        body = ";\n ".join("(%s, %s)" % r for r in rows[k:k + chunk])
        txt = HEADER + "Definition cases : list (%s) :=\n [%s].\nEval vm_compute in (mismatches %s %s cases).\n" % (typ, body, runner, eqb)
        files.append(("%s_%d" % (tag, k // chunk), txt))
    res = ctx.coq_eval_many(files)
    bad, errors = [], []
    for (name, _), k in zip(files, range(0, len(rows), chunk)):
        ok, out = res[name]
        lists = parse_natlist(out)
        if not ok or len(lists) != 1:
            errors.append({"file": name, "error": out[-600:]})
            continue
        bad += [k + i for i in lists[0]]
    return bad, errors


# ------------------------------------------------------------------------------------------------
# oracle (independent of the Coq model)
def _torch():
    import torch
    if not getattr(_torch, "done", False):
        torch.set_num_threads(1)
        _torch.done = True
    return torch


def ref_forward(case, arrays, torch_mode=False):
    """reference semantics with NumPy (arrays) or torch (tensors); raises if the combination is illegal"""
    np = _impl().np
    op = case["op"]
    a = case.get("args", {})
    if torch_mode:
        T = _torch()
        if op == "add":
            return arrays[0] + arrays[1]
        if op == "mul":
            return arrays[0] * arrays[1]
        if op == "matmul":
            return T.matmul(arrays[0], arrays[1])
        if op == "addmm":
            return arrays[0] + T.matmul(arrays[1], arrays[2])
        if op == "linear":
            return T.nn.functional.linear(arrays[0], arrays[1], arrays[2] if len(arrays) > 2 else None)
        if op in ("sum", "mean"):
            d = a["dim"]
            if d is None:
                r = getattr(T, op)(arrays[0])
                return r.reshape((1,) * arrays[0].dim()) if a["keepdims"] else r
            if d == ():
                return arrays[0] * 1   # NumPy: no axis reduced (torch treats () as all dims)
            return getattr(T, op)(arrays[0], dim=d, keepdim=a["keepdims"])
        if op in ("max", "min"):
            d = a["dim"]
            f = T.amax if op == "max" else T.amin
            if d is None:
                r = f(arrays[0])
                return r.reshape((1,) * arrays[0].dim()) if a["keepdims"] else r
            if d == ():
                return arrays[0] * 1
            return f(arrays[0], dim=d, keepdim=a["keepdims"])
        if op == "concat":
            return T.cat(list(arrays), dim=a["dim"])
        if op == "stack":
            return T.stack(list(arrays), dim=a["dim"])
        if op == "unbind":
            return T.unbind(arrays[0], dim=a["dim"])
        if op == "ov":
            return OV_OPS[a["which"]][1](arrays[0], a["c"])
    else:
        if op == "add":
            return arrays[0] + arrays[1]
        if op == "mul":
            return arrays[0] * arrays[1]
        if op == "matmul":
            return np.matmul(arrays[0], arrays[1])
        if op == "addmm":
            return arrays[0] + np.matmul(arrays[1], arrays[2])
        if op == "linear":
            r = np.matmul(arrays[0], arrays[1].T)
            return r + arrays[2] if len(arrays) > 2 else r
        if op in ("sum", "mean", "max", "min"):
            return getattr(np, op)(arrays[0], axis=a["dim"], keepdims=a["keepdims"])
        if op == "concat":
            return np.concatenate(list(arrays), axis=a["dim"])
        if op == "stack":
            return np.stack(list(arrays), axis=a["dim"])
        if op == "unbind":
            return tuple(np.moveaxis(arrays[0], a["dim"], 0))
        if op == "ov":
            return OV_OPS[a["which"]][1](arrays[0], a["c"])
    raise KeyError(op)


def spec_legal(case):
    """is the argument combination legal per the documented NumPy/PyTorch semantics? (independent 30-line spec)"""
    np = _impl().np
    op = case["op"]
    shs = [tuple(np.asarray(o).shape) for o in case["operands"]]
    a = case.get("args", {})

    def bshape(s, t):
        n = max(len(s), len(t))
        s2 = (1,) * (n - len(s)) + s
        t2 = (1,) * (n - len(t)) + t
        out = []
        for x, y in zip(s2, t2):
            if x != y and x != 1 and y != 1:
                return None
            out.append(max(x, y) if (x != 0 and y != 0) else 0)
        return tuple(out)

    def mmshape(s, t):
        if len(s) < 1 or len(t) < 1:
            return None
        s2 = (1,) + s if len(s) == 1 else s
        t2 = t + (1,) if len(t) == 1 else t
        if s2[-1] != t2[-2]:
            return None
        b = bshape(s2[:-2], t2[:-2])
        if b is None:
            return None
        r = b + (s2[-2], t2[-1])
        if len(t) == 1:
            r = r[:-1]
        if len(s) == 1:
            r = r[:-1] if len(t) == 1 else r[:-2] + r[-1:]
        return r
    if op in ("add", "mul"):
        return bshape(*shs) is not None
    if op == "ov":
        return True
    if op == "matmul":
        return len(shs[0]) >= 2 and len(shs[1]) >= 2 and mmshape(*shs) is not None   # documented: at least two dims each
    if op == "addmm":
        p = mmshape(shs[1], shs[2])
        return p is not None and bshape(shs[0], p) is not None
    if op == "linear":
        if len(shs[1]) != 2 or len(shs[0]) < 1 or shs[0][-1] != shs[1][1]:
            return False
        if len(shs) > 2:
            if shs[2] == ():
                return None        # `if bias:` raises for a 0-d bias; not promised by the docstring either way
            return bshape(shs[2], shs[0][:-1] + (shs[1][0],)) is not None
        return True
    if op in ("sum", "mean", "max", "min"):
        n = len(shs[0])
        d = a["dim"]
        if d is None:
            ok = True
            red = list(range(n))
        elif isinstance(d, tuple):
            if not all(-n <= x < n for x in d):
                return False
            red = [x % n for x in d]
            ok = len(set(red)) == len(red)
        else:
            if n == 0:
                if d in (0, -1):
                    return None            # PyTorch and NumPy's ufunc reductions accept it, np.mean does not: either is fine
                ok = False
                red = []
            else:
                ok = -n <= d < n
                red = [d % n] if ok else []
        if ok and op in ("max", "min") and any(shs[0][r] == 0 for r in red):
            return False
        return ok
    if op == "concat":
        n = len(shs[0])
        d = a["dim"]
        if n == 0 or not all(len(s) == n for s in shs) or not (-n <= d < n):
            return False
        ax = d % n
        return all(s[:ax] + s[ax + 1:] == shs[0][:ax] + shs[0][ax + 1:] for s in shs)
    if op == "stack":
        n = len(shs[0]) + 1
        return all(s == shs[0] for s in shs) and -n <= a["dim"] < n
    if op == "unbind":
        n = len(shs[0])
        return -n <= a["dim"] < n
    raise KeyError(op)


def fd_grads(case, info):
    """exact central differences of the implementation's own forward: d/dx_i sum_k <g_k, out_k>"""
    impl = _impl()
    np, sg = impl.np, impl.synapgrad
    ops = [np.array(o, dtype=np.float64) for o in case["operands"]]
    gs = info["gs"]
    op = case["op"]
    h = MEAN_UNIT if op == "mean" else (0.25 if op in ("max", "min") else 1.0)

    dup = case.get("dup")
    if dup:
        ops = ops[:1]

    def L(arrs):
        with sg.no_grad():
            ts_ = [sg.Tensor(x) for x in arrs]
            out = forward_impl(case, ts_ * len(case["operands"]) if dup else ts_)
        outs = list(out) if isinstance(out, (tuple, list)) else [out]
        return sum(float(np.sum(np.asarray(o.data, dtype=np.float64) * g)) for o, g in zip(outs, gs))
    res = []
    for k, x in enumerate(ops):
        gr = np.zeros(x.shape)
        it = np.ndindex(*x.shape) if x.ndim else [()]
        for idx in it:
            xp = [y.copy() for y in ops]
            xm = [y.copy() for y in ops]
            xp[k][idx] += h
            xm[k][idx] -= h
            gr[idx] = (L(xp) - L(xm)) / (2 * h) * (2 if case.get("twice") else 1)
        res.append(gr)
    _impl().reset_modes()
    return res


def torch_grads(case, info):
    T = _torch()
    ts = [T.tensor(_impl().np.array(o, dtype="float64"), requires_grad=True) for o in case["operands"]]
    if case.get("dup"):
        ts = ts[:1] * len(ts)
    out = ref_forward(case, ts, torch_mode=True)
    outs = list(out) if isinstance(out, (tuple, list)) else [out]
    loss = sum((o * T.tensor(g).reshape(o.shape)).sum() for o, g in zip(outs, info["gs"]))
    loss.backward()
    if case.get("dup"):
        ts = ts[:1]
    k = 2 if case.get("twice") else 1
    return [k * t.grad.numpy() if t.grad is not None else _impl().np.zeros(tuple(t.shape)) for t in ts]


def has_ties(case):
    """max/min: does some reduced fibre have a non-unique extremum?"""
    np = _impl().np
    x = np.asarray(case["operands"][0])
    a = case["args"]
    f = np.max if case["op"] == "max" else np.min
    if x.size == 0:
        return False
    m = f(x, axis=a["dim"], keepdims=True)
    cnt = np.sum(x == m, axis=a["dim"], keepdims=True)
    return bool(np.any(cnt > 1))


def subgradient_ok(case, info):
    """at ties: the gradient is g_j times a convex weight supported on the extremal positions of fibre j"""
    np = _impl().np
    x = np.asarray(case["operands"][0])
    a = case["args"]
    f = np.max if case["op"] == "max" else np.min
    m = f(x, axis=a["dim"], keepdims=True)
    g = np.asarray(info["gs"][0])
    gk = g.reshape(m.shape)
    gr = np.asarray(info["grads"][0])
    with np.errstate(divide="ignore", invalid="ignore"):
        gb = np.broadcast_to(gk, x.shape)
        w = np.where(gb != 0, gr / gb, 0.0)
    if np.any((gr != 0) & (np.broadcast_to(gk, x.shape) == 0)):
        return False
    if np.any(w < 0) or np.any((w != 0) & (x != m)):
        return False
    s = np.sum(w, axis=a["dim"], keepdims=True)
    return bool(np.all((s == 1) | (gk == 0)))


def judge(case, obs, info, deep=False):
    """independent verdict on one case.  None = fine; else dict(kind, expected, observed)."""
    np = _impl().np
    legal = spec_legal(case)
    arrays = [np.array(o, dtype=np.float64) for o in case["operands"]]
    if obs is None:
        if legal:
            return {"kind": "rejected-legal", "expected": "accepted (legal per the mirrored NumPy/PyTorch semantics)", "observed": info.get("fw_exc")}
        return None
    outs, grads = obs
    if legal is False:
        return {"kind": "accepted-illegal", "expected": "an exception", "observed": [list(o.shape) for o in outs]}
    try:
        ref = ref_forward(case, arrays)
    except Exception as ex:
        return {"kind": "accepted-illegal", "expected": "NumPy reference raises %r" % (ex,), "observed": [list(o.shape) for o in outs]}
    refs = list(ref) if isinstance(ref, (tuple, list)) else [ref]
    if len(refs) != len(outs) or any(tuple(np.shape(r)) != tuple(o.shape) or not np.array_equal(np.asarray(r, dtype=np.float64), np.asarray(o, dtype=np.float64)) for r, o in zip(refs, outs)):
        return {"kind": "forward-value", "expected": [np.asarray(r).tolist() for r in refs], "observed": [o.tolist() for o in outs]}
    np_ = np
    torch_comparable = not (case["op"] == "linear" and (len(arrays) > 2 and arrays[2].ndim != 1 or arrays[0].ndim < 2))   # torch documents bias (out,) and treats other ranks differently
    if torch_comparable:
        try:
            tref = ref_forward(case, [_torch().tensor(x) for x in arrays], torch_mode=True)
            trefs = list(tref) if isinstance(tref, (tuple, list)) else [tref]
            if any(tuple(t.shape) != tuple(o.shape) or not np.array_equal(t.numpy(), o) for t, o in zip(trefs, outs)):
                return {"kind": "forward-value-torch", "expected": [t.numpy().tolist() for t in trefs], "observed": [o.tolist() for o in outs]}
        except Exception:
            pass       # torch is stricter on some legal NumPy forms (e.g. matmul of 1-D with 0 batch); NumPy reference already agreed
    if grads is None:
        return {"kind": "backward-raises", "expected": "backward completes (forward was accepted)", "observed": info.get("bw_exc")}
    for t, g in zip(info["tensors"], grads):
        if tuple(g.shape) != tuple(t.shape) or g.dtype != t.dtype:
            return {"kind": "grad-shape-dtype", "expected": [list(t.shape), str(t.dtype)], "observed": [list(g.shape), str(g.dtype)]}
    if case["op"] in ("max", "min") and has_ties(case):
        if not subgradient_ok(case, info):
            return {"kind": "grad-not-a-subgradient", "expected": "g times a convex weight on the extremal positions of each fibre", "observed": [g.tolist() for g in grads]}
        return None
    try:
        tg = torch_grads(case, info)
    except Exception:
        tg = None
    t_bad = tg is not None and any(tuple(a_.shape) != tuple(b_.shape) or not np.array_equal(a_, b_) for a_, b_ in zip(tg, grads))
    if tg is not None and not t_bad and not deep:
        return None
    fd = fd_grads(case, info)
    f_bad = any(tuple(a_.shape) != tuple(b_.shape) or not np.array_equal(a_, b_) for a_, b_ in zip(fd, grads))
    if f_bad and (t_bad or tg is None):
        return {"kind": "grad-value", "expected": {"finite_differences": [x.tolist() for x in fd], "torch": None if tg is None else [x.tolist() for x in tg]},
                "observed": [g.tolist() for g in grads]}
    return None


# ------------------------------------------------------------------------------------------------
def run_stream(ctx, name, cases, deep_oracle=False, exhaustive=False, note=""):
    """K correspondence + oracle on one family of cases"""
    np = _impl().np
    rows, verdicts, obs_all = [], [], []
    nontrivial = set()
    n_rej = 0
    for case in cases:
        obs, info = run_impl(case)
        obs_all.append((obs, info))
        rows.append((coq_case(case, info.get("gs", [])), cres(obs)))
        if obs is None:
            n_rej += 1
        else:
            d = describe(case)
            if any(len(s) > 0 for s in d["shapes"]):
                nontrivial.add(json.dumps(d, sort_keys=True, default=str))
        v = judge(case, obs, info, deep=deep_oracle)
        if v is not None:
            verdicts.append((case, v))
    bad, errors = coq_compare(ctx, re.sub(r"[^A-Za-z0-9]", "_", name), rows)
    mism = list(errors)
    for i in bad:
        obs, info = obs_all[i]
        mism.append({"case": describe(cases[i]), "implementation": None if obs is None else
                     {"out_shapes": [list(o.shape) for o in obs[0]], "backward": "raises: %s" % info.get("bw_exc") if obs[1] is None else "ok"}})
    ctx.tie("algebra/" + name, "correspondence", len(cases), len(nontrivial), mism, exhaustive=exhaustive,
            note=(note + " (%d rejected by the implementation)" % n_rej).strip())
    if cases:
        mid = cases[len(cases) // 2]
        o = obs_all[len(cases) // 2][0]
        ctx.sample({"case": describe(mid), "observed_out_shapes": None if o is None else [list(x.shape) for x in o[0]]})
    # a disagreeing correspondence case not explained by the oracle is judged again with the deep oracle
    flagged = {id(c) for c, _ in verdicts}
    for i in bad:
        if id(cases[i]) not in flagged:
            obs, info = obs_all[i]
            v = judge(cases[i], obs, info, deep=True)
            if v is not None:
                verdicts.append((cases[i], v))
    return verdicts


SITE = {"add": "functional.add", "mul": "functional.mul", "matmul": "functional.matmul", "addmm": "functional.addmm",
        "linear": "nn.functional.linear", "sum": "functional.sum", "mean": "functional.mean", "max": "functional.max",
        "min": "functional.min", "concat": "functional.concat", "stack": "functional.stack", "unbind": "functional.unbind",
        "ov": "tensor.operators"}


def finding_class(case, v):
    """class of a failing input, used to match open entries of known_findings.json"""
    np = _impl().np
    op = case["op"]
    a = case.get("args", {})
    shs = [tuple(np.asarray(o).shape) for o in case["operands"]]
    if v["kind"] == "backward-raises":
        if op in ("max", "min") and isinstance(a.get("dim"), tuple):
            return "tuple dim: accepted forward, backward raises"
        if op in ("sum", "max", "min") and shs[0] == () and a.get("dim") in (0, -1):
            return "0-d operand with int dim: accepted forward, backward raises"
        if op in ("addmm", "linear") and any(len(s) < 2 for s in shs[1:2] + (shs[2:3] if op == "addmm" else [])) or (op == "linear" and len(shs[0]) < 2):
            return "1-D matrix operand: accepted forward, backward raises"
    return v["kind"]


KINDS_BY_PID = {"C01": ("backward-raises", "grad-value", "grad-not-a-subgradient", "grad-shape-dtype"),
                "C05": ("rejected-legal", "accepted-illegal", "forward-value", "forward-value-torch"),
                "C10": ("grad-shape-dtype",),
                "C14": ()}


def report(ctx, verdicts, pid=None):
    seen = set()
    kinds = KINDS_BY_PID.get(pid or ctx.pid)
    for case, v in verdicts:
        if kinds is not None and v["kind"] not in kinds:
            continue
        site = SITE.get(case["op"], case["op"]) + ("/backward" if v["kind"].startswith(("backward", "grad")) else "/forward")
        klass = finding_class(case, v)
        if (site, klass) in seen:
            continue
        seen.add((site, klass))
        ctx.witness(site, klass, case_json(case), v["expected"], v["observed"], note=v["kind"])


def part_unbroadcast(ctx, dat):
    """cpu_ops.unbroadcast called directly (all three branches, also on non-broadcastable pairs)"""
    impl = _impl()
    np = impl.np
    cases = gen_unbroadcast(ctx, dat)
    rows = []
    n_rej = 0
    nontrivial = set()
    for c in cases:
        g = c["operands"][0]
        sh = c["args"]["shape"]
        try:
            r = impl.cpu_ops.unbroadcast(g.copy(), sh)
            exp = "(Some (%s, None))" % clist([ctz(r)])
            if tuple(r.shape) != tuple(g.shape):
                nontrivial.add((g.shape, sh))
        except Exception:
            exp = "None"
            n_rej += 1
        rows.append(("KUnb %s %s" % (ctz(g), cshape(sh)), exp))
    bad, errors = coq_compare(ctx, "unb", rows)
    mism = list(errors) + [{"grad_shape": list(cases[i]["operands"][0].shape), "target": list(cases[i]["args"]["shape"])} for i in bad]
    ctx.tie("algebra/unbroadcast-kernel", "correspondence", len(cases), len(nontrivial), mism, exhaustive=True,
            note="cpu_ops.unbroadcast on every (grad shape, target shape) of ranks <= 3 over sizes {1,2,3}; %d raise" % n_rej)
    # C10 oracle: for every broadcastable pair the result has exactly the target shape
    viol = []
    for c in cases:
        g, sh = c["operands"][0], c["args"]["shape"]
        try:
            ok = np.broadcast_shapes(sh, g.shape) == tuple(g.shape)
        except ValueError:
            ok = False
        if ok:
            try:
                r = impl.cpu_ops.unbroadcast(g.copy(), sh)
                want = np.zeros(sh)
                # adjoint of broadcasting: sum over the broadcast axes
                full = g.copy()
                lead = g.ndim - len(sh)
                full = full.sum(axis=tuple(range(lead))) if lead else full
                axes = tuple(i for i, d in enumerate(sh) if d == 1 and full.shape[i] != 1)
                want = full.sum(axis=axes, keepdims=True) if axes else full
                if tuple(r.shape) != tuple(sh) or not np.array_equal(r, want):
                    viol.append((c, r))
            except Exception as ex:
                viol.append((c, repr(ex)))
    for c, r in viol[:1]:
        ctx.witness("cpu_ops.unbroadcast", "broadcastable pair", {"grad": c["operands"][0].tolist(), "grad_shape": list(c["operands"][0].shape), "shape": list(c["args"]["shape"])},
                    "the sum of grad over the broadcast axes, with exactly the target shape", r.tolist() if hasattr(r, "tolist") else r)


def part_divq(ctx, dat):
    """division overloads on dyadic data, compared with the model over Q"""
    impl = _impl()
    np, sg = impl.np, impl.synapgrad
    rng = ctx.rng
    pool = [1, -1, 2, -2, 4, -4, 0.5, -0.5, 0.25, 8]
    rows = []
    descr = []

    def cq(v):
        return common.cq(Fraction(float(v)))

    def ctq(a):
        a = np.asarray(a, dtype=np.float64)
        return "(%s, %s)" % (cshape(a.shape), clist([cq(v) for v in a.ravel()]))
    viol = []
    for sh in [(), (3,), (2, 3), (1, 3), (2, 1, 2)]:
        for c in (2, -4, 0.5, 1):
            x = np.array([rng.choice(pool) for _ in range(int(np.prod(sh)) if sh else 1)], dtype=np.float64).reshape(sh)
            t = sg.Tensor(x)
            r1 = (t / c).data
            r2 = (c / t).data
            rows.append(("QDivTS %s %s" % (ctq(x), cq(c)), "Some %s" % ctq(r1)))
            rows.append(("QRdivTS %s %s" % (cq(c), ctq(x)), "Some %s" % ctq(r2)))
            descr += [("t/c", sh, c), ("c/t", sh, c)]
            if not np.array_equal(r1, x / c) or not np.array_equal(r2, c / x):
                viol.append(({"t": x.tolist(), "c": c}, [(x / c).tolist(), (c / x).tolist()], [r1.tolist(), r2.tolist()]))
        for sb in [(), (3,), (1,), sh]:
            y = np.array([rng.choice(pool) for _ in range(int(np.prod(sb)) if sb else 1)], dtype=np.float64).reshape(sb)
            x = np.array([rng.choice(pool) for _ in range(int(np.prod(sh)) if sh else 1)], dtype=np.float64).reshape(sh)
            try:
                r = (sg.Tensor(x) / sg.Tensor(y)).data
                exp = "Some %s" % ctq(r)
                if not np.array_equal(r, x / y):
                    viol.append(({"a": x.tolist(), "b": y.tolist()}, (x / y).tolist(), r.tolist()))
            except Exception:
                exp = "None"
            rows.append(("QDivTT %s %s" % (ctq(x), ctq(y)), exp))
            descr.append(("a/b", sh, sb))
    bad, errors = coq_compare(ctx, "divq", rows, runner="runq", eqb="(option_eqb tq_eqb)", typ="qcase * option tq")
    mism = list(errors) + [{"case": list(map(str, descr[i]))} for i in bad]
    ctx.tie("algebra/division-overloads(Q)", "correspondence", len(rows), len(rows), mism,
            note="t / c, c / t, a / b on dyadic float64 data against ov_div_ts / ov_rdiv_ts / ov_div_tt over Q")
    for inp, exp, obs in viol[:1]:
        ctx.witness("tensor.operators/forward", "division value", inp, exp, obs)


def part_scalar_dtype(ctx):
    """Python-scalar operands take the tensor's floating dtype: for a float64 tensor and a non-dyadic scalar the result is
    NumPy's float64 result (bit-exact for + - *, to 4 ulp for the forms computed through c**-1 / t**-1)"""
    impl = _impl()
    np, sg = impl.np, impl.synapgrad
    x = np.array([1.0, 3.0, -7.0, 0.3, 1e3], dtype=np.float64)
    forms = [("t+c", lambda t, c: t + c, True), ("c+t", lambda t, c: c + t, True), ("t-c", lambda t, c: t - c, True), ("c-t", lambda t, c: c - t, True),
             ("t*c", lambda t, c: t * c, True), ("c*t", lambda t, c: c * t, True), ("t/c", lambda t, c: t / c, False), ("c/t", lambda t, c: c / t, False)]
    viol = []
    n = 0
    for dt in (np.float64, np.float32):
        xx = x.astype(dt)
        eps = np.finfo(dt).eps
        for c in (0.1, 3.0, 1.0 / 3.0, 7):
            for name, f, exact in forms:
                n += 1
                r = f(sg.Tensor(xx.copy()), c).data
                ref = f(xx.copy(), dt(c) if dt is np.float32 else c)
                ok = r.dtype == dt and (np.array_equal(r, ref) if exact else bool(np.all(np.abs(r - ref) <= 4 * eps * np.abs(ref))))
                if not ok:
                    viol.append(({"form": name, "t": xx.tolist(), "dtype": str(np.dtype(dt)), "c": c}, {"dtype": str(np.dtype(dt)), "values": ref.tolist()}, {"dtype": str(r.dtype), "values": r.tolist()}))
    ctx.extra["scalar_dtype_cases"] = n
    ctx.notes.append("scalar-operand oracle (implementation only): %d (form, dtype, scalar) combinations against NumPy in the tensor's dtype" % n)
    for inp, exp, obs in viol[:1]:
        ctx.witness("tensor.operators/forward", "python scalar operand rounded to another dtype", inp, exp, obs)


def part_c10(ctx, dat):
    """dtype and shape of every .grad equal to the tensor's, f32/f64 mixes, upstream gradient of either dtype"""
    impl = _impl()
    np = impl.np
    cases = []
    for sa, sb in (((2, 3), (3,)), ((), (2, 2)), ((2, 1, 3), (3, 1)), ((1,), (1,))):
        cases.append({"op": "add", "operands": [dat.arr(sa), dat.arr(sb)]})
        cases.append({"op": "mul", "operands": [dat.arr(sa), dat.arr(sb)]})
    cases.append({"op": "matmul", "operands": [dat.arr((2, 2, 3), lo=-9, hi=9), dat.arr((3, 2), lo=-9, hi=9)]})
    cases.append({"op": "addmm", "operands": [dat.arr((2,)), dat.arr((3, 2, 3), lo=-9, hi=9), dat.arr((3, 2), lo=-9, hi=9)]})
    cases.append({"op": "linear", "operands": [dat.arr((2, 2, 3), lo=-9, hi=9), dat.arr((2, 3), lo=-9, hi=9), dat.arr((2,))]})
    cases.append({"op": "concat", "operands": [dat.arr((2, 3)), dat.arr((1, 3))], "args": {"dim": 0}})
    cases.append({"op": "stack", "operands": [dat.arr((2,)), dat.arr((2,))], "args": {"dim": -1}})
    cases.append({"op": "unbind", "operands": [dat.arr((2, 3))], "args": {"dim": 1}})
    for op in ("sum", "mean", "max", "min"):
        for dim in (None, 1, -2, (0, -1)):
            for kd in (False, True):
                if op in ("max", "min") and isinstance(dim, tuple):
                    continue
                cases.append({"op": op, "operands": [dat.arr((2, 3), unit=MEAN_UNIT if op == "mean" else 1)], "args": {"dim": dim, "keepdims": kd}})
    for which in OV_OPS:
        cases.append({"op": "ov", "operands": [dat.arr((2, 3))], "args": {"which": which, "c": 2}})
    n = 0
    viol = []
    for c in cases:
        k = len(c["operands"])
        for dts in itertools.product((np.float32, np.float64), repeat=k):
            for gdt in (np.float32, np.float64):
                n += 1
                obs, info = run_impl(c, dtypes=list(dts), gdtype=gdt)
                if obs is None or obs[1] is None:
                    viol.append((c, dts, gdt, "raises", info.get("fw_exc") or info.get("bw_exc")))
                    continue
                want_out = np.result_type(*dts)
                for o in info["outs"]:
                    if o.dtype != want_out:
                        viol.append((c, dts, gdt, "result dtype %s" % want_out, str(o.dtype)))
                for t, g in zip(info["tensors"], obs[1]):
                    if g.dtype != t.dtype or tuple(g.shape) != tuple(t.shape):
                        viol.append((c, dts, gdt, "grad %s %s" % (t.dtype, t.shape), "%s %s" % (g.dtype, g.shape)))
    ctx.extra["c10_dtype_cases"] = n
    ctx.notes.append("C10 oracle (implementation only): %d (op, operand dtypes, upstream dtype) combinations; result dtype = NumPy promotion of the operand dtypes, every .grad has its tensor's dtype and shape" % n)
    for c, dts, gdt, exp, obs in viol[:1]:
        d = case_json(c)
        d["dtypes"] = [str(np.dtype(x)) for x in dts]
        d["upstream_dtype"] = str(np.dtype(gdt))
        ctx.witness(SITE[c["op"]] + "/dtype", "dtype/shape of result or grad", d, exp, obs)
    return n


IDENTITY_MODES = ("plain", "second-consumer-first", "second-consumer-last", "applied-twice", "two-backward-passes")


def identity_sides(kind, p):
    """(fused, composed, unit of the upstream gradients) of a C14 identity; p holds its arguments"""
    impl = _impl()
    TF, NF = impl.TF, impl.NF
    dim = p.get("dim")
    if isinstance(dim, list):
        dim = tuple(dim)
    if kind == "mean = sum / count":
        kd, cnt = p["keepdims"], p["count"]
        return (lambda t: TF.mean(t, dim, kd)), (lambda t: TF.sum(t, dim, kd) / cnt), MEAN_UNIT * 4
    if kind == "stack = concat of unsqueezed":
        return (lambda *t: TF.stack(list(t), dim)), (lambda *t: TF.concat([TF.unsqueeze(u, dim) for u in t], dim)), 1
    if kind == "unbind inverts stack":
        return (lambda *t: TF.unbind(TF.stack(list(t), dim), dim)), (lambda *t: tuple(u * 1.0 for u in t)), 1
    if kind == "stack inverts unbind":
        return (lambda t: TF.stack(TF.unbind(t, dim), dim)), (lambda t: t * 1.0), 1
    if kind == "a - b = a + (-b)":
        return (lambda a, b: a - b), (lambda a, b: TF.add(a, TF.neg(b))), 1
    if kind == "a / b = a * b**-1":
        return (lambda a, b: a / b), (lambda a, b: TF.mul(a, TF.pow(b, -1))), 1
    if kind == "addmm = a + b @ c":
        return (lambda a, b, c: TF.addmm(a, b, c)), (lambda a, b, c: TF.add(a, TF.matmul(b, c))), 1
    if kind == "linear = x @ W.T + b":
        return (lambda x, w, b: NF.linear(x, w, b)), (lambda x, w, b: TF.add(TF.matmul(x, TF.transpose(w, 0, 1)), b)), 1
    if kind == "linear (no bias) = x @ W.T":
        return (lambda x, w: NF.linear(x, w)), (lambda x, w: TF.matmul(x, TF.transpose(w, 0, 1))), 1
    raise KeyError(kind)


def identity_run_side(fn, inputs, mode, seed, unit):
    """one side of an identity, alone or embedded in a larger graph; returns (outputs, leaf gradients)"""
    impl = _impl()
    np, sg, TF = impl.np, impl.synapgrad, impl.TF
    impl.reset_modes()
    ts = [sg.Tensor(np.array(x, dtype=np.float64), requires_grad=True) for x in inputs]

    def apply():
        out = fn(*ts)
        return list(out) if isinstance(out, (tuple, list)) else [out]

    def pairing(outs, gs):
        tot = None
        for o, g in zip(outs, gs):
            term = TF.sum(TF.mul(o, sg.Tensor(g)))
            tot = term if tot is None else tot + term
        return tot
    outs = apply()
    gs = make_upstream({"gseed": seed}, [o.shape for o in outs], unit)
    if mode == "plain":
        for o, g in zip(outs, gs):
            o.backward(sg.Tensor(g))
    elif mode in ("second-consumer-first", "second-consumer-last"):
        # every operand also feeds a second consumer; both orders of the two terms (= both orders of the closures in backward)
        vs = make_upstream({"gseed": seed + 7919}, [t.shape for t in ts], unit)
        other = pairing(ts, vs)
        ident = pairing(outs, gs)
        loss = other + ident if mode == "second-consumer-first" else ident + other
        loss.backward()
    elif mode == "applied-twice":
        gs2 = make_upstream({"gseed": seed + 104729}, [o.shape for o in outs], unit)
        loss = pairing(outs, gs) + pairing(apply(), gs2)
        loss.backward()
    else:   # two backward passes over the same leaves without zeroing
        for o, g in zip(outs, gs):
            o.backward(sg.Tensor(g))
        for o, g in zip(apply(), gs):
            o.backward(sg.Tensor(g))
    return [np.asarray(o.data) for o in outs], [t._grad if t._grad is not None else np.zeros(t.shape) for t in ts]


def identity_compare(kind, p, inputs, mode, seed):
    """None if the fused and the composed side agree exactly on outputs and on every leaf gradient, else (fused, composed)"""
    np = _impl().np
    f, h, unit = identity_sides(kind, p)
    try:
        o1, g1 = identity_run_side(f, inputs, mode, seed, unit)
        o2, g2 = identity_run_side(h, inputs, mode, seed, unit)
    except Exception as ex:
        return ("raised %r" % (ex,), None)
    same = len(o1) == len(o2) and all(a.shape == b.shape and np.array_equal(a, b) for a, b in zip(o1, o2)) and \
        all(a.shape == b.shape and np.array_equal(a, b) for a, b in zip(g1, g2))
    if same:
        return None
    return ({"outputs": [a.tolist() for a in o1], "leaf_grads": [a.tolist() for a in g1]}, {"outputs": [a.tolist() for a in o2], "leaf_grads": [a.tolist() for a in g2]})


def part_c14(ctx, dat):
    """fused form vs documented composition, both sides on the implementation (values and gradients), exact; each identity alone
    and embedded in a larger graph"""
    impl = _impl()
    np = impl.np
    rng = ctx.rng
    viol = []
    n = 0

    def both(kind, inputs, **p):
        nonlocal n
        for mode in IDENTITY_MODES:
            n += 1
            r = identity_compare(kind, p, inputs, mode, n)
            if r is not None:
                viol.append(({"identity": kind, "args": p, "mode": mode, "seed": n, "inputs": [np.asarray(x).tolist() for x in inputs],
                              "shapes": [list(np.asarray(x).shape) for x in inputs]}, r))
    shapes = [s for s in shapes_upto(3) if len(s) >= 1]
    for sh in shapes:
        nd = len(sh)
        for dim in [None] + list(range(-nd, nd)) + [tuple(range(nd)), (-1, 0)[:nd]]:
            for kd in (False, True):
                x = dat.arr(sh, unit=MEAN_UNIT)
                cnt = x.size if dim is None else int(np.prod([sh[d] for d in ((dim,) if isinstance(dim, int) else dim)]))
                both("mean = sum / count", [x], dim=dim, keepdims=kd, count=cnt)
        if nd <= 2:
            for dim in range(-nd - 1, nd + 1):
                xs = [dat.arr(sh) for _ in range(rng.choice((1, 2, 3)))]
                both("stack = concat of unsqueezed", xs, dim=dim)
                both("unbind inverts stack", xs, dim=dim)
        for dim in range(-nd, nd):
            both("stack inverts unbind", [dat.arr(sh)], dim=dim)
        y = dat.arr(sh[-1:])
        both("a - b = a + (-b)", [dat.arr(sh), y])
        pw = np.array([rng.choice([1, -1, 2, -2, 4, 0.5]) for _ in range(int(np.prod(sh[-1:])))], dtype=np.float64).reshape(sh[-1:])
        both("a / b = a * b**-1", [dat.arr(sh) * 8, pw])
    for sa, sb, sc in (((2,), (3, 2, 3), (3, 2)), ((2, 2), (2, 3), (3, 2)), ((), (2, 3), (3, 1)), ((3, 1, 2), (2, 3), (3, 3, 2)), ((1, 2), (2, 2, 3), (2, 3, 2))):
        both("addmm = a + b @ c", [dat.arr(sa), dat.arr(sb, lo=-9, hi=9), dat.arr(sc, lo=-9, hi=9)])
    for xs in ((2, 3), (1, 3), (2, 2, 3), (3, 1, 3), (2, 2, 2, 3)):
        for out in (1, 2):
            both("linear = x @ W.T + b", [dat.arr(xs, lo=-9, hi=9), dat.arr((out, 3), lo=-9, hi=9), dat.arr((out,))])
            both("linear (no bias) = x @ W.T", [dat.arr(xs, lo=-9, hi=9), dat.arr((out, 3), lo=-9, hi=9)])
    ctx.extra["c14_identity_cases"] = n
    ctx.notes.append("C14 oracle (implementation only): %d instances of mean=sum/count, stack=concat∘unsqueeze, unbind∘stack=id, stack∘unbind=id, a-b, a/b, addmm, linear, "
                     "each alone and embedded in a larger graph (operands with a second consumer in both term orders, the identity applied twice, two backward passes without zeroing); "
                     "values and all leaf gradients of the fused and the composed side compared exactly" % n)
    for inp, (l, r) in viol[:1]:
        ctx.witness("identity: " + inp["identity"], "fused vs composition [%s]" % inp["mode"], inp, {"composed side": r}, {"fused side": l})
    return n


def part_dim_types(ctx):
    """concat / stack reject a non-int `dim` (wrapper type checks)"""
    impl = _impl()
    np, sg, TF = impl.np, impl.synapgrad, impl.TF
    x = sg.Tensor(np.zeros((2, 2)))
    bad = []
    for f in (TF.concat, TF.stack):
        for d in (None, 1.0, (0,), "0"):
            try:
                f([x, x], d)
                bad.append((f.__name__, repr(d)))
            except Exception:
                pass
    for name, d in bad[:1]:
        ctx.witness("functional.%s/forward" % name, "non-int dim accepted", {"dim": d}, "an exception", "accepted")


PROPS = {"C01": "Props/C01_algebra.v", "C05": "Props/C05_algebra.v", "C10": "Props/C10_shapes.v", "C14": "Props/C14_algebra.v"}
EXTRA_PROPS = {"C01": ["Props/C01_maxreal.v"]}
MODEL_VO = ["NumPy/AlgebraRun.vo"]

STREAMS = [
    ("add", lambda ctx, dat: gen_broadcast_pairs(ctx, dat, "add"), True, "every pair of operand shapes of ranks <= 3 over sizes {1,2,3} (incl. 0-d, mismatched ranks, incompatible pairs)"),
    ("mul", lambda ctx, dat: gen_broadcast_pairs(ctx, dat, "mul"), False, "pairs of operand shapes of ranks <= 3 over sizes {1,2,3}"),
    ("reductions", gen_reductions, False, "sum/mean/max/min: dim None, every int in [-n,n), tuples of distinct dims in mixed signs and orders, (), out-of-range and repeated dims; keepdims both; ties for max/min"),
    ("matmul", gen_matmul, False, "every pair of batch shapes of ranks <= 2 (results up to rank 4), random (n,k,m); inner mismatch, rank < 2, incompatible batches"),
    ("addmm-linear", gen_addmm_linear, False, "addmm with broadcast a and batched b, c; linear with 1-D..4-D x, bias None/(out,)/(1,out)/0-d/wrong"),
    ("concat-stack-unbind", gen_concat_family, False, "1-3 operands of differing sizes along every dim in [-n,n) and out of range; mismatched shapes/ranks, 0-d"),
    ("overloads", gen_overloads, False, "t+c, c+t, t-c, c-t, t*c, c*t, -t with Python scalars"),
    ("same-operand", gen_same_operand, False, "x+x, x*x, x@x, addmm(x,x,x), linear(x,x[,x]), concat/stack([x,x[,x]]): one buffer receives every contribution"),
]
BY_PID = {"C01": ["add", "mul", "reductions", "matmul", "addmm-linear", "concat-stack-unbind", "overloads", "same-operand", "unb"],
          "C05": ["add", "reductions", "matmul", "addmm-linear", "concat-stack-unbind", "overloads", "divq", "dimtypes", "scalardtype"],
          "C10": ["unb", "c10", "mul", "scalardtype"],
          "C14": ["c14", "addmm-linear", "divq", "overloads", "same-operand"]}


def run_part(ctx, parts=None, as_pid=None):
    """entry point for the registered checks of C01 / C05 / C10 / C14 (as_pid: act as that property's part)"""
    dat = Data(ctx.rng)
    pid = as_pid or ctx.pid
    ctx.extra["algebra_part_of"] = pid
    props = PROPS.get(pid)
    full_part = parts is None
    if props and os.path.exists(os.path.join(common.COQ, props)):
        ctx.build_props(props_rel=props, extra_targets=MODEL_VO)
        for extra in (EXTRA_PROPS.get(pid, []) if full_part else []):      # e.g. the analytic max/min statements over R
            if os.path.exists(os.path.join(common.COQ, extra)):
                ctx.build_props(props_rel=extra)
    else:
        ok, log = common.coq_make(["Base/Cmp.vo"] + MODEL_VO)
        if not ok:
            ctx.broken.append({"kind": "proof", "what": "build of the E2 models failed", "detail": log[-800:]})
    parts = parts or BY_PID.get(pid) or [s[0] for s in STREAMS] + ["unb", "divq", "c10", "c14", "dimtypes", "scalardtype"]
    verdicts = []
    for name, gen, exhaustive, note in STREAMS:
        if name in parts:
            cases = gen(ctx, dat)
            verdicts += run_stream(ctx, name, cases, deep_oracle=not ctx.quick, exhaustive=exhaustive, note=note)
            ctx.log("algebra stream", name, len(cases), "cases")
    if "unb" in parts:
        part_unbroadcast(ctx, dat)
    if "divq" in parts:
        part_divq(ctx, dat)
    if "c10" in parts:
        part_c10(ctx, dat)
    if "c14" in parts:
        part_c14(ctx, dat)
    if "dimtypes" in parts:
        part_dim_types(ctx)
    if "scalardtype" in parts:
        part_scalar_dtype(ctx)
    report(ctx, verdicts, pid)
    ctx.extra.setdefault("algebra_oracle_verdicts", 0)
    ctx.extra["algebra_oracle_verdicts"] += len(verdicts)


def replay(ctx, data):
    """re-run a stored witness of this part on the implementation; returns 1 if it still fails"""
    inp = data.get("input", {})
    if "identity" in inp and "mode" in inp:
        r = identity_compare(inp["identity"], inp.get("args", {}), [_impl().np.array(x, dtype="float64").reshape(s) for x, s in zip(inp["inputs"], inp["shapes"])], inp["mode"], inp.get("seed", 1))
        print("identity", inp["identity"], inp.get("args"), "mode", inp["mode"])
        print("fused / composed:", r)
        return 1 if r is not None else 0
    if "op" not in inp or "operands" not in inp:
        print(json.dumps(data, indent=1)[:2000])
        return 1
    case = case_from_json(inp)
    obs, info = run_impl(case)
    v = judge(case, obs, info, deep=True)
    print("case", describe(case))
    print("observed", None if obs is None else {"outs": [o.tolist() for o in obs[0]], "grads": None if obs[1] is None else [g.tolist() for g in obs[1]]},
          info.get("fw_exc") or info.get("bw_exc") or "")
    print("verdict", v)
    return 1 if v is not None else 0
