"""C17 — backward scales to deep graphs and untracked computations keep no history.

Obligations : coq/Props/C17.v (backward never fails on a well-formed graph of any depth; closure calls = reachable has_fn
              nodes, each once; ordering loop iterations = sum over reached nodes of 1 + #operands; untracked results have no
              children, retain only themselves and are never traversed into)
Ties        : K  chains of 150 / 300 sequential ops and untracked update loops: recorded arena, buffers and closure log vs the
                 model (exact); recorded arena vs the wrapper contract
              K  deep chains (10^3, 10^4, 5*10^4 ops) in a subprocess: completes, every closure exactly once, count = number
                 of has_fn nodes (theorem calls_linear), exact gradient; weak-reference liveness of operands of untracked results
              T  source census: Tensor.backward orders the graph with a loop (no nested function, no recursion)
Oracle      : the probes themselves (completion, call counts, exact gradient, liveness) judged without the model.
"""
import ast, json, os, re
from lib import common
from lib import engine_k as K

SITE_DEEP = "tensor.Tensor.backward/deep-graph"
SITE_MEM = "tensor.Tensor.__init__/untracked-history"


def probe(args, timeout=600):
    env = {"VERIF_REPO": common.REPO, "PYTHONPATH": common.ROOT}
    rc, out = common.sh("%s -m lib.engine_probe %s" % (common.PY, " ".join(str(a) for a in args)), timeout=timeout, cwd=common.ROOT, env=env)
    m = re.search(r"^PROBE (.*)$", out, re.M)
    if rc != 0 or not m:
        return {"ok": False, "error": "probe process failed (rc=%s): %s" % (rc, out[-300:])}
    return json.loads(m.group(1))


def chain_program(n):
    steps = [{"k": "leaf", "id": 0, "data": [1], "shape": [1], "req": True}]
    cur = 0
    for i in range(n):
        if i % 97 == 96:
            steps.append({"k": "op", "op": "add", "args": [cur, 0], "out": [i + 1]})
        else:
            steps.append({"k": "op", "op": "mulc", "args": [cur], "out": [i + 1], "p": {"c": -1 if i % 2 else 1}})
        cur = i + 1
    steps.append({"k": "backward", "root": cur, "seed": [1]})
    steps.append({"k": "backward", "root": cur, "seed": [2]})
    return steps


def untracked_program(iters, mode):
    steps = [{"k": "leaf", "id": 0, "data": [1, 2], "shape": [2], "req": mode != "plain"},
             {"k": "leaf", "id": 1, "data": [2, 1], "shape": [2], "req": False}]
    cur = 0
    nid = 2
    for i in range(iters):
        steps.append({"k": "op", "op": "mulc", "args": [1], "out": [nid], "p": {"c": 2}, "nograd": mode == "no_grad"})
        steps.append({"k": "op", "op": "sub", "args": [cur, nid], "out": [nid + 1], "nograd": mode == "no_grad"})
        cur = nid + 1
        nid += 2
    # use the final untracked value inside a tracked graph and differentiate: nothing below it may be visited
    steps.append({"k": "leaf", "id": nid, "data": [1, 1], "shape": [2], "req": True})
    steps.append({"k": "op", "op": "mul", "args": [cur, nid], "out": [nid + 1]})
    steps.append({"k": "op", "op": "sum", "args": [nid + 1], "out": [nid + 2]})
    steps.append({"k": "backward", "root": nid + 2, "seed": [1]})
    return steps


def census():
    """Tensor.backward contains the ordering as a loop: no nested def/lambda, a `while` over an explicit stack."""
    src = open(os.path.join(common.REPO, "synapgrad", "tensor.py")).read()
    tree = ast.parse(src)
    fn = None
    for c in ast.walk(tree):
        if isinstance(c, ast.ClassDef) and c.name == "Tensor":
            for f in c.body:
                if isinstance(f, ast.FunctionDef) and f.name == "backward":
                    fn = f
    if fn is None:
        return ["Tensor.backward not found"]
    probs = []
    inner = [n for n in ast.walk(fn) if isinstance(n, (ast.FunctionDef, ast.Lambda, ast.AsyncFunctionDef)) and n is not fn]
    if inner:
        probs.append("Tensor.backward defines an inner function at line %d (recursive traversal?)" % inner[0].lineno)
    calls_self = [n for n in ast.walk(fn) if isinstance(n, ast.Call) and isinstance(n.func, ast.Attribute) and n.func.attr == "backward"]
    if calls_self:
        probs.append("Tensor.backward calls .backward at line %d" % calls_self[0].lineno)
    if not any(isinstance(n, ast.While) for n in ast.walk(fn)):
        probs.append("no while loop in Tensor.backward")
    return probs


def run(ctx):
    ctx.build_props(extra_targets=["Engine/History.vo"])

    # ---- T: the traversal is a loop ------------------------------------------------------------
    probs = census()
    ctx.tie("tensor.py: ordering is an explicit-stack loop", "translator", 1, 1, [{"problem": p} for p in probs], exhaustive=True)

    # ---- K: chains and untracked loops through the model ------------------------------------------
    progs = [chain_program(150), chain_program(300 if ctx.quick else 500), untracked_program(30, "no_grad"), untracked_program(30, "plain"),
             untracked_program(12, "tracked")]
    execs = [K.execute(p) for p in progs]
    tm, cm, errs = K.run_corr(ctx, execs, "deep", chunk=1)
    mism = list(errs) + [{"program": K.describe(progs[i])[:6], "n_steps": len(progs[i])} for i in tm]
    ctx.tie("engine/chains and untracked loops vs model", "correspondence", len(execs), len(execs), mism,
            note="chains of 150 and 300 [thorough: 500] sequential ops (two backward calls each), untracked update loops whose result is then used in a "
                 "tracked graph: all buffers and the closure-call sequence, exactly")
    mism = list(errs) + [{"program": K.describe(progs[i])[:6], "arena_tail": K.arena_of(execs[i].R)[-6:]} for i in cm]
    ctx.tie("engine/arena vs wrapper contract (untracked results keep no children)", "correspondence", len(execs), len(execs), mism)
    # model-side reading of the untracked loops: the last untracked value retains only itself
    for E, p in zip(execs[2:4], progs[2:4]):
        ar = K.arena_of(E.R)
        bad = [i for i, (ch, rq, fn, rt) in enumerate(ar) if not rq and ch]
        if bad:
            ctx.witness(SITE_MEM, "untracked-children", {"steps": p, "program": K.describe(p)[:8]},
                        "a result that does not require grad has _children == ()", {"nodes_with_children": bad[:5]})

    # ---- probes in a subprocess ----------------------------------------------------------------------
    sizes = [1000, 10000, 50000]
    rows = []
    mism = []
    for n in sizes:
        r = probe(["chain", n])
        rows.append(r)
        good = (r.get("ok") and r["grad"] == r["expected"] and r["calls"] == r["closures"] and r["max_calls"] == 1
                and r["intermediates_released"] and r["grad_after_second_call"] == 2 * r["expected"]
                and r["calls_after_second_call"] == [2])
        if not good:
            mism.append(r)
            ctx.witness(SITE_DEEP, "deep-chain", {"chain_length": n, "program": "x = Tensor([1.], requires_grad=True); y = x; repeat %d times: y = y*1.0 | y*-1.0 | y+x; y.backward()" % n},
                        "backward completes, each of the %d closures is called exactly once, x.grad == dy/dx" % n, r)
    ctx.tie("deep chains 10^3 / 10^4 / 5*10^4: completion, one call per closure, exact gradient", "correspondence", len(sizes), len(sizes), mism,
            note="run in a subprocess; count compared with the number of has_fn nodes (theorem calls_linear); " + json.dumps(rows)[:600])
    mism = []
    live = []
    for mode in ("no_grad", "plain"):
        r = probe(["untracked", 300, mode])
        live.append(r)
        good = ("earlier_operands_alive" in r and r["earlier_operands_alive"] <= 1 and r["children_empty"] and r["results_untracked"])
        if not good:
            mism.append(r)
            ctx.witness(SITE_MEM, "untracked-liveness", {"iterations": 300, "mode": mode,
                        "program": "p = Tensor(..); repeat 300: (with no_grad():) p = p - g*0.5 ; weakref to every earlier p; gc.collect()"},
                        "operands of untracked results are collectable (_children == ()), memory bounded", r)
    ctl = probe(["untracked", 50, "tracked"])
    live.append(ctl)
    ctx.tie("untracked update loops: earlier operands are collected", "correspondence", 2, 2, mism,
            note="weak references + gc.collect(); control (tracked loop keeps its history): " + json.dumps(live)[:500])
    ctx.sample({"deep_chain_probes": rows})
    ctx.sample({"liveness_probes": live})


FINISH = dict(rule="fixed probe sizes (the property's 'tens of thousands'), every case non-trivial by construction")


def replay(ctx, data):
    if data.get("kind") != "failing-input":
        print(json.dumps(data.get("broken"), indent=1)); return 1
    inp = data["input"]
    if "chain_length" in inp:
        r = probe(["chain", inp["chain_length"]])
        print(r)
        return 0 if (r.get("ok") and r.get("max_calls") == 1 and r.get("grad") == r.get("expected")) else 1
    if "iterations" in inp:
        r = probe(["untracked", inp["iterations"], inp["mode"]])
        print(r)
        return 0 if (r.get("earlier_operands_alive", 99) <= 1 and r.get("children_empty")) else 1
    E = K.execute(inp["steps"])
    bad = [i for i, (ch, rq, fn, rt) in enumerate(K.arena_of(E.R)) if not rq and ch]
    print("untracked nodes with children:", bad[:10])
    return 1 if bad else 0
