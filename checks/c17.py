"""C17 — backward scales to deep graphs and untracked computations keep no history.

Obligations : coq/Props/C17.v (backward never fails on a well-formed graph of any depth; closure calls = reachable has_fn
              nodes, each once; ordering loop iterations = sum over reached nodes of 1 + #operands; untracked results have no
              children, retain only themselves and are never traversed into)
Ties        : K  chains of 150 / 300 sequential ops and untracked update loops: recorded arena, buffers and closure log vs the
                 model (exact); recorded arena vs the wrapper contract
              K  deep chains (10^3, 10^4, 5*10^4 steps) in subprocesses, the chain carried by every operand position (first /
                 second / third operand, matmul left and right, unary, list ops, mixed): completes, every closure exactly once,
                 count = number of has_fn nodes (theorem calls_linear), zero_() calls within theorem zero_calls_linear's bound,
                 exact gradient; stacked diamonds of depth 20/60/200 (2^depth paths): the same counts, 30 s wall-clock cap;
                 weak-reference liveness of operands of untracked results: update loops (incl. concat/stack/unbind with a
                 parameter under no_grad) and every op of lib/opcatalog.py in both untracked modes
              T  source census: Tensor.backward orders the graph with a loop (no nested function, no recursion)
Oracle      : the probes themselves (completion, call counts, exact gradient, liveness) judged without the model.
"""
import ast, json, os, re
from lib import common
from lib import engine_k as K

SITE_DEEP = "tensor.Tensor.backward/deep-graph"
SITE_MEM = "tensor.Tensor.__init__/untracked-history"


def _parse(rc, out, args, timeout):
    m = re.search(r"^PROBE (.*)$", out, re.M)
    if rc == 124 or "[TIMEOUT" in out:
        return {"ok": False, "timeout_s": timeout, "args": list(args), "error": "did not finish in %d s" % timeout}
    if rc != 0 or not m:
        return {"ok": False, "args": list(args), "error": "probe process failed (rc=%s): %s" % (rc, out[-300:])}
    return json.loads(m.group(1))


def probe(args, timeout=120):
    env = {"VERIF_REPO": common.REPO, "PYTHONPATH": common.ROOT}
    rc, out = common.sh("timeout %d %s -m lib.engine_probe %s" % (timeout, common.PY, " ".join(str(a) for a in args)), timeout=timeout + 20, cwd=common.ROOT, env=env)
    return _parse(rc, out, args, timeout)


class Probes:
    """Probes started in the background (own processes), collected later."""

    def __init__(self, par=14):
        self.par, self.queue, self.running, self.res = par, [], [], {}

    def add(self, key, args, timeout):
        self.queue.append((key, args, timeout))

    def _start(self):
        import subprocess
        env = dict(os.environ, VERIF_REPO=common.REPO, PYTHONPATH=common.ROOT)
        while self.queue and len(self.running) < self.par:
            key, args, to = self.queue.pop(0)
            p = subprocess.Popen("timeout %d %s -m lib.engine_probe %s" % (to, common.PY, " ".join(str(a) for a in args)), shell=True, cwd=common.ROOT,
                                 env=env, stdout=subprocess.PIPE, stderr=subprocess.STDOUT, text=True)
            self.running.append((key, args, to, p))

    def pump(self):
        self._start()

    def collect(self):
        while self.queue or self.running:
            self._start()
            key, args, to, p = self.running.pop(0)
            out, _ = p.communicate()
            self.res[key] = _parse(p.returncode, out, args, to)
        return self.res


def chain_program(n):
    steps = [{"k": "leaf", "id": 0, "data": [1], "shape": [1], "req": True}]
    cur = 0
    for i in range(n):
        if i % 97 == 96:
            steps.append({"k": "op", "op": "add", "args": [cur, 0], "out": [i + 1]})
        else:
            steps.append({"k": "op", "op": "mulc", "args": [cur], "out": [i + 1], "p": {"c": -1 if i % 2 else 1}})
        cur = i + 1
    steps.append({"k": "backward", "root": cur, "seed": [1]})
    steps.append({"k": "backward", "root": cur, "seed": [2]})
    return steps


def diamond_program(depth):
    steps = [{"k": "leaf", "id": 0, "data": [1], "shape": [1], "req": True}, {"k": "leaf", "id": 1, "data": [1], "shape": [1], "req": False}]
    cur, nid = 0, 2
    for i in range(depth):
        steps.append({"k": "op", "op": "mul", "args": [cur, 1], "out": [nid]})
        steps.append({"k": "op", "op": "add", "args": [cur, nid], "out": [nid + 1]})
        cur = nid + 1
        nid += 2
    steps.append({"k": "backward", "root": cur, "seed": [1]})
    return steps


def untracked_program(iters, mode):
    steps = [{"k": "leaf", "id": 0, "data": [1, 2], "shape": [2], "req": mode != "plain"},
             {"k": "leaf", "id": 1, "data": [2, 1], "shape": [2], "req": False}]
    cur = 0
    nid = 2
    for i in range(iters):
        steps.append({"k": "op", "op": "mulc", "args": [1], "out": [nid], "p": {"c": 2}, "nograd": mode == "no_grad"})
        steps.append({"k": "op", "op": "sub", "args": [cur, nid], "out": [nid + 1], "nograd": mode == "no_grad"})
        cur = nid + 1
        nid += 2
    # use the final untracked value inside a tracked graph and differentiate: nothing below it may be visited
    steps.append({"k": "leaf", "id": nid, "data": [1, 1], "shape": [2], "req": True})
    steps.append({"k": "op", "op": "mul", "args": [cur, nid], "out": [nid + 1]})
    steps.append({"k": "op", "op": "sum", "args": [nid + 1], "out": [nid + 2]})
    steps.append({"k": "backward", "root": nid + 2, "seed": [1]})
    return steps


def census():
    """Tensor.backward contains the ordering as a loop: no nested def/lambda, a `while` over an explicit stack."""
    src = open(os.path.join(common.REPO, "synapgrad", "tensor.py")).read()
    tree = ast.parse(src)
    fn = None
    for c in ast.walk(tree):
        if isinstance(c, ast.ClassDef) and c.name == "Tensor":
            for f in c.body:
                if isinstance(f, ast.FunctionDef) and f.name == "backward":
                    fn = f
    if fn is None:
        return ["Tensor.backward not found"]
    probs = []
    inner = [n for n in ast.walk(fn) if isinstance(n, (ast.FunctionDef, ast.Lambda, ast.AsyncFunctionDef)) and n is not fn]
    if inner:
        probs.append("Tensor.backward defines an inner function at line %d (recursive traversal?)" % inner[0].lineno)
    calls_self = [n for n in ast.walk(fn) if isinstance(n, ast.Call) and isinstance(n.func, ast.Attribute) and n.func.attr == "backward"]
    if calls_self:
        probs.append("Tensor.backward calls .backward at line %d" % calls_self[0].lineno)
    if not any(isinstance(n, ast.While) for n in ast.walk(fn)):
        probs.append("no while loop in Tensor.backward")
    return probs


CHAIN_VARIANTS = ["first_mul", "second_mul", "second_add", "alternating", "unary", "matmul_right", "matmul_left",
                  "addmm_first", "addmm_second", "addmm_third", "concat_second", "concat_first", "stack_second", "tensor_scalar_mix"]
DIAMOND_VARIANTS = ["const_w", "param_w", "triple", "matmul"]
LOOP_MODES = [("no_grad", 300), ("plain", 300), ("concat_param", 300), ("concat_traj", 80), ("stack_param", 300), ("unbind_param", 300),
              ("ctx_nested_distinct", 200), ("ctx_shared_reentered", 200), ("ctx_nograd_in_retain", 200), ("ctx_retain_in_nograd", 200),
              ("ctx_exception_inside", 200), ("ctx_shared_reentered_exception", 200)]


WIDE_VARIANTS = ["chain_params", "sum_leaves", "concat_leaves", "shared_params"]


def cmp_ok(r):
    """tensor comparisons + hash calls during backward stay within twice the linear bound (unchanged code: exactly the bound:
    one membership test per operand slot, one insertion per reached tensor)"""
    return r.get("tensor_eq_calls", 0) + r.get("tensor_hash_calls", 0) <= 2 * r.get("bound", 0) + 8


def chain_ok(r):
    good = (r.get("ok") and r["grad_exact"] and r["calls"] == r["closures"] and r["max_calls"] == 1 and r["zero_calls"] <= r["bound"] and cmp_ok(r))
    if good and "calls_after_second_call" in r:
        good = r["calls_after_second_call"] == [2] and r["grad_after_second_call"] == 2 * r["grad"][0]
    return bool(good)


def run(ctx):
    # probes run in their own processes while Coq builds
    P = Probes()
    sizes = [1000, 10000, 50000]
    for n in sizes:
        for v in CHAIN_VARIANTS:
            P.add(("chain", v, n), ["chain", n, v], 120)
    for v in CHAIN_VARIANTS:
        P.add(("chain", v, "fail"), ["chain", 1000, v, "fail_first"], 120)
    depths = [20, 60, 200]
    for d in depths:
        for v in DIAMOND_VARIANTS:
            P.add(("diamond", v, d), ["diamond", d, v], 30)
    for v in DIAMOND_VARIANTS:
        P.add(("diamond", v, "fail"), ["diamond", 60, v, "fail_first"], 30)
    wsizes = [1000, 10000]
    for n in wsizes:
        for v in WIDE_VARIANTS:
            P.add(("wide", v, n), ["wide", n, v], 120)
    for mode, it in LOOP_MODES:
        P.add(("loop", mode), ["untracked", it, mode], 60)
    P.add(("loop", "tracked"), ["untracked", 50, "tracked"], 60)
    P.add(("catalog",), ["catalog"], 120)
    P.pump()

    ctx.build_props(extra_targets=["Engine/History.vo"])

    # ---- T: the traversal is a loop ------------------------------------------------------------
    probs = census()
    ctx.tie("tensor.py: ordering is an explicit-stack loop", "translator", 1, 1, [{"problem": p} for p in probs], exhaustive=True)

    # ---- K: chains and untracked loops through the model ------------------------------------------
    progs = [chain_program(150), chain_program(300 if ctx.quick else 500), untracked_program(30, "no_grad"), untracked_program(30, "plain"),
             untracked_program(12, "tracked"), diamond_program(12)]
    execs = [K.execute(p) for p in progs]
    tm, cm, errs = K.run_corr(ctx, execs, "deep", chunk=1)
    mism = list(errs) + [{"program": K.describe(progs[i])[:6], "n_steps": len(progs[i])} for i in tm]
    ctx.tie("engine/chains, stacked diamonds and untracked loops vs model", "correspondence", len(execs), len(execs), mism,
            note="chains of 150 and 300 [thorough: 500] sequential ops (two backward calls each), 12 stacked diamonds (2^12 paths), untracked "
                 "update loops whose result is then used in a tracked graph: all buffers and the closure-call sequence, exactly")
    mism = list(errs) + [{"program": K.describe(progs[i])[:6], "arena_tail": K.arena_of(execs[i].R)[-6:]} for i in cm]
    ctx.tie("engine/arena vs wrapper contract (untracked results keep no children)", "correspondence", len(execs), len(execs), mism)
    for E, p in zip(execs[2:4], progs[2:4]):
        ar = K.arena_of(E.R)
        bad = [i for i, (ch, rq, fn, rt) in enumerate(ar) if not rq and ch]
        if bad:
            ctx.witness(SITE_MEM, "untracked-children", {"steps": p, "program": K.describe(p)[:8]},
                        "a result that does not require grad has _children == ()", {"nodes_with_children": bad[:5]})

    R = P.collect()

    # ---- deep chains, the chain carried by every operand position -----------------------------------
    rows, mism = [], []
    for v in CHAIN_VARIANTS:
        for n in sizes + ["fail"]:
            r = R[("chain", v, n)]
            rows.append(r)
            if not chain_ok(r):
                mism.append(r)
    for r in sorted(mism, key=lambda r: (r.get("n") or (r.get("args") or [0, 0])[1]))[:2]:
        n = r.get("n") or r["args"][1]
        v = r.get("variant") or r["args"][2]
        ff = bool(r.get("failed_calls_first")) or (len(r.get("args") or []) > 3)
        ctx.witness(SITE_DEEP, "deep-chain", {"chain_length": int(n), "variant": v, "fail_first": ff,
                    "program": "x = Tensor(requires_grad=True); y = x; repeat %s times one step of variant %r (lib/engine_probe.py: chain); %sy.backward()"
                               % (n, v, "twice: try y.backward(<wrong-shaped gradient>) except RuntimeError: pass; " if ff else "")},
                    "backward completes, each closure is called exactly once, zero_() calls <= sum(1+#operands), x.grad exact", r)
    ctx.tie("deep chains 10^3 / 10^4 / 5*10^4, chain carried by every operand position", "correspondence", len(rows), len(rows), mism,
            note="variants: %s; run in subprocesses; closure count = number of has_fn nodes (theorem calls_linear), zero_() calls <= theorem "
                 "zero_calls_linear's bound, exact gradient, second call accumulates" % ", ".join(CHAIN_VARIANTS))

    # ---- reconvergent graphs: work must be linear in the graph, not in the number of paths -------------
    drows, mism = [], []
    for v in DIAMOND_VARIANTS:
        for d in depths + ["fail"]:
            r = R[("diamond", v, d)]
            drows.append(r)
            good = (r.get("ok") and r["grad_exact"] and r["calls"] == r["closures"] and r["max_calls"] == 1
                    and r["zero_calls"] <= r["bound"] and r["calls"] <= r["bound"] and cmp_ok(r))
            if not good:
                mism.append(r)
    for r in sorted(mism, key=lambda r: (r.get("depth") or (r.get("args") or [0, 0])[1]))[:2]:
        d = r.get("depth") or r["args"][1]
        v = r.get("variant") or r["args"][2]
        ctx.witness(SITE_DEEP, "reconvergent-graph", {"diamond_depth": int(d), "variant": v, "fail_first": bool(r.get("failed_calls_first")) or (len(r.get("args") or []) > 3),
                    "program": "x = Tensor([1.], requires_grad=True); h = x; repeat %s times: h = h + h*w; h.backward()   (%s ops, 2^%s paths)" % (d, 2 * int(d), d)},
                    "each recorded operation is visited once: closure calls = ops, Tensor.zero_ calls <= sum over reached tensors of (1 + #operands), finishes in milliseconds",
                    r)
    ctx.tie("stacked diamonds of depth 20 / 60 / 200 (2^depth paths): linear work", "correspondence", len(drows), len(drows), mism,
            note="closure calls, Tensor.zero_ calls counted from outside against the linear bound; wall-clock cap 30 s; " + json.dumps(drows[:3])[:500])

    # ---- graphs wide in distinct leaves: comparisons / hash calls stay linear --------------------------------------
    wrows, mism = [], []
    for v in WIDE_VARIANTS:
        for n in wsizes:
            r = R[("wide", v, n)]
            wrows.append(r)
            good = (r.get("ok") and r["grad_exact"] and r["calls"] == r["closures"] and r["max_calls"] == 1 and r["zero_calls"] <= r["bound"] and cmp_ok(r))
            if not good:
                mism.append(r)
    for r in sorted(mism, key=lambda r: (r.get("n") or (r.get("args") or [0, 0])[1]))[:2]:
        n = r.get("n") or r["args"][1]
        v = r.get("variant") or r["args"][2]
        ctx.witness(SITE_DEEP, "wide-graph", {"wide_leaves": int(n), "variant": v,
                    "program": "%s distinct requires-grad leaves p_i combined by variant %r (lib/engine_probe.py: wide); root.backward()" % (n, v)},
                    "work linear in nodes + edges: tensor comparisons + hash calls during backward <= 2 * sum over reached tensors of (1 + #operands), "
                    "each closure once, every p_i.grad exact", r)
    ctx.tie("graphs wide in distinct leaves (10^3 / 10^4 parameters): comparisons and hash calls stay linear", "correspondence", len(wrows), len(wrows), mism,
            note="Tensor.__eq__ / __hash__ wrapped from outside and counted during backward against the bound of theorem ordering_loop_linear "
                 "(unchanged code: exactly one hash per operand slot + one per reached tensor, no comparisons); " + json.dumps(wrows[:2])[:500])

    # ---- untracked computations keep nothing ----------------------------------------------------------------
    mism, live = [], []
    for mode, it in LOOP_MODES:
        r = R[("loop", mode)]
        live.append(r)
        good = ("earlier_operands_alive" in r and r["earlier_operands_alive"] <= 1 and r["children_empty"] and r["results_untracked"]
                and r.get("tracking_off_inside_block", True) and r.get("modes_restored_after", True))
        if not good:
            mism.append(r)
            ctx.witness(SITE_MEM, "untracked-liveness", {"iterations": it, "mode": mode,
                        "program": "update loop of %d untracked steps, mode %r (lib/engine_probe.py: untracked); weakref to every earlier iterate; gc.collect()" % (it, mode)},
                        "operands of untracked results are collectable (_children == (), grad_fn None), memory bounded", r)
    live.append(R[("loop", "tracked")])
    ctx.tie("untracked update loops (concat/stack/unbind with a parameter; nested / shared re-entered / mixed context managers; exceptions): earlier iterates are collected", "correspondence",
            len(LOOP_MODES), len(LOOP_MODES), mism,
            note="weak references + gc.collect(); control (tracked loop keeps its history): " + json.dumps(live)[:700])
    r = R[("catalog",)]
    bad = r.get("bad") if "bad" in r else [r]
    if bad:
        ctx.witness(SITE_MEM, "untracked-op", {"catalog_op": bad[0].get("op"), "mode": bad[0].get("mode"),
                    "program": "out = %s(operands) computed without tracking (%s); del operands; gc.collect()" % (bad[0].get("op"), bad[0].get("mode"))},
                    "_children == (), grad_fn is None, requires_grad False, operands collected", bad[0])
    ctx.tie("every catalogued op computed without tracking keeps nothing", "correspondence", r.get("cases", 0), r.get("cases", 0), bad, exhaustive=True,
            note="lib/opcatalog.py ops x {inside no_grad with operands that require grad, grad mode on with operands that do not}")
    ctx.sample({"deep_chain_probes": [rr for rr in rows if rr.get("n") == 50000][:4]})
    ctx.sample({"diamond_probes": drows[-3:]})
    ctx.sample({"liveness_probes": live})


FINISH = dict(rule="fixed probe sizes (the property's 'tens of thousands'), every case non-trivial by construction")


def replay(ctx, data):
    if data.get("kind") != "failing-input":
        print(json.dumps(data.get("broken"), indent=1)); return 1
    inp = data["input"]
    if "chain_length" in inp:
        r = probe(["chain", inp["chain_length"], inp.get("variant", "tensor_scalar_mix")] + (["fail_first"] if inp.get("fail_first") else []))
        print(r)
        return 0 if chain_ok(r) else 1
    if "diamond_depth" in inp:
        r = probe(["diamond", inp["diamond_depth"], inp.get("variant", "const_w")] + (["fail_first"] if inp.get("fail_first") else []), timeout=30)
        print(r)
        return 0 if (r.get("ok") and r.get("grad_exact") and r.get("max_calls") == 1 and r["zero_calls"] <= r["bound"]) else 1
    if "wide_leaves" in inp:
        r = probe(["wide", inp["wide_leaves"], inp["variant"]])
        print(r)
        return 0 if (r.get("ok") and r.get("grad_exact") and cmp_ok(r)) else 1
    if "iterations" in inp:
        r = probe(["untracked", inp["iterations"], inp["mode"]])
        print(r)
        return 0 if (r.get("earlier_operands_alive", 99) <= 1 and r.get("children_empty") and r.get("results_untracked")
                     and r.get("tracking_off_inside_block", True) and r.get("modes_restored_after", True)) else 1
    if "catalog_op" in inp:
        r = probe(["catalog"])
        bad = [b for b in r.get("bad", [r]) if b.get("op") == inp["catalog_op"]]
        print(bad)
        return 1 if bad else 0
    E = K.execute(inp["steps"])
    bad = [i for i, (ch, rq, fn, rt) in enumerate(K.arena_of(E.R)) if not rq and ch]
    print("untracked nodes with children:", bad[:10])
    return 1 if bad else 0
