"""C12 — module trees report each parameter once and propagate mode to all descendants.

Obligations : coq/Props/C12.v (parameters() = first-occurrence dedupe of the pre-order traversal, exactly the reachable
              parameters; num_params sums and split; train/eval reach exactly the reachable modules; zero_grad/freeze/
              unfreeze act on exactly parameters(); __setattr__ replace semantics; Sequential order; model State/Modules.v)
Ties        : T  lib/py2coq/gen_sigs.py regenerates Gen/GenModuleSigs.v (public signatures, state attributes of Module) — obligation
                 modules_signatures_documented; self-check against inspect.signature
              K  exhaustive event sequences (3 modules, 2 parameters, reduced alphabets) on real nn.Module objects vs the model
              K  random longer event sequences (more modules/parameters, Sequential positional / OrderedDict, register_*,
                 malformed register calls that must raise) vs the model
              K  Sequential.forward call order/values with recording modules vs the model
Oracle      : the property judged directly on the real objects after every event (no duplicates by identity, set equality with a
              BFS over _parameters/_submodules, first-occurrence pre-order, flags before/after), independent of the Coq model.
"""
import itertools, json, re
from collections import OrderedDict
from lib import common
from lib.common import cn, cb, clist, copt

CH = 400
NAMES = ["a", "b", "c", "w"]
HEADER = """From Coq Require Import String List Bool Arith.
Import ListNotations.
From SG Require Import Base.Cmp State.Modules.
"""


def _impl():
    from lib import impl
    return impl


# ------------------------------------------------------------------ events
# ('NewModule',) ('NewParam', size, req) ('SetAttr', m, k, v) ('RegisterModule', m, k, v) ('RegisterParameter', m, k, v)
# ('NewSequential', [m..]) ('NewSequentialDict', [(k, m)..]) ('Train', m) ('Eval', m) ('ZeroGrad', m) ('Freeze', m)
# ('Unfreeze', m) ('SetGrad', p)            v = ('M', i) | ('P', i) | ('O', j)   (j selects None / 3.5 / "text")
OTHERS = [None, 3.5, "text"]


def val_coq(v):
    return {"M": "VModule %d", "P": "VParam %d"}.get(v[0], "VOther") % (() if v[0] == "O" else (v[1],))


def cstr(s):
    return '"%s"%%string' % s


def ev_coq(e):
    t = e[0]
    if t == "NewModule":
        return "NewModule"
    if t == "NewParam":
        return "NewParam %d %s" % (e[1], cb(e[2]))
    if t in ("SetAttr", "RegisterModule", "RegisterParameter"):
        return "%s %d %s (%s)" % (t, e[1], cstr(e[2]), val_coq(e[3]))
    if t == "NewSequential":
        return "NewSequential %s" % clist([str(i) for i in e[1]])
    if t == "NewSequentialDict":
        return "NewSequentialDict %s" % clist(["(%s, %d)" % (cstr(k), i) for k, i in e[1]])
    if t == "SetReq":
        return "SetReq %d %s" % (e[1], cb(e[2]))
    return "%s %d" % (t, e[1])


class World:
    """the real objects"""

    def __init__(self):
        impl = _impl()
        self.nn, self.np = impl.nn, impl.np
        self.mods, self.pars = [], []
        self.calls = []
        world = self

        class Rec(self.nn.Module):
            def forward(self, x):
                tag = world.mid(self)
                world.calls.append(tag)
                return 10 * x + tag
        self.Rec = Rec

    def mid(self, m):
        for i, x in enumerate(self.mods):
            if x is m:
                return i
        return -1

    def pid(self, p):
        for i, x in enumerate(self.pars):
            if x is p:
                return i
        return -1

    def value(self, v):
        if v[0] == "M":
            return self.mods[v[1]]
        if v[0] == "P":
            return self.pars[v[1]]
        return OTHERS[v[1]]

    def apply(self, e):
        t = e[0]
        nn, np = self.nn, self.np
        if t == "NewModule":
            self.mods.append(self.Rec())
        elif t == "NewParam":
            self.pars.append(nn.Parameter(np.ones((e[1],), dtype=np.float32), requires_grad=e[2]))
        elif t == "SetAttr":
            setattr(self.mods[e[1]], e[2], self.value(e[3]))
        elif t == "RegisterModule":
            self.mods[e[1]].register_module(e[2], self.value(e[3]))
        elif t == "RegisterParameter":
            self.mods[e[1]].register_parameter(e[2], self.value(e[3]))
        elif t == "NewSequential":
            self.mods.append(nn.Sequential(*[self.mods[i] for i in e[1]]))
        elif t == "NewSequentialDict":
            self.mods.append(nn.Sequential(OrderedDict((k, self.mods[i]) for k, i in e[1])))
        elif t == "Train":
            self.mods[e[1]].train()
        elif t == "Eval":
            self.mods[e[1]].eval()
        elif t == "ZeroGrad":
            self.mods[e[1]].zero_grad()
        elif t == "Freeze":
            self.mods[e[1]].freeze()
        elif t == "Unfreeze":
            self.mods[e[1]].unfreeze()
        elif t == "SetGrad":
            p = self.pars[e[1]]
            p._grad = np.full(p.data.shape, 7.0, dtype=np.float32)
        elif t == "SetReq":
            self.pars[e[1]].requires_grad = e[2]
        else:
            raise AssertionError(t)

    # ---- raw registries (for the oracle and the cycle guard)
    def snapshot(self):
        ms = []
        for m in self.mods:
            ms.append({"params": [(k, self.pid(p)) for k, p in m._parameters.items()],
                       "subs": [(k, self.mid(c)) for k, c in m._submodules.items()],
                       "training": bool(m.training)})
        ps = []
        for p in self.pars:
            g = p._grad
            gs = "GNone" if g is None else ("GZero" if not self.np.any(g) else "GVal")
            ps.append({"req": bool(p.requires_grad), "grad": gs, "size": int(p.data.size)})
        return {"mods": ms, "pars": ps}

    def reaches(self, a, b):
        """does module a reach module b through _submodules (reflexive)?"""
        seen, todo = set(), [a]
        while todo:
            x = todo.pop()
            if x == b:
                return True
            if x in seen:
                continue
            seen.add(x)
            todo += [self.mid(c) for c in self.mods[x]._submodules.values()]
        return False

    def observe(self):
        """through the public API"""
        out = []
        for m in self.mods:
            out.append({"parameters": [self.pid(p) for p in m.parameters()],
                        "submodules": [self.mid(c) for c in m.submodules()],
                        "training": bool(m.training),
                        "param_names": list(m._parameters.keys()),
                        "sub_names": list(m._submodules.keys()),
                        "counts": (int(m.num_params()), int(m.num_params(trainable=True)), int(m.num_params(non_trainable=True)))})
        return out


def makes_cycle(w, e):
    """would this event make the submodule relation cyclic (the real code would then recurse forever)?"""
    if e[0] in ("SetAttr", "RegisterModule") and e[3][0] == "M":
        m, c = e[1], e[3][1]
        if m < len(w.mods) and c < len(w.mods):
            return w.reaches(c, m)
    return False


# ------------------------------------------------------------------ oracle on snapshots (independent of Coq)
def reach_set(snap, m):
    seen, todo = [], [m]
    while todo:
        x = todo.pop(0)
        if x in seen:
            continue
        seen.append(x)
        todo += [c for _, c in snap["mods"][x]["subs"]]
    return seen


def preorder_first(snap, m):
    out = []

    def rec(x):
        for _, p in snap["mods"][x]["params"]:
            if p not in out:
                out.append(p)
        for _, c in snap["mods"][x]["subs"]:
            rec(c)
    rec(m)
    return out


def expected_to_raise(w, e):
    """the only events of the generated streams that must raise: register_* with a value of the wrong class"""
    if e[0] == "RegisterModule":
        return e[3][0] != "M"
    if e[0] == "RegisterParameter":
        return e[3][0] != "P"
    return False


def judge_state(snap, obs):
    for m, o in enumerate(obs):
        ps = o["parameters"]
        if len(set(ps)) != len(ps):
            return "module %d: parameters() lists a parameter twice: %s" % (m, ps)
        want = set(p for x in reach_set(snap, m) for _, p in snap["mods"][x]["params"])
        if set(ps) != want:
            return "module %d: parameters() = %s but the reachable parameters are %s" % (m, ps, sorted(want))
        if ps != preorder_first(snap, m):
            return "module %d: parameters() = %s, registration (pre-order, first occurrence) order is %s" % (m, ps, preorder_first(snap, m))
        if o["submodules"] != [c for _, c in snap["mods"][m]["subs"]]:
            return "module %d: submodules() = %s, registry has %s" % (m, o["submodules"], snap["mods"][m]["subs"])
        a = sum(snap["pars"][p]["size"] for p in want)
        t = sum(snap["pars"][p]["size"] for p in want if snap["pars"][p]["req"])
        if tuple(o["counts"]) != (a, t, a - t):
            return "module %d: num_params (all, trainable, non_trainable) = %s, expected %s" % (m, tuple(o["counts"]), (a, t, a - t))
        names_p = [k for k, _ in snap["mods"][m]["params"]]
        names_s = [k for k, _ in snap["mods"][m]["subs"]]
        if set(names_p) & set(names_s):
            return "module %d: name(s) %s registered both as parameter and as submodule" % (m, sorted(set(names_p) & set(names_s)))
    return None


def judge_event(before, e, after, world):
    """the effect of one event, judged on the registries/flags before and after"""
    t = e[0]
    nm_b, nm_a = len(before["mods"]), len(after["mods"])
    if t in ("Train", "Eval"):
        R = set(reach_set(before, e[1]))
        want = (t == "Train")
        for m in range(nm_b):
            got = after["mods"][m]["training"]
            if m in R and got != want:
                return "%s(%d): reachable module %d has training=%s" % (t, e[1], m, got)
            if m not in R and got != before["mods"][m]["training"]:
                return "%s(%d): module %d is not reachable but its mode changed" % (t, e[1], m)
    if t in ("Freeze", "Unfreeze", "ZeroGrad"):
        R = reach_set(before, e[1])
        P = set(p for x in R for _, p in before["mods"][x]["params"])
        for p in range(len(before["pars"])):
            b, a = before["pars"][p], after["pars"][p]
            if t == "ZeroGrad":
                want = dict(b, grad="GZero") if (p in P and b["req"]) else b
            else:
                want = dict(b, req=(t == "Unfreeze")) if p in P else b
            if a != want:
                return "%s(%d): parameter %d is %s, expected %s (parameters of the module: %s)" % (t, e[1], p, a, want, sorted(P))
    if t in ("SetAttr", "RegisterModule", "RegisterParameter"):
        m, k, v = e[1], e[2], e[3]
        bm, am = before["mods"][m], after["mods"][m]
        dp, ds = dict(am["params"]), dict(am["subs"])
        if k in dp and k in ds:
            return "m%d.%s registered in both registries" % (m, k)
        if v[0] == "M" and (ds.get(k) != v[1] or k in dp):
            return "m%d.%s = module %d: registries are params=%s subs=%s" % (m, k, v[1], am["params"], am["subs"])
        if v[0] == "P" and (dp.get(k) != v[1] or k in ds):
            return "m%d.%s = parameter %d: registries are params=%s subs=%s" % (m, k, v[1], am["params"], am["subs"])
        if v[0] == "O" and (k in dp or k in ds):
            return "m%d.%s = %r: the name is still registered (params=%s subs=%s)" % (m, k, OTHERS[v[1]], am["params"], am["subs"])
        for reg in ("params", "subs"):
            if [x for x in bm[reg] if x[0] != k] != [x for x in am[reg] if x[0] != k]:
                return "m%d.%s = ...: other registrations changed: %s -> %s" % (m, k, bm[reg], am[reg])
            if k in dict(bm[reg]) and k in dict(am[reg]):
                if [x[0] for x in bm[reg]] != [x[0] for x in am[reg]]:
                    return "m%d.%s re-assigned: position in the registry changed" % (m, k)
        for o in range(nm_b):
            if o != m and before["mods"][o] != after["mods"][o]:
                return "m%d.%s = ...: module %d changed" % (m, k, o)
        real = getattr(world.mods[m], k, "missing")
        if real is not world.value(v):
            return "m%d.%s does not return the assigned value" % (m, k)
    if t in ("SetReq", "SetGrad"):
        for p in range(len(before["pars"])):
            want = before["pars"][p]
            if p == e[1]:
                want = dict(want, req=e[2]) if t == "SetReq" else dict(want, grad="GVal")
            if after["pars"][p] != want:
                return "%s: parameter %d is %s, expected %s" % (ev_coq(e), p, after["pars"][p], want)
        if before["mods"] != after["mods"]:
            return "%s changed a module" % ev_coq(e)
    if t in ("NewSequential", "NewSequentialDict"):
        items = [(str(i), c) for i, c in enumerate(e[1])] if t == "NewSequential" else list(e[1])
        new = after["mods"][-1]
        if new["subs"] != items or new["params"] or not new["training"]:
            return "%s(%s): registries of the new module are %s" % (t, e[1], new)
    return None


# ------------------------------------------------------------------ running a sequence on the implementation
def run_impl(events, judge=True):
    """returns (executed_events, raised?, observation, snapshot, oracle_verdict)"""
    w = World()
    done = []
    verdict = None
    for e in events:
        before = w.snapshot() if judge else None
        try:
            w.apply(e)
        except Exception as ex:       # includes RecursionError
            done.append(e)
            if judge and verdict is None and not expected_to_raise(w, e):
                verdict = {"after_event": len(done) - 1, "what": "%s raised %s" % (ev_coq(e), type(ex).__name__)}
            return done, type(ex).__name__, None, None, verdict
        done.append(e)
        if judge and verdict is None:
            after = w.snapshot()
            v = judge_event(before, e, after, w)
            if v is None:
                try:
                    v = judge_state(after, w.observe())
                except Exception as ex:
                    v = "observer raised %s" % type(ex).__name__
            if v:
                verdict = {"after_event": len(done) - 1, "what": v}
    try:
        obs = w.observe()
    except Exception as ex:
        return done, None, "observer raised %s" % type(ex).__name__, w.snapshot(), verdict
    return done, None, obs, w.snapshot(), verdict


def obs_coq(obs, snap):
    mods = []
    for o in obs:
        mods.append("{| o_parameters := Some %s; o_submodules := %s; o_training := %s; o_param_names := %s; o_sub_names := %s; o_counts := Some (%d, %d, %d) |}"
                    % (clist([str(p) if p >= 0 else "4999" for p in o["parameters"]]), clist([str(c) if c >= 0 else "4999" for c in o["submodules"]]), cb(o["training"]),
                       clist([cstr(k) for k in o["param_names"]]), clist([cstr(k) for k in o["sub_names"]]), o["counts"][0], o["counts"][1], o["counts"][2]))
    pars = ["(%s, %s)" % (cb(p["req"]), p["grad"]) for p in snap["pars"]]
    return "Some (%s, %s)" % (clist(mods), clist(pars))


EVAL = """
Definition name_eqb := String.eqb.
Definition g_eqb (a b : gstate) := match a, b with GNone, GNone => true | GZero, GZero => true | GVal, GVal => true | _, _ => false end.
Definition nl_eqb := list_eqb Nat.eqb.
Definition c_eqb (a b : nat * nat * nat) := let '(x, y, z) := a in let '(u, v, w) := b in Nat.eqb x u && Nat.eqb y v && Nat.eqb z w.
Definition mo_eqb (a b : mod_obs) :=
  option_eqb nl_eqb (o_parameters a) (o_parameters b) && nl_eqb (o_submodules a) (o_submodules b) &&
  Bool.eqb (o_training a) (o_training b) && list_eqb name_eqb (o_param_names a) (o_param_names b) &&
  list_eqb name_eqb (o_sub_names a) (o_sub_names b) && option_eqb c_eqb (o_counts a) (o_counts b).
Definition obs_eqb := option_eqb (pair_eqb (list_eqb mo_eqb) (list_eqb (pair_eqb Bool.eqb g_eqb))).
Definition prelude : list ev := [%s].
Definition cases : list (list ev * option (list mod_obs * list (bool * gstate))) :=
 [%s].
Eval vm_compute in (mismatches (fun t => outcome (prelude ++ t)%%list) obs_eqb cases).
"""


def parse_natlist(out):
    flat = " ".join(out.split())
    res = []
    for m in re.finditer(r"= \[(.*?)\]\s*:\s*list nat", flat):
        body = m.group(1).replace("%nat", "").strip()
        res.append([int(x) for x in body.split(";") if x.strip()])
    return res


def compare(ctx, prefix, prelude, recs):
    """recs: list of dicts with 'events' (after the prelude), 'raised', 'obs', 'snap'. Returns mismatch descriptions."""
    rows = []
    for r in recs:
        if r["raised"] or isinstance(r["obs"], str):
            exp = "None"
        else:
            exp = obs_coq(r["obs"], r["snap"])
        rows.append("(%s, %s)" % (clist([ev_coq(e) for e in r["events"]]), exp))
    files = []
    for k in range(0, len(rows), CH):
        files.append(("%s_%d" % (prefix, k // CH), HEADER + EVAL % ("; ".join(ev_coq(e) for e in prelude), ";\n ".join(rows[k:k + CH]))))
    res = ctx.coq_eval_many(files)
    mism = []
    for (name, _), k in zip(files, range(0, len(rows), CH)):
        ok, out = res[name]
        lists = parse_natlist(out)
        if not ok or len(lists) != 1:
            mism.append({"file": name, "error": out[-500:]})
            continue
        for i in lists[0]:
            r = recs[k + i]
            mism.append({"prelude": [ev_coq(e) for e in prelude], "events": [ev_coq(e) for e in r["events"]],
                         "implementation": {"raised": r["raised"], "observation": r["obs"], "parameters_state": r["snap"]["pars"] if r["snap"] else None}})
    return mism


# ------------------------------------------------------------------ scenarios (reduced alphabets, 3 modules x 2 parameters)
PRELUDE3 = [("NewModule",), ("NewModule",), ("NewModule",), ("NewParam", 3, True), ("NewParam", 2, False)]
M, P, O = (lambda i: ("M", i)), (lambda i: ("P", i)), (lambda j: ("O", j))
SCENARIOS = [
    ("sharing", PRELUDE3, [
        ("SetAttr", 0, "a", M(1)), ("SetAttr", 0, "b", M(2)), ("SetAttr", 1, "a", M(2)),
        ("SetAttr", 2, "a", P(0)), ("SetAttr", 1, "b", P(0)), ("SetAttr", 0, "a", P(1)), ("SetAttr", 2, "b", P(1))]),
    ("replace", PRELUDE3, [
        ("SetAttr", 0, "a", M(1)), ("SetAttr", 0, "a", P(0)), ("SetAttr", 0, "a", O(0)),
        ("SetAttr", 0, "b", P(0)), ("SetAttr", 0, "b", M(1)), ("SetAttr", 0, "a", M(2)), ("SetAttr", 1, "a", P(1))]),
    ("modes", PRELUDE3 + [("SetAttr", 0, "a", M(1)), ("SetAttr", 0, "b", M(2)), ("SetAttr", 1, "a", M(2)),
                          ("SetAttr", 2, "a", P(0)), ("SetAttr", 1, "b", P(1)), ("SetAttr", 0, "c", P(0))], [
        ("Eval", 1), ("Train", 2), ("Eval", 0), ("Freeze", 1), ("Unfreeze", 2), ("ZeroGrad", 0), ("SetGrad", 0), ("SetGrad", 1),
        ("SetAttr", 0, "b", O(1))]),
    # freeze / unfreeze histories: root m0 (own p1) -> child m1 (p0); m2 (p2) attached later; manual requires_grad flips
    ("freeze", [("NewModule",), ("NewModule",), ("NewModule",), ("NewParam", 3, True), ("NewParam", 2, True), ("NewParam", 1, True),
                ("SetAttr", 0, "w", P(1)), ("SetAttr", 0, "a", M(1)), ("SetAttr", 1, "w", P(0)), ("SetAttr", 2, "w", P(2))], [
        ("Freeze", 0), ("Freeze", 1), ("Freeze", 2), ("Unfreeze", 0), ("Unfreeze", 1), ("SetReq", 0, False),
        ("SetAttr", 0, "b", M(2)), ("SetAttr", 0, "a", O(0))]),
]


def enumerate_words(alphabet, max_len):
    for ln in range(0, max_len + 1):
        for t in itertools.product(alphabet, repeat=ln):
            yield list(t)


def part_exhaustive(ctx):
    max_len = 4 if ctx.quick else 5
    oracle_fail = []
    for name, prelude, alphabet in SCENARIOS:
        recs = []
        nontrivial = 0
        for word in enumerate_words(alphabet, max_len):
            # skip words that would create a cycle (the real code recurses forever): decided on the real objects
            w = World()
            cyc = False
            for e in prelude + word:
                if makes_cycle(w, e):
                    cyc = True; break
                try:
                    w.apply(e)
                except Exception:     # judged by run_impl below
                    break
            if cyc:
                continue
            done, raised, obs, snap, verdict = run_impl(prelude + word)
            rec = {"events": done[len(prelude):], "raised": raised, "obs": obs, "snap": snap}
            recs.append(rec)
            if verdict:
                oracle_fail.append((prelude + word, verdict, obs))
            if len(word) >= 2:
                nontrivial += 1
        ctx.sample({"scenario": name, "events": [ev_coq(e) for e in prelude + recs[len(recs) // 2]["events"]],
                    "observation": recs[len(recs) // 2]["obs"]})
        mism = compare(ctx, "ex_" + name, prelude, recs)
        ctx.tie("modules/exhaustive-%s" % name, "correspondence", len(recs), nontrivial, mism, exhaustive=True,
                note="3 modules x 2-3 parameters, every acyclic word of length <= %d over the %d-letter alphabet %s; full observation "
                     "(parameters(), submodules(), training, registry names, num_params x3, requires_grad / grad state of every parameter)"
                     % (max_len, len(alphabet), [ev_coq(e) for e in alphabet]))
    return oracle_fail


# ------------------------------------------------------------------ random longer sequences
def random_sequence(rng, length, malformed):
    """generate against the real objects so that ids exist and no cycle is created"""
    w = World()
    evs = []

    def emit(e):
        evs.append(e)
        try:
            w.apply(e)
            return True
        except Exception:
            return False
    for _ in range(rng.randint(2, 4)):
        emit(("NewModule",))
    for _ in range(rng.randint(1, 3)):
        emit(("NewParam", rng.randint(1, 4), rng.random() < 0.7))
    alive = True
    while alive and len(evs) < length:
        nm, np_ = len(w.mods), len(w.pars)
        c = rng.random()
        if c < 0.07 and nm < 7:
            e = ("NewModule",)
        elif c < 0.12 and np_ < 5:
            e = ("NewParam", rng.randint(1, 4), rng.random() < 0.7)
        elif c < 0.50:
            kind = rng.random()
            v = M(rng.randrange(nm)) if kind < 0.45 else (P(rng.randrange(np_)) if kind < 0.8 else O(rng.randrange(3)))
            e = (rng.choice(["SetAttr"] * 4 + ["RegisterModule" if v[0] == "M" else "RegisterParameter" if v[0] == "P" else "SetAttr"]),
                 rng.randrange(nm), rng.choice(NAMES[:3]), v)
        elif c < 0.56 and nm < 7:
            e = ("NewSequential", [rng.randrange(nm) for _ in range(rng.randint(0, 3))])
        elif c < 0.60 and nm < 7:
            ks = rng.sample(NAMES, rng.randint(1, 3))
            e = ("NewSequentialDict", [(k, rng.randrange(nm)) for k in ks])
        elif c < 0.97:
            t = rng.choice(["Train", "Eval", "ZeroGrad", "Freeze", "Unfreeze", "Freeze", "Unfreeze", "SetGrad", "SetReq"])
            e = (t, rng.randrange(np_ if t in ("SetGrad", "SetReq") else nm))
            if t == "SetReq":
                e = e + (rng.random() < 0.5,)
        else:
            if not malformed:
                continue
            # malformed: register_module with a parameter / plain value, register_parameter with a module
            which = rng.random()
            e = ("RegisterModule", rng.randrange(nm), "a", P(rng.randrange(np_)) if which < 0.5 else O(rng.randrange(3))) if which < 0.7 else \
                ("RegisterParameter", rng.randrange(nm), "a", M(rng.randrange(nm)))
        if makes_cycle(w, e):
            continue
        alive = emit(e)
    return evs


def part_random(ctx):
    rng = ctx.rng
    n = 300 if ctx.quick else 2500
    recs, oracle_fail = [], []
    distinct = set()
    n_raise = 0
    for i in range(n):
        evs = random_sequence(rng, rng.randint(8, 26), malformed=(i % 5 == 0))
        done, raised, obs, snap, verdict = run_impl(evs)
        recs.append({"events": done, "raised": raised, "obs": obs, "snap": snap})
        n_raise += 1 if raised else 0
        if verdict:
            oracle_fail.append((evs, verdict, obs))
        if snap and any(len(reach_set(snap, m)) >= 3 for m in range(len(snap["mods"]))):
            distinct.add(repr(done))
    ctx.sample({"random_sequence": [ev_coq(e) for e in recs[0]["events"]], "raised": recs[0]["raised"], "observation": recs[0]["obs"]})
    mism = compare(ctx, "rnd", [], recs)
    ctx.tie("modules/random-sequences", "correspondence", len(recs), len(distinct), mism,
            note="up to 7 modules / 5 parameters, 8-26 events incl. Sequential (positional, OrderedDict), register_module/register_parameter, "
                 "re-assignment to module/parameter/None/float/str, mode and grad operations on any node; %d sequences end in a malformed "
                 "register call that must raise (model: None); non-trivial = some module reaches >= 3 modules" % n_raise)
    ctx.extra["random_sequences_ending_in_raise"] = n_raise
    return oracle_fail


# ------------------------------------------------------------------ Sequential.forward
FWD_EVAL = """
Definition cases : list ((list ev * nat * nat) * option nat) := [%s].
Definition runf (c : list ev * nat * nat) : option nat :=
  let '(t, m, x) := c in
  match run init t with None => None | Some h => seq_forward (fun c x => 10 * x + c) h m x end.
Eval vm_compute in (mismatches runf (option_eqb Nat.eqb) cases).
"""


def part_forward(ctx):
    rng = ctx.rng
    rows, recs, oracle_fail = [], [], []
    for i in range(60 if ctx.quick else 300):
        nleaf = rng.randint(1, 4)
        evs = [("NewModule",)] * nleaf
        k = rng.randint(0, 4) if i % 10 else 0
        order = [rng.randrange(nleaf) for _ in range(k)]
        if i % 2 == 0:
            evs = evs + [("NewSequential", order)]
        else:
            names = rng.sample(["z", "a", "m", "b", "k"], min(k, 5))
            order = order[:len(names)]
            evs = evs + [("NewSequentialDict", list(zip(names, order)))]
        # later re-registration changes the order / content
        if order and rng.random() < 0.4:
            evs = evs + [("RegisterModule", nleaf, rng.choice(["0", "1", "zz", "a"]), M(rng.randrange(nleaf)))]
        w = World()
        for e in evs:
            w.apply(e)
        x0 = rng.randint(0, 3)
        w.calls.clear()
        try:
            y = int(w.mods[nleaf](x0))
            res = y
        except Exception as ex:
            res = None
        want_order = [w.mid(c) for c in w.mods[nleaf]._submodules.values()]
        if res is not None and w.calls != want_order:
            oracle_fail.append((evs, {"after_event": len(evs), "forward": [nleaf, x0], "what": "Sequential.forward called %s, registration order is %s" % (w.calls, want_order)}, None))
        if res is None and want_order:
            oracle_fail.append((evs, {"after_event": len(evs), "forward": [nleaf, x0], "what": "Sequential.forward raised"}, None))
        rows.append("((%s, %d, %d), %s)" % (clist([ev_coq(e) for e in evs]), nleaf, x0, copt(res, str)))
        recs.append({"events": [ev_coq(e) for e in evs], "x": x0, "implementation": res, "calls": list(w.calls)})
    ok, out = ctx.coq_eval("forward", HEADER + FWD_EVAL % ";\n ".join(rows))
    lists = parse_natlist(out)
    mism = [{"error": out[-500:]}] if (not ok or len(lists) != 1) else [recs[i] for i in lists[0]]
    nontriv = sum(1 for r in recs if len(r["calls"]) >= 2)
    ctx.sample(recs[1])
    ctx.tie("Sequential/forward-order", "correspondence", len(rows), nontriv, mism,
            note="recording leaf modules computing x -> 10*x + id (order-sensitive); positional and OrderedDict construction, later re-registration; "
                 "an empty Sequential raises (UnboundLocalError) in the code and is None in the model")
    return oracle_fail


# ------------------------------------------------------------------ the check
def part_signatures(ctx):
    """T: regenerate Gen/GenModuleSigs.v (signatures + state attributes of modules.py) and self-check it against inspect"""
    import sys
    from lib.py2coq import gen_sigs
    _impl()
    try:
        G = gen_sigs.generate_modules()
    except Exception as ex:
        common.write_if_changed(gen_sigs.OUT_MODULES, gen_sigs.refusal("modules", gen_sigs.MODULES, str(ex)))
        ctx.tie("translator/modules signatures+state", "translator", 1, 0, [{"untranslatable": str(ex)}],
                note="the fail-closed signature/state census does not accept the current sources")
        return
    n, mism = gen_sigs.selfcheck(G, sys.modules["synapgrad.nn.modules"])
    ctx.tie("translator/modules signatures+state", "translator", n, n, mism, exhaustive=True,
            note="every function/method of modules.py: parameter names, order, kinds, defaults vs inspect.signature; nothing defined in the module is missing; "
                 "state attributes written by each class: %s" % G["state"])


def run(ctx):
    part_signatures(ctx)
    ctx.build_props(extra_targets=["State/Modules.vo"])
    fails = []
    fails += part_exhaustive(ctx)
    fails += part_random(ctx)
    fails += part_forward(ctx)
    if fails:
        evs, verdict, obs = min(fails, key=lambda t: len(t[0]))
        fwd = verdict.get("forward")
        if fwd is None:
            evs = shrink(evs)       # drop events while the oracle still objects
            done, raised, obs, snap, verdict = run_impl(evs)
        ctx.witness("nn.modules.Module", "module-tree",
                    {"events": [list(e) for e in evs], "readable": [ev_coq(e) for e in evs], "forward": fwd},
                    "parameters() = reachable parameters once in registration order; num_params sums; train/eval reach every reachable module; "
                    "zero_grad/freeze/unfreeze act on exactly parameters(); assignment replaces the registration; Sequential in registration order",
                    {"verdict": verdict, "observation": obs})
    ctx.assumptions.append("the submodule relation is acyclic (a cycle makes parameters()/train() recurse forever; excluded from generation); "
                           "registry names are ordinary attribute names (not _parameters/_submodules/_initialized/training or method names)")


def shrink(evs):
    def bad(es):
        try:
            w = World()
            for e in es:
                if makes_cycle(w, e):
                    return False
                w.apply(e)
        except Exception:
            return False
        return run_impl(es)[4] is not None
    if not bad(evs):
        return evs
    changed = True
    while changed:
        changed = False
        for i in range(len(evs) - 1, -1, -1):
            cand = evs[:i] + evs[i + 1:]
            if bad(cand):
                evs = cand; changed = True
    return evs


FINISH = dict(rule="exhaustive: every acyclic word up to the stated length over each reduced alphabet (non-trivial = >= 2 events after the prelude); "
                   "random: distinct sequences in which some module reaches >= 3 modules; forward: cases calling >= 2 submodules")


def norm_event(e):
    e = list(e)
    if e[0] in ("SetAttr", "RegisterModule", "RegisterParameter"):
        e[3] = tuple(e[3])
    if e[0] == "NewSequentialDict":
        e[1] = [tuple(kc) for kc in e[1]]
    return tuple(e)


def replay(ctx, data):
    if data.get("kind") != "failing-input":
        print(json.dumps(data.get("broken"), indent=1)); return 1
    evs = [norm_event(e) for e in data["input"]["events"]]
    print("events  ", [ev_coq(e) for e in evs])
    fwd = data["input"].get("forward")
    if fwd:
        w = World()
        for e in evs:
            w.apply(e)
        want = [w.mid(c) for c in w.mods[fwd[0]]._submodules.values()]
        try:
            y = w.mods[fwd[0]](fwd[1])
        except Exception as ex:
            y = "raised %s" % type(ex).__name__
        print("forward(%d) = %s, calls %s, registration order %s" % (fwd[1], y, w.calls, want))
        return 1 if (w.calls != want or isinstance(y, str)) else 0
    done, raised, obs, snap, verdict = run_impl(evs)
    print("raised  ", raised)
    print("observed", obs)
    print("verdict ", verdict or "property holds on this input")
    return 1 if verdict else 0
