"""C05 — forward results of tensor ops match the NumPy/PyTorch definition they mirror.

Assembled from parts (each builds its own Props file and runs its own ties and oracle):
  constructors            checks/ops_ctor.py     Props/C05_ctor.v
  view / indexing ops     checks/ops_views.py    Props/C05_views.v      (reshape, flatten, squeeze, unsqueeze, movedim, transpose,
                                                                         unfold, __getitem__, iteration)
  arithmetic / reductions checks/ops_algebra.py  Props/C05_algebra.v    (broadcasting, matmul/addmm, sum/mean/max/min, concat/stack/unbind,
                                                                         operator and reflected-operator forms with Python scalars)
  memory layouts          checks/wrappers.py     (metamorphic tie)      every catalogued op on Fortran-ordered / strided / cropped /
                                                                         transposed-view operands = the same op on C-contiguous ones
"""
import importlib

PARTS = [("checks.ops_ctor", {}), ("checks.ops_views", {"prop": "C05"}), ("checks.ops_algebra", {"as_pid": "C05"})]


def _parts(ctx=None):
    for m, kw in PARTS:
        try:
            yield importlib.import_module(m), kw
        except ModuleNotFoundError as ex:
            if ctx is not None:
                ctx.notes.append("part %s not available: %s" % (m, ex))


def run(ctx):
    for mod, kw in _parts(ctx):
        mod.run_part(ctx, **kw)
    from checks import wrappers
    wrappers.run_layout_part(ctx)


def replay(ctx, data):
    if "layout" in data.get("input", {}):
        from checks import wrappers
        return wrappers.replay(ctx, data)
    for mod, kw in _parts():
        fn = getattr(mod, "replay", None) or getattr(mod, "replay_part", None)
        if fn is None:
            continue
        try:
            rc = fn(ctx, data)
        except Exception:
            continue
        if rc is not None:
            return rc
    return 1


FINISH = dict(rule="per part: exhaustive small-rank grids of shapes/arguments (distinct argument tuples; non-trivial = index map is not the identity or call is rejected) plus seeded random cases")
