"""C05 — forward results of tensor ops match the NumPy/PyTorch definition they mirror (assembled from parts)."""
import importlib

PARTS = ["checks.ops_ctor", "checks.ops_views", "checks.ops_algebra"]


def run(ctx):
    for m in PARTS:
        try:
            mod = importlib.import_module(m)
        except ImportError as ex:
            ctx.notes.append("part %s not available: %s" % (m, ex))
            continue
        fn = getattr(mod, "run_part_c05", None) or getattr(mod, "run_part")
        fn(ctx)


FINISH = dict(rule="per part: exhaustive small-rank grids of shapes/arguments (distinct argument tuples; non-trivial = index map is not the identity or call is rejected) plus seeded random cases")
